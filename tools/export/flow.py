"""Shared exporter / oracle support of C06 (reaching definitions) and C07 (liveness).

 * analyze(src): runs the implementation's analyses exactly as converters/control_flow.transform does
   (cfg.build, qual_names, activity, reaching_definitions, reaching_fndefs, liveness) on the parsed
   function and captures the Analyzer objects (monkey-patched subclasses, no hook in the repository).
   Everything is named by Skel label (tools/export/skel.py = CFG node of coq/Cfg/Skel.v).
 * Python-semantics side tables per CFG node (S): names a node reads / binds / deletes, for-targets,
   computed from the ast alone (no malt code involved); validated against CPython by the oracles.
 * dynamic(...): one real CPython call under pyrt.run_var_events, cut into statement instances.
"""
import ast

from lib import pyrt
from export import skel as skel_mod

FIELDS = ('read', 'modified', 'bound', 'deleted', 'globals', 'nonlocals', 'annotations', 'params', 'isolated_names')


class Unsupported(Exception):
    pass


def _names(s):
    return sorted(str(q) for q in s)


def scope_dict(sc):
    d = {}
    for f in FIELDS:
        v = getattr(sc, f)
        d[f] = _names(v.keys() if hasattr(v, 'keys') else v)
    return d


EMPTY_SCOPE = {f: [] for f in FIELDS}


class FnInfo(object):
    """One function (top-level or nested) = one Graph."""

    def __init__(self, fn, graph, rd, lv):
        self.fn = fn
        self.graph = graph
        self.rd = rd
        self.lv = lv
        self.sk = skel_mod.Skel(fn)
        lab = self.sk.label
        self.nodes = {}          # label -> cfg Node
        # a lambda expression has a CFG node of its own (in front of the statement that contains it) that is not part
        # of the skeleton: it gets a label above the skeleton's, in source order
        self.lam_label = {}
        lams = sorted((n for n in graph.index.values() if isinstance(n.ast_node, ast.Lambda)),
                      key=lambda n: (n.ast_node.lineno, n.ast_node.col_offset))
        base = max(self.sk.node_of) + 1
        for i, n in enumerate(lams):
            self.lam_label[id(n.ast_node)] = base + i
        self.lambdas = sorted(self.lam_label.values())
        for n in graph.index.values():
            if id(n.ast_node) in self.lam_label:
                self.nodes[self.lam_label[id(n.ast_node)]] = n
                continue
            if id(n.ast_node) not in lab:
                raise Unsupported('CFG node without label %r' % (n,))
            self.nodes[lab[id(n.ast_node)]] = n
        self.edges, _, self.errors = skel_mod.impl_graph(graph, self.sk)      # lambda nodes contracted
        full = set()
        for n in graph.index.values():
            for m in n.next:
                full.add((self.label_of(n), self.label_of(m)))
        for n in graph.exit:
            full.add((self.label_of(n), 0))
        self.edges_full = sorted(full)
        self.entry = lab[id(graph.entry.ast_node)]

    def label_of(self, node):
        k = id(node.ast_node)
        return self.lam_label[k] if k in self.lam_label else self.sk.label[k]

    def kind(self, l):
        return self.sk.kind.get(l, 'lambda')


class Analysis(object):
    def __init__(self, src):
        from malt.pyct import cfg, qual_names, anno, transformer
        from malt.pyct.static_analysis import activity, reaching_definitions, reaching_fndefs, liveness
        self.anno = anno
        self.src = src
        tree = ast.parse(src)
        fn = tree.body[0]
        ctx = transformer.Context(transformer.EntityInfo(name=fn.name, source_code=src, source_file='<flow>',
                                                         future_features=(), namespace={}), None, None)
        rd_an = {}
        lv_an = {}
        rd_init = reaching_definitions.Analyzer.__init__
        lv_init = liveness.Analyzer.__init__

        def rd_rec(self_, graph, *a, **k):
            rd_init(self_, graph, *a, **k)
            rd_an[id(graph)] = self_

        def lv_rec(self_, graph, *a, **k):
            lv_init(self_, graph, *a, **k)
            lv_an[id(graph)] = self_

        reaching_definitions.Analyzer.__init__ = rd_rec
        liveness.Analyzer.__init__ = lv_rec
        try:
            graphs = cfg.build(fn)
            fn = qual_names.resolve(fn)
            fn = activity.resolve(fn, ctx, None)
            fn = reaching_definitions.resolve(fn, ctx, graphs)
            fn = reaching_fndefs.resolve(fn, ctx, graphs)
            fn = liveness.resolve(fn, ctx, graphs)
        finally:
            reaching_definitions.Analyzer.__init__ = rd_init
            liveness.Analyzer.__init__ = lv_init
        self.fn = fn
        self.graphs = graphs
        self.fns = {}       # FunctionDef node -> FnInfo
        for node, g in graphs.items():
            if isinstance(node, ast.Lambda):
                continue        # the lambda's own (two-node) graph is not exported
            if not isinstance(node, ast.FunctionDef):
                raise Unsupported('graph of a %s' % type(node).__name__)
            self.fns[node] = FnInfo(node, g, rd_an.get(id(g)), lv_an.get(id(g)))
        self.top = self.fns[fn]
        # Definition object -> (fn node, name, defining label)
        self.def_site = {}
        for fi in self.fns.values():
            if fi.rd is None:
                continue
            for node, st in fi.rd.gen_map.items():
                for sym, defs in st.value.items():
                    for d in defs:
                        self.def_site[id(d)] = (fi.fn, str(sym), fi.label_of(node))

    # ---- per node data ------------------------------------------------------------------------
    def node_scope(self, node):
        sc = self.anno.getanno(node.ast_node, self.anno.Static.SCOPE, default=None)
        return None if sc is None else scope_dict(sc)

    def loop_targets(self, node):
        """node_scope.iterate_targets (absent before the edge-sensitive for-header repair -> empty)"""
        sc = self.anno.getanno(node.ast_node, self.anno.Static.SCOPE, default=None)
        return sorted(str(q) for q in getattr(sc, 'iterate_targets', ())) if sc is not None else []

    def reaching_fns(self, node):
        """[(is_lambda, scope dict of ARGS_AND_BODY_SCOPE, FunctionDef/Lambda node)] of DEFINED_FNS_IN"""
        from malt.pyct.static_analysis import annos
        out = []
        for d in self.anno.getanno(node.ast_node, self.anno.Static.DEFINED_FNS_IN, default=()):
            sc = self.anno.getanno(d, annos.NodeAnno.ARGS_AND_BODY_SCOPE)
            out.append((isinstance(d, ast.Lambda), scope_dict(sc), d))
        out.sort(key=lambda t: getattr(t[2], 'lineno', 0))
        return out

    def rd_state(self, fi, st):
        """_NodeState -> sorted [(name, defining label)]"""
        out = set()
        for sym, defs in st.value.items():
            for d in defs:
                site = self.def_site.get(id(d))
                if site is None or site[0] is not fi.fn:
                    raise Unsupported('definition object without a generating node')
                out.add((str(sym), site[2]))
        return sorted(out)

    def defs_labels(self, fi, defs):
        out = set()
        for d in defs:
            site = self.def_site.get(id(d))
            if site is None:
                raise Unsupported('definition object without a generating node')
            out.add(site[2])
        return sorted(out)


# ---------------------------------------------------------------------------------------------
# S side: what a CFG node does to variables according to Python (from the ast alone).

def _own_nodes(root):
    """ast nodes of a statement / expression that execute as part of it: does not descend into the
    bodies of nested function definitions and lambdas (their decorators / defaults do execute)."""
    todo = [root]
    while todo:
        n = todo.pop()
        yield n
        if isinstance(n, (ast.FunctionDef, ast.AsyncFunctionDef, ast.Lambda)):
            todo.extend(n.decorator_list if hasattr(n, 'decorator_list') else [])
            todo.extend(d for d in n.args.defaults + n.args.kw_defaults if d is not None)
            continue
        todo.extend(ast.iter_child_nodes(n))


COMPS = (ast.ListComp, ast.SetComp, ast.DictComp, ast.GeneratorExp)


def comp_targets(comp):
    """names bound by the `for` clauses of one comprehension / generator expression (variables of its own scope)"""
    return set(t.id for g in comp.generators for t in ast.walk(g.target) if isinstance(t, ast.Name))


def _names_outside_comprehensions(fn):
    """identifiers (names, parameters, local defs) that occur in fn outside every comprehension"""
    out = set()
    todo = [fn]
    while todo:
        n = todo.pop()
        if isinstance(n, COMPS):
            continue
        if isinstance(n, ast.Name):
            out.add(n.id)
        elif isinstance(n, ast.arg):
            out.add(n.arg)
        elif isinstance(n, (ast.FunctionDef, ast.ClassDef)):
            out.add(n.name)
        elif isinstance(n, (ast.Global, ast.Nonlocal)):
            out |= set(n.names)
        elif isinstance(n, ast.ExceptHandler) and n.name:
            out.add(n.name)
        todo.extend(ast.iter_child_nodes(n))
    return out


def _scoped_nodes(root, outside, hidden=frozenset()):
    """(ast node, names hidden at that node) for the nodes that execute as part of a statement / expression, like
    _own_nodes, but aware of the scope of comprehensions and generator expressions (Python reference 6.2.4): the
    iterable of the first `for` clause is evaluated in the enclosing scope, everything else (element, key / value,
    filters, later iterables) in the comprehension's own scope, where the `for` targets are its local variables.
    A Name that is hidden is a variable of a comprehension, not of the function.
    Fail closed: a target that also names something outside the comprehensions (3.12 inlines list / set / dict
    comprehensions into the function's frame, so the two variables would share a slot in the event log), a walrus."""
    if isinstance(root, ast.NamedExpr):
        raise Unsupported('NamedExpr')
    yield root, hidden
    if isinstance(root, (ast.FunctionDef, ast.AsyncFunctionDef, ast.Lambda)):
        kids = list(root.decorator_list if hasattr(root, 'decorator_list') else [])
        kids += [d for d in root.args.defaults + root.args.kw_defaults if d is not None]
        for k in kids:
            for x in _scoped_nodes(k, outside, hidden):
                yield x
        return
    if isinstance(root, COMPS):
        tg = comp_targets(root)
        if tg & outside or tg & hidden:
            raise Unsupported('comprehension target %s is also a name of the function' % sorted((tg & outside) | (tg & hidden)))
        inner = frozenset(hidden | tg)
        first = root.generators[0]
        for x in _scoped_nodes(first.iter, outside, hidden):
            yield x
        rest = [first.target] + list(first.ifs)
        for g in root.generators[1:]:
            rest += [g.iter, g.target] + list(g.ifs)
        rest += [root.key, root.value] if isinstance(root, ast.DictComp) else [root.elt]
        for k in rest:
            for x in _scoped_nodes(k, outside, inner):
                yield x
        return
    for k in ast.iter_child_nodes(root):
        for x in _scoped_nodes(k, outside, hidden):
            yield x


def py_effects(fi, comps=False, composite=False):
    """label -> dict(reads, writes, dels, ftarget, body) by Python's rules.
    composite: a store / augmented store / del through a composite target (`x[0] = v`, `del x.k[a]`) ends the binding
    of that LOCATION and of nothing else: the location, named by its source text (never an identifier), is added to
    `dels`, i.e. to what the node may kill.  It is not a variable: no read / write of it is ever judged, and the
    variable that holds the object (`x`) is only READ by such a node.
    reads: names the node may read; writes: names every completed instance binds; dels: deletes;
    ftarget: (for header) names bound when and only when an iteration starts; body: entry label of the loop body.
    comps: accept comprehensions / generator expressions (their free reads -- in the element, the iterables and the
    filters of every `for` clause -- are reads of the node; their targets are not variables of the function)."""
    out = {}
    sk = fi.sk
    parents = {}
    for p in ast.walk(fi.fn):
        for c in ast.iter_child_nodes(p):
            parents[id(c)] = p
    outside = _names_outside_comprehensions(fi.fn)
    for l, node in sk.node_of.items():
        e = {'reads': set(), 'writes': set(), 'dels': set(), 'ftarget': set(), 'body': 0}
        kind = sk.kind[l]
        if kind == 'args':
            for a in node.posonlyargs + node.args + node.kwonlyargs + [x for x in (node.vararg, node.kwarg) if x]:
                e['writes'].add(a.arg)
        else:
            roots = [node]
            if kind == 'item':
                roots = [node.context_expr] + ([node.optional_vars] if node.optional_vars is not None else [])
            if kind == 'iter':
                f = parents[id(node)]
                for t in ast.walk(f.target):
                    if isinstance(t, ast.Name) and isinstance(t.ctx, ast.Store):
                        e['ftarget'].add(t.id)      # (a composite target `for x[a, 1] in ...` reads x and a, binds nothing)
                    elif isinstance(t, ast.Name):
                        e['reads'].add(t.id)
                    elif composite and isinstance(t, (ast.Subscript, ast.Attribute)) and not isinstance(t.ctx, ast.Load):
                        e['dels'].add(ast.unparse(t))
                e['body'] = entry_label(sk, f.body[0])
            for r in roots:
                for n, hidden in _scoped_nodes(r, outside):
                    if isinstance(n, ast.Name):
                        if n.id in hidden:
                            continue        # a variable of a comprehension
                        if isinstance(n.ctx, ast.Load):
                            e['reads'].add(n.id)
                        elif isinstance(n.ctx, ast.Store):
                            e['writes'].add(n.id)
                        else:
                            e['dels'].add(n.id)
                            e['reads'].add(n.id)
                    elif composite and isinstance(n, (ast.Subscript, ast.Attribute)) and not isinstance(n.ctx, ast.Load):
                        e['dels'].add(ast.unparse(n))
                    elif isinstance(n, (ast.FunctionDef, ast.ClassDef)):
                        e['writes'].add(n.name)
                    elif isinstance(n, ast.alias):
                        e['writes'].add((n.asname or n.name).split('.')[0])
                    elif isinstance(n, ast.AugAssign) and isinstance(n.target, ast.Name):
                        e['reads'].add(n.target.id)
                    elif isinstance(n, (ast.Global, ast.Nonlocal)):
                        pass       # declarations: no run-time effect
                    elif isinstance(n, COMPS) and not comps:
                        raise Unsupported(type(n).__name__)
        out[l] = {k: (sorted(v) if isinstance(v, set) else v) for k, v in e.items()}
    return out


def entry_label(sk, stmt):
    if isinstance(stmt, ast.If) or isinstance(stmt, ast.While):
        return sk.label[id(stmt.test)]
    if isinstance(stmt, ast.For):
        return sk.label[id(stmt.iter)]
    if isinstance(stmt, ast.Try):
        return entry_label(sk, stmt.body[0])
    if isinstance(stmt, ast.With):
        return sk.label[id(stmt.items[0])]
    return sk.label[id(stmt)]


def inside_labels(sk, stmt):
    ids = set(id(x) for x in ast.walk(stmt))
    return sorted(l for l, n in sk.node_of.items() if id(n) in ids)


def compound_stmts(fi):
    """compound statements of this function (not of nested functions), in source order"""
    out = []

    def block(stmts):
        for s in stmts:
            if isinstance(s, (ast.If, ast.For, ast.While, ast.Try, ast.With)):
                out.append(s)
            for fld in ('body', 'orelse', 'finalbody'):
                if not isinstance(s, (ast.FunctionDef, ast.ClassDef)):
                    block(getattr(s, fld, []) or [])
            for h in getattr(s, 'handlers', []) or []:
                out.append(h)
                block(h.body)
    block(fi.fn.body)
    return out


# ---------------------------------------------------------------------------------------------
# dynamic side: one CPython call cut into statement instances

class Instance(object):
    __slots__ = ('label', 'start', 'end', 'line')

    def __init__(self, label, start, line):
        self.label = label
        self.start = start     # index of the first event of the instance
        self.end = start       # index one past its last event
        self.line = line


def _own_nodes_block(stmts):
    for st in stmts:
        for n in _own_nodes(st):
            yield n


def implicit_exception(src, fname, decisions, args):
    """Second run of the same call (same decisions) under sys.settrace: name of the first exception raised inside
    the function or a function nested in it that is not one of the generator's explicit E0..E3, else None."""
    import sys
    world = pyrt.World(decisions)
    glb = world.globals()
    glb.setdefault('GV', 0)      # module-level variable for programs that declare `global GV`
    exec(compile(src, '<flow>', 'exec'), glb)
    f = glb[fname]
    args = tuple(args)[:f.__code__.co_argcount]
    codes = set()
    todo = [f.__code__]
    while todo:
        c = todo.pop()
        codes.add(c)
        todo.extend(k for k in c.co_consts if hasattr(k, 'co_code'))
    found = []

    def tracer(frame, event, arg):
        if frame.f_code not in codes:
            return None
        if event == 'exception' and arg[0].__name__ not in ('E0', 'E1', 'E2', 'E3', 'StopIteration', 'GeneratorExit'):
            # (GeneratorExit: a generator expression abandoned by its consumer -- any(...) -- is closed, no statement raised)
            found.append(arg[0].__name__)
        return tracer
    old = sys.gettrace()
    sys.settrace(tracer)
    try:
        try:
            f(*args)
        except BaseException:   # noqa
            pass
    finally:
        sys.settrace(old)
    return found[0] if found else None


COMP_CODE_NAMES = ('<genexpr>', '<listcomp>', '<setcomp>', '<dictcomp>')


def fn_code_of(code, parent):
    """the code object of the def / lambda a comprehension's code object belongs to (code itself otherwise)"""
    while code.co_name in COMP_CODE_NAMES and id(code) in parent:
        code = parent[id(code)]
    return code


class Dyn(object):
    """events of one call; var events normalised to (op, var, owner) where owner is None for an access by
    the function's own code and the nested function's name for an access through a closure."""

    def __init__(self, src, fi, decisions, args=(1, 2, 3)):
        self.ok = False
        sk = fi.sk
        world = pyrt.World(decisions)
        glb = world.globals()
        glb.setdefault('GV', 0)      # module-level variable for programs that declare `global GV`
        exec(compile(src, '<flow>', 'exec'), glb)
        f = glb[fi.fn.name]
        self.f = f
        args = tuple(args)[:f.__code__.co_argcount]
        kind, val, events = pyrt.run_var_events(f, args, world)
        self.kind, self.val = kind, val
        if kind == 'raise' and val not in ('E0', 'E1', 'E2', 'E3'):
            return          # implicit exception: outside the property
        imp = implicit_exception(src, fi.fn.name, decisions, args)
        if imp:
            self.val = 'implicit %s caught by a handler' % imp
            return          # an ordinary statement raised and a handler caught it: outside the property
        fname = f.__code__.co_name
        own = set(f.__code__.co_varnames) | set(f.__code__.co_cellvars)
        self.locals = own
        # names the function itself declares global: their reads / writes by the function's own code are judged by
        # the reaching-definitions oracle (they have definitions in the function's graph), not by the liveness one
        self.declared_globals = set(n for st in _own_nodes_block(fi.fn.body) if isinstance(st, ast.Global) for n in st.names)
        nested = {}       # code name -> [(set of lines, code)]: a local function may be re-defined under the same name
        self.depth = {}   # id(code) -> nesting depth below the function (1 = defined directly in it)
        self.code_parent = {}   # id(code) -> code object it is a constant of
        todo = [(f.__code__, 0)]
        while todo:
            c, dep = todo.pop()
            for k in c.co_consts:
                if hasattr(k, 'co_code'):
                    if k.co_name == fname:
                        return      # ambiguous code names
                    lines = set(l for _, _, l in k.co_lines() if l is not None) | {k.co_firstlineno}
                    nested.setdefault(k.co_name, []).append((lines, k))
                    self.depth[id(k)] = dep + 1
                    self.code_parent[id(k)] = c
                    todo.append((k, dep + 1))
        self.nested = nested

        def code_at(name, line):
            cands = [k for lines, k in nested[name] if line in lines]
            if len(cands) > 1:      # an inner function's lines also belong to the enclosing one: take the innermost
                cands = [k for k in cands if self.depth[id(k)] == max(self.depth[id(c)] for c in cands)]
            return cands[0] if len(cands) == 1 else None
        self.code_at = code_at
        ev = []           # (op, var, owner, line) or ('line', lineno) / ('gap', lineno)
        inst = []
        # synthetic first instance: parameter binding at the args node
        cur = Instance(fi.entry, 0, fi.fn.lineno)
        inst.append(cur)
        for a in f.__code__.co_varnames[:f.__code__.co_argcount]:
            ev.append(('W', a, None, fi.fn.lineno))
        escaped = False
        i = 0
        n = len(events)
        while i < n:
            e = events[i]
            i += 1
            if e[0] == 'line' and e[1] == fname:
                if escaped:
                    break       # the exception left a try with finally / the function: nothing claimed beyond
                labs = [l for l in sk.line_labels.get(e[2], ())]
                is_inst = bool(labs)
                if labs and sk.kind[labs[0]] == 'item':
                    # the with line is visited again when the block is left (__exit__ call)
                    j = i
                    is_inst = False
                    while j < n and not (events[j][0] == 'line' and events[j][1] == fname):
                        if events[j][0] == 'GR' and events[j][1] == fname and events[j][3] == 'CM':
                            is_inst = True
                        j += 1
                if len(labs) > 1:
                    return
                cur.end = len(ev)
                if is_inst:
                    cur = Instance(labs[0], len(ev), e[2])
                    inst.append(cur)
                    ev.append(('line', e[2], None, e[2]))
                    if sk.kind[labs[0]] == 'raise':
                        ds = sk.raise_decisions.get(labs[0])
                        if ds is None:
                            return
                        if not ds or ds[-1] == 0:
                            escaped = True
                else:
                    cur = Instance(0, len(ev), e[2])      # gap: a line that is no CFG node (try / except / with exit)
                    inst.append(cur)
                    ev.append(('gap', e[2], None, e[2]))
                continue
            if e[0] in ('GR', 'GW') and e[1] == fname and e[3] in self.declared_globals:
                ev.append(('R' if e[0] == 'GR' else 'W', e[3], None, e[2]))
                continue
            if e[0] in ('R', 'W', 'D'):
                if e[1] == fname:
                    if e[3] in own:
                        ev.append((e[0], e[3], None, e[2]))
                elif e[1] in nested:
                    k = code_at(e[1], e[2])
                    if k is None:
                        return
                    if e[3] in k.co_freevars and e[3] in own:
                        # (a generator expression runs in a frame of its own but is part of the function that contains
                        # it: the access is one of that function -- of this function itself when owner is None)
                        kf = fn_code_of(k, self.code_parent)
                        ev.append((e[0], e[3], None if kf is f.__code__ else kf.co_name, e[2]))
                else:
                    return
        cur.end = len(ev)
        # (runs in which an ordinary statement raised are excluded above by implicit_exception; the executed
        # statement sequence is NOT required to be a path of the implementation's graph -- a missing edge is
        # exactly how a wrong graph makes the analyses unsound, and the oracle must see those runs)
        es = set(fi.edges)
        labs = [x.label for x in inst if x.label]
        self.on_graph = all((a, b) in es for a, b in zip(labs, labs[1:]))
        self.val = val
        self.ev = ev
        self.inst = inst
        self.escaped = escaped
        self.decisions = list(decisions)
        self.raw = events           # the unfiltered event list (activations of nested functions are cut from it)
        self.root = f.__code__
        self.ok = True

    def labelled(self):
        return [x for x in self.inst if x.label]


# ---------------------------------------------------------------------------------------------
# property-level oracles (CPython is the judge)

def _for_headers(fi):
    """label of a for header -> (set of target names, entry label of the body)"""
    out = {}
    for s in ast.walk(fi.fn):
        if isinstance(s, ast.For) and id(s.iter) in fi.sk.label:
            # (only the names the header BINDS: in `for x[a, 1] in ...` x and a are read, the object x holds is mutated)
            out[fi.sk.label[id(s.iter)]] = (set(t.id for t in ast.walk(s.target)
                                                if isinstance(t, ast.Name) and isinstance(t.ctx, ast.Store)),
                                            entry_label(fi.sk, s.body[0]))
    return out


def exhausted_header_between(fi, dyn, var, i0, i1):
    """Is there, among the labelled instances with index in [i0, i1), an evaluation of a for header whose
    target is `var` that did not start an iteration (the instance that follows is not the loop body)?
    This is the narrow classifier of the known finding `for-target-killed-on-exit-edge`."""
    heads = _for_headers(fi)
    lab = [x for x in dyn.inst if x.label]
    for j in range(max(i0, 0), min(i1, len(lab))):
        h = heads.get(lab[j].label)
        if h and var in h[0]:
            nxt = lab[j + 1].label if j + 1 < len(lab) else None
            if nxt != h[1]:
                return True
    return False


def nonlocal_decls(fn):
    """nested function name -> names it declares nonlocal"""
    out = {}
    for s in ast.walk(fn):
        if isinstance(s, ast.FunctionDef) and s is not fn:
            out[s.name] = set(n for t in ast.walk(s) if isinstance(t, ast.Nonlocal) for n in t.names)
    return out


def liveness_failures(an, fi, dyn):
    """C07 judged on one real run.  For every boundary between statement instances: the variables whose
    current value is read later before being overwritten (in the function or through a closure) must be in
    in_ of the node that starts, out of the node that ended, LIVE_VARS_IN / LIVE_VARS_OUT of the statements.
    -> list of dict(what, var, label, known)"""
    anno = an.anno
    ev = dyn.ev
    n = len(ev)
    live_at = [None] * (n + 1)
    next_read = [None] * (n + 1)      # var -> index of the read that makes it live (for classification)
    live = {}
    live_at[n] = {}
    for p in range(n - 1, -1, -1):
        e = ev[p]
        if e[0] in ('R', 'W', 'D') and e[1] in dyn.declared_globals:
            live_at[p] = live
            continue
        if e[0] == 'R':
            live = dict(live)
            live[e[1]] = p
        elif e[0] in ('W', 'D'):
            if e[1] in live:
                live = dict(live)
                del live[e[1]]
        live_at[p] = live
    lab = [x for x in dyn.inst if x.label]
    idx_of = {id(x): k for k, x in enumerate(lab)}
    nl = nonlocal_decls(fi.fn)
    out = []
    seen = set()
    comp = [(s, set(inside_labels(fi.sk, s))) for s in compound_stmts(fi)]

    def report(what, var, label, p, k):
        key = (what, var, label)
        if key in seen:
            return
        seen.add(key)
        q = live_at[p][var]
        known = None
        # which labelled instance performs the read q
        kq = len(lab)
        for j, x in enumerate(lab):
            if x.start > q:
                kq = j
                break
        if exhausted_header_between(fi, dyn, var, k, kq):
            known = 'for-target-killed-on-exit-edge'
        elif (ev[q][2] is not None and ev[q][2] in dyn.nested and dyn.code_at(ev[q][2], ev[q][3]) is not None
              and dyn.depth[id(dyn.code_at(ev[q][2], ev[q][3]))] >= 2 and var in nl.get(ev[q][2], ())):
            # the read is performed by a function nested at least two levels down that declares the variable
            # nonlocal: activity folds the inner function's scope into the middle one with `read - bound`
            known = 'liveness-nonlocal-two-levels-down'
        elif ev[q][2] is not None and var in nl.get(ev[q][2], ()):
            known = 'liveness-nonlocal-closure-read'
        elif ev[q][2] == '<lambda>' and (any(x.line == ev[q][3] and x.start < p for x in lab)
                                         or ev[q][3] in getattr(dyn, 'lines_before', ())):
            # the read that makes the variable live is performed by the body of a lambda expression (the variable is
            # one of its free variables) that was evaluated by an earlier statement instance and is called after the
            # boundary: liveness.Analyzer.lamba_check leaves lambdas out of the closure rule
            # (activation of a nested function: the earlier statement instance may be one of an enclosing function,
            # executed before the activation started -- ActView.lines_before)
            known = 'liveness-lambda-closure-not-live'
        out.append({'what': what, 'var': var, 'label': label, 'known': known,
                    'read_at_line': ev[q][3], 'read_through': ev[q][2]})

    for k, x in enumerate(lab):
        node = fi.nodes.get(x.label)
        if node is None:
            continue
        # entry of instance k
        dl = live_at[x.start]
        rep_in = set(str(s) for s in fi.lv.in_[node])
        for v in dl:
            if v not in rep_in:
                report('live at entry of node but not in in_', v, x.label, x.start, k)
        stmt = node.ast_node
        if isinstance(stmt, ast.stmt) and anno.hasanno(stmt, anno.Static.LIVE_VARS_IN):
            a = set(str(s) for s in anno.getanno(stmt, anno.Static.LIVE_VARS_IN))
            for v in dl:
                if v not in a:
                    report('live at entry of statement but not in LIVE_VARS_IN', v, x.label, x.start, k)
        for s, ins in comp:
            if isinstance(s, ast.ExceptHandler):
                ent = entry_label(fi.sk, s.body[0])
            else:
                ent = entry_label(fi.sk, s)
            if ent == x.label and anno.hasanno(s, anno.Static.LIVE_VARS_IN):
                a = set(str(q) for q in anno.getanno(s, anno.Static.LIVE_VARS_IN))
                for v in dl:
                    if v not in a:
                        report('live at entry of %s but not in its LIVE_VARS_IN' % type(s).__name__, v, x.label, x.start, k)
            # leaving s: the previous labelled instance is inside, this one is not
            if k > 0 and lab[k - 1].label in ins and x.label not in ins and anno.hasanno(s, anno.Static.LIVE_VARS_OUT):
                a = set(str(q) for q in anno.getanno(s, anno.Static.LIVE_VARS_OUT))
                for v in dl:
                    if v not in a:
                        report('live after %s but not in its LIVE_VARS_OUT' % type(s).__name__, v, lab[k - 1].label, x.start, k)
        # exit of instance k
        dl = live_at[x.end]
        rep_out = set(str(s) for s in fi.lv.out[node])
        for v in dl:
            if v not in rep_out:
                report('live at exit of node but not in out', v, x.label, x.end, k + 1)
        if isinstance(stmt, ast.Expr) and anno.hasanno(stmt, anno.Static.LIVE_VARS_OUT):
            a = set(str(s) for s in anno.getanno(stmt, anno.Static.LIVE_VARS_OUT))
            for v in dl:
                if v not in a:
                    report('live after expression statement but not in LIVE_VARS_OUT', v, x.label, x.end, k + 1)
    return out


# ---------------------------------------------------------------------------------------------
# C07 inside nested functions: every activation of a local function is judged against the graph of THAT function.
#
# Claim checked (a sound part of the property text): inside one activation of a nested function g, if the value a
# variable of g's graph (a local of g, or a variable of an enclosing function that g's code mentions) holds when a
# statement of g finishes is read later DURING THE SAME ACTIVATION before being overwritten -- by g's own code, by a
# function nested in g, or by a local function of an enclosing function that is called (directly, through an alias,
# a container or a chain of sibling closures) while g runs -- then g's liveness solution has the variable in out of
# that statement and in in_ / LIVE_VARS_IN of the statement that follows.
# Guard of the class (S side, computed from the ast and the graph, never from DEFINED_FNS_IN): a reader that is a
# local function f of an enclosing function E counts only if the `def f` statement lies on a graph path to the `def`
# statement (in E's graph) of the function on g's nesting chain -- i.e. f's definition reaches the definition of g,
# which is what reaching_fndefs.TreeAnnotator passes into g's graph as external definitions.  Reads by functions
# defined later than g (or by a recursive activation of g / of an enclosing function) are counted in
# `skipped_reads` and not claimed.

def fn_own_bound(fnode):
    """S: names a function binds as its own locals (parameters, stores, local defs / imports), i.e. not the names it
    declares nonlocal / global"""
    stores, decl = set(), set()
    a = fnode.args
    for x in a.posonlyargs + a.args + a.kwonlyargs + [y for y in (a.vararg, a.kwarg) if y]:
        stores.add(x.arg)
    if isinstance(fnode, ast.Lambda):
        return stores
    own = list(_own_nodes_block(fnode.body))
    # the `for` targets of comprehensions are variables of the comprehension, they hide nothing in fnode
    comp_tg = set(id(t) for c in own if isinstance(c, COMPS) for g in c.generators for t in ast.walk(g.target))
    for n in own:
        if isinstance(n, ast.Name) and isinstance(n.ctx, (ast.Store, ast.Del)) and id(n) not in comp_tg:
            stores.add(n.id)
        elif isinstance(n, (ast.FunctionDef, ast.ClassDef)):
            stores.add(n.name)
        elif isinstance(n, ast.alias):
            stores.add((n.asname or n.name).split('.')[0])
        elif isinstance(n, ast.ExceptHandler) and n.name:
            stores.add(n.name)
        elif isinstance(n, (ast.Nonlocal, ast.Global)):
            decl |= set(n.names)
    return stores - decl


class Nesting(object):
    """Static nesting structure of the analysed function: which function's graph holds each `def` statement, and which
    definitions of the enclosing functions reach the definition of a nested function (S side)."""

    def __init__(self, an):
        self.an = an
        self.parent = {}          # id(FunctionDef) -> FnInfo of the function whose graph has the def statement
        for fi in an.fns.values():
            for node in fi.nodes.values():
                if isinstance(node.ast_node, ast.FunctionDef):
                    self.parent[id(node.ast_node)] = fi
        self._reach = {}
        self.lambdas_at = {}      # line -> [Lambda nodes]
        self.lambda_home = {}     # id(Lambda) -> FnInfo of the function whose statement evaluates it
        for fi in an.fns.values():
            for l, node in fi.nodes.items():
                if l in fi.lambdas or fi.kind(l) == 'args':
                    continue
                roots = [node.ast_node.context_expr] if fi.kind(l) == 'item' else [node.ast_node]
                for r in roots:
                    for x in _own_nodes(r):
                        if isinstance(x, ast.Lambda):
                            self.lambdas_at.setdefault(x.lineno, []).append(x)
                            self.lambda_home[id(x)] = fi

    def reaching(self, fi):
        if id(fi) not in self._reach:
            self._reach[id(fi)] = defs_reaching(fi)
        return self._reach[id(fi)]

    def chain(self, fnode):
        """[fnode, the function enclosing it, ..., the top function]"""
        out = [fnode]
        while id(out[-1]) in self.parent:
            out.append(self.parent[id(out[-1])].fn)
        return out

    def external_defs(self, fnode):
        """-> [(def / lambda node of an enclosing function whose definition reaches the definition of fnode (or of the
        function on its chain), set of names bound between that level and fnode (they hide the outer variable))]"""
        out = []
        shadow = set()
        c = fnode
        while id(c) in self.parent:
            e = self.parent[id(c)]
            shadow = shadow | fn_own_bound(c)
            lab = e.sk.label.get(id(c))
            for d in self.reaching(e).get(lab, ()):
                out.append((d, set(shadow)))
            c = e.fn
        return out

    def reaches_def_of(self, d, fnode):
        """does the definition d (a def / lambda of an enclosing function) reach the definition of fnode?"""
        return any(x is d for x, _ in self.external_defs(fnode))


def nesting_of(an):
    if getattr(an, '_nesting', None) is None:
        an._nesting = Nesting(an)
    return an._nesting


class _Act(object):
    __slots__ = ('code', 'start', 'end', 'aborted', 'serial')

    def __init__(self, code, start, serial):
        self.code = code
        self.start = start
        self.end = None
        self.aborted = False
        self.serial = serial


class ActView(object):
    """What liveness_failures needs (the Dyn interface) for ONE activation of a nested function, in terms of the
    names of that function's graph: ev = (op, var, None | name of the function that performed the access, line)."""
    ok = True

    def __init__(self, dyn, fi, ev, inst, lines_before, serial, skipped_reads):
        self.fi = fi
        self.ev = ev
        self.inst = inst
        self.declared_globals = set()
        self.nested = dyn.nested
        self.code_at = dyn.code_at
        self.depth = dyn.depth
        self.decisions = dyn.decisions
        self.lines_before = lines_before      # lines of statement instances (any frame) started before the activation
        self.serial = serial
        self.skipped_reads = skipped_reads    # reads outside the guarded class: [(var, reader, line, why)]

    def labelled(self):
        return [x for x in self.inst if x.label]


def nested_activation_views(an, dyn, max_per_fn=3):
    """Cuts dyn.raw into the activations of the nested functions and returns an ActView for each judged one (at most
    max_per_fn per function and run).  Anything the cutter is not sure about (ambiguous code objects, an exception
    leaving a nested frame, a with / raise statement in a nested function) drops the activation, never invents a read;
    a write whose variable instance is not certain still kills."""
    nest = nesting_of(an)
    root = dyn.root
    parent = {}
    codes = [root]
    todo = [root]
    while todo:
        c = todo.pop()
        for k in c.co_consts:
            if hasattr(k, 'co_code'):
                parent[id(k)] = c
                codes.append(k)
                todo.append(k)
    lines = {id(c): set(l for _, _, l in c.co_lines() if l is not None) | {c.co_firstlineno} for c in codes}

    # code object -> def / lambda node
    defnode = {}
    by_pos = {}
    for fn in an.fns:
        by_pos.setdefault((fn.name, fn.lineno), []).append(fn)
    for c in codes:
        if c is root:
            defnode[id(c)] = an.fn
        elif c.co_name == '<lambda>':
            cands = nest.lambdas_at.get(c.co_firstlineno, [])
            defnode[id(c)] = cands[0] if len(cands) == 1 else None
        else:
            cands = by_pos.get((c.co_name, c.co_firstlineno), [])
            defnode[id(c)] = cands[0] if len(cands) == 1 else None

    def anc(c):
        out = [c]
        while id(out[-1]) in parent:
            out.append(parent[id(out[-1])])
        return out

    def owner(c, var):
        if var in c.co_varnames or var in c.co_cellvars:
            return c
        if var in c.co_freevars:
            p = parent.get(id(c))
            while p is not None:
                if var in p.co_cellvars:
                    return p
                p = parent.get(id(p))
        return None

    # pass 1: global timeline with the activation every event belongs to
    G = []
    stack = []
    acts = []
    nacts = {}
    for e in dyn.raw:
        if e[0] == 'call':
            cands = [c for c in codes if c.co_name == e[1] and c.co_firstlineno == e[2]]
            if len(cands) != 1:
                return []
            a = _Act(cands[0], len(G), len(acts))
            acts.append(a)
            stack.append(a)
            nacts[id(a.code)] = nacts.get(id(a.code), 0) + 1
            continue
        if not stack:
            return []
        if e[0] == 'ret':
            if stack[-1].code.co_name != e[1]:
                return []
            stack.pop().end = len(G)
            continue
        if e[0] not in ('line', 'R', 'W', 'D'):
            continue
        # the frame that performs the event: the top of the stack, unless an exception unwound frames
        while stack and not (stack[-1].code.co_name == e[1] and e[2] in lines[id(stack[-1].code)]):
            a = stack.pop()
            a.aborted = True
            a.end = len(G)
        if not stack:
            return []
        G.append((e[0], stack[-1], e[3] if e[0] != 'line' else None, e[2]))
    for a in stack:
        a.aborted = True

    def allowed(k, g):
        """may a read performed by code k during an activation of g be claimed? -> (bool, why not)"""
        ak = anc(k)
        if any(x is g for x in ak[1:]):
            return True, ''                       # a function nested in g
        ag = anc(g)
        for e in ag[1:]:
            if any(x is e for x in ak[1:]):
                f = ak[[i for i, x in enumerate(ak) if x is e][0] - 1]
                c = ag[[i for i, x in enumerate(ag) if x is e][0] - 1]
                if f is c:
                    return False, 'recursive activation'
                df, dc = defnode.get(id(f)), defnode.get(id(c))
                if df is None or dc is None:
                    return False, 'ambiguous code object'
                if nest.reaches_def_of(df, dc) and nest.parent.get(id(dc)) is not None:
                    return True, ''
                return False, 'defined on no path to the definition of the running function'
        return False, 'recursive activation'

    views = []
    per_fn = {}
    for A in acts:
        g = A.code
        if g is root or A.aborted or A.end is None:
            continue
        gnode = defnode.get(id(g))
        if gnode is None or not isinstance(gnode, ast.FunctionDef) or gnode not in an.fns:
            continue
        if per_fn.get(id(g), 0) >= max_per_fn:
            continue
        fi = an.fns[gnode]
        if fi.lv is None:
            continue
        sk = fi.sk
        names_g = set(g.co_varnames) | set(g.co_cellvars) | set(g.co_freevars)
        own_g = {v: owner(g, v) for v in names_g}
        ev = []
        inst = []
        cur = Instance(fi.entry, 0, gnode.lineno)
        inst.append(cur)
        npar = g.co_argcount + g.co_kwonlyargcount + (1 if g.co_flags & 4 else 0) + (1 if g.co_flags & 8 else 0)
        for a in g.co_varnames[:npar]:
            ev.append(('W', a, None, gnode.lineno))
        skipped = []
        bad = False
        for op, act, var, line in G[A.start:A.end]:
            if act is A:
                if op == 'line':
                    labs = sk.line_labels.get(line, ())
                    if len(labs) > 1 or (labs and sk.kind[labs[0]] in ('item', 'raise')):
                        bad = True
                        break
                    cur.end = len(ev)
                    if labs:
                        cur = Instance(labs[0], len(ev), line)
                        ev.append(('line', line, None, line))
                    else:
                        cur = Instance(0, len(ev), line)
                        ev.append(('gap', line, None, line))
                    inst.append(cur)
                elif var in names_g:
                    ev.append((op, var, None, line))
                continue
            if op == 'line' or var not in names_g:
                continue
            ok_, og = owner(act.code, var), own_g[var]
            if ok_ is None or og is None or ok_ is not og:
                continue                           # another variable of the same name
            if op != 'R':
                ev.append((op, var, act.code.co_name, line))      # (kills even if it is another instance of the cell)
                continue
            if not (og is root or nacts.get(id(og), 0) == 1):
                skipped.append((var, act.code.co_name, line, 'the owner of the variable is activated more than once'))
                continue
            yes, why = allowed(act.code, g)
            if yes:
                rc = fn_code_of(act.code, parent)
                ev.append(('R', var, None if rc is g else rc.co_name, line))
            else:
                skipped.append((var, act.code.co_name, line, why))
        if bad:
            continue
        cur.end = len(ev)
        per_fn[id(g)] = per_fn.get(id(g), 0) + 1
        lines_before = set(ln for op, _, _, ln in G[:A.start] if op == 'line')
        views.append(ActView(dyn, fi, ev, inst, lines_before, A.serial, skipped))
    return views


def nested_liveness_failures(an, dyn, stats=None):
    """C07 judged inside the activations of nested functions of one real run -> failures as liveness_failures, with
    the function name and a title that says where"""
    out = []
    for v in nested_activation_views(an, dyn):
        if stats is not None:
            stats['activations'] = stats.get('activations', 0) + 1
            stats['closure_reads'] = stats.get('closure_reads', 0) + sum(1 for e in v.ev if e[0] == 'R' and e[2] is not None)
            for s in v.skipped_reads:
                k = 'skipped_reads: ' + s[3]
                stats[k] = stats.get(k, 0) + 1
        for f in liveness_failures(an, v.fi, v):
            f = dict(f)
            f['what'] = 'in the graph of a nested function, during one activation of it - ' + f['what']
            f['function'] = v.fi.fn.name
            f['activation'] = v.serial
            out.append(f)
    return out


def reachdef_failures(an, fi, dyn):
    """C06 judged on one real run: at every read of a local the last writer must be among the definitions
    (node level in_ and DEFINITIONS of the Name loads on that line); at every entry of an if/for/while/try
    every bound local must be in DEFINED_VARS_IN."""
    anno = an.anno
    ev = dyn.ev
    lab = [x for x in dyn.inst if x.label]
    start_to_k = {x.start: k for k, x in enumerate(lab)}
    all_inst = dyn.inst
    out = []
    seen = set()
    writer = {}       # var -> (label or 0, through, line, index k of labelled instance)
    bound = set()
    # Name loads by (line, id) -- every generated statement sits on its own line
    loads = {}
    for fnode, fninfo in an.fns.items():
        for nd in ast.walk(fnode):
            if isinstance(nd, ast.Name) and isinstance(nd.ctx, ast.Load):
                loads.setdefault((nd.lineno, nd.id), []).append((fninfo, nd))
    comp = [(s, set(inside_labels(fi.sk, s))) for s in compound_stmts(fi)
            if isinstance(s, (ast.If, ast.For, ast.While, ast.Try))]
    handler_names = {}
    for s in ast.walk(fi.fn):
        if isinstance(s, ast.ExceptHandler) and s.name:
            handler_names[s.lineno] = s.name
    cur_label = fi.entry
    cur_k = 0
    prev_label = None
    k = -1

    def report(what, var, label, known, extra=None):
        key = (what, var, label)
        if key in seen:
            return
        seen.add(key)
        d = {'what': what, 'var': var, 'label': label, 'known': known}
        if extra:
            d.update(extra)
        out.append(d)

    def classify(var, w, k_read):
        if w[1] is not None:
            return 'reachdef-write-through-closure'
        if w[0] == 0 and handler_names.get(w[2]) == var:
            return 'reachdef-except-as-name-untracked'
        if exhausted_header_between(fi, dyn, var, w[3], k_read):
            return 'for-target-killed-on-exit-edge'
        return None

    inst_iter = iter(all_inst)
    bounds = {x.start: x for x in all_inst}
    for p, e in enumerate(ev):
        if p in bounds:
            x = bounds[p]
            if x.label:
                prev_label = cur_label if k >= 0 else None
                k += 1
                cur_label = x.label
                # entering compound statements
                for s, ins in comp:
                    if entry_label(fi.sk, s) == x.label and (prev_label is None or prev_label not in ins):
                        if not anno.hasanno(s, anno.Static.DEFINED_VARS_IN):
                            report('%s statement without DEFINED_VARS_IN' % type(s).__name__, '', x.label, None)
                            continue
                        a = set(str(q) for q in anno.getanno(s, anno.Static.DEFINED_VARS_IN))
                        for v in sorted(bound):
                            if v not in a:
                                report('bound at entry of %s but not in DEFINED_VARS_IN' % type(s).__name__, v, x.label,
                                       classify(v, writer[v], k), {'last_written_at_line': writer[v][2]})
            else:
                cur_label = cur_label   # gap lines belong to no node
            gap = not x.label
        if e[0] == 'W':
            writer[e[1]] = ((0 if gap else cur_label), e[2], e[3], max(k, 0))
            bound.add(e[1])
        elif e[0] == 'D':
            bound.discard(e[1])
            writer.pop(e[1], None)
        elif e[0] == 'R':
            v = e[1]
            w = writer.get(v)
            if w is None:
                continue        # read of an unbound variable raises: outside the property
            if e[2] is None:
                if gap:
                    continue
                node = fi.nodes.get(cur_label)
                have = set(l for (s, l) in an.rd_state(fi, fi.rd.in_[node]) if s == v)
                if w[1] is not None or w[0] not in have:
                    report('last writer of a read variable is not in in_ of the reading node', v, cur_label,
                           classify(v, w, k), {'written_at_line': w[2], 'read_at_line': e[3]})
                for fninfo, nd in loads.get((e[3], v), ()):
                    if fninfo is not fi:
                        continue
                    ds = an.defs_labels(fi, anno.getanno(nd, anno.Static.DEFINITIONS, default=()))
                    if w[1] is not None or w[0] not in ds:
                        report('last writer of a read variable is not in DEFINITIONS of the Name', v, cur_label,
                               classify(v, w, k), {'written_at_line': w[2], 'read_at_line': e[3]})
            else:
                # read of an enclosing function's variable inside a nested function
                for fninfo, nd in loads.get((e[3], v), ()):
                    ds = anno.getanno(nd, anno.Static.DEFINITIONS, default=())
                    sites = set(an.def_site.get(id(d)) for d in ds)
                    if not any(s is not None and s[0] is fi.fn and s[2] == w[0] for s in sites) or w[1] is not None:
                        report('read in a nested function: the definition in the enclosing function is not attached', v,
                               cur_label, 'reachdef-write-through-closure', {'written_at_line': w[2], 'read_at_line': e[3]})
    return out


# ---------------------------------------------------------------------------------------------
# generator extension: local functions that close over variables (read / nonlocal write), called later

from gen import progs as _progs


class ClosureGen(_progs.Gen):
    """tools/gen/progs.Gen plus: `def gK():` with `nonlocal v` / reads of enclosing variables, and calls of a
    previously defined local function at an arbitrary later point."""

    def __init__(self, rnd, opts):
        _progs.Gen.__init__(self, rnd, opts)
        self.fns = []        # (name, variables that must be bound when it is called)

    def reads(self, defined, maxn=2):
        return [v for v in _progs.Gen.reads(self, defined, maxn) if not v.startswith('g')]

    def stmt(self, ind, defined, depth, in_loop, ihf):
        r = self.r
        x = r.random()
        plain = set(v for v in defined if not v.startswith('g'))
        if x < 0.12 and depth < 3 and plain:
            self.budget -= 1
            name = 'g%d' % self.key()
            self.emit(ind, 'def %s():' % name)
            need = set()
            nl = [v for v in sorted(plain) if v in self.vars and r.random() < 0.5][:2] if r.random() < 0.7 else []
            if nl:
                self.emit(ind + 1, 'nonlocal %s' % ', '.join(nl))
            k = r.randint(1, 2)
            local_defined = set()
            for _ in range(k):
                rd = [v for v in sorted(plain) if r.random() < 0.4][:2]
                need |= set(rd)
                args = ''.join(', ' + v for v in rd)
                if nl and r.random() < 0.6:
                    v = r.choice(nl)
                    if r.random() < 0.4:
                        need.add(v)
                        self.emit(ind + 1, '%s += T(%d%s)' % (v, self.key(), args))
                    else:
                        self.emit(ind + 1, '%s = T(%d%s)' % (v, self.key(), args))
                else:
                    self.emit(ind + 1, 'T(%d%s)' % (self.key(), args))
            rd = [v for v in sorted(plain) if r.random() < 0.4][:2]
            need |= set(rd)
            self.emit(ind + 1, 'return T(%d%s)' % (self.key(), ''.join(', ' + v for v in rd)))
            self.fns.append((name, need))
            return defined | {name}, True
        callable_now = [(n, need) for n, need in self.fns if n in defined and need <= defined]
        if x < 0.30 and callable_now:
            self.budget -= 1
            n, _ = r.choice(callable_now)
            if r.random() < 0.5:
                self.emit(ind, '%s()' % n)
                return defined, True
            v = r.choice(self.vars)
            self.emit(ind, '%s = %s()' % (v, n))
            return defined | {v}, True
        return _progs.Gen.stmt(self, ind, defined, depth, in_loop, ihf)


class EscapeGen(_progs.Gen):
    """Local functions whose objects escape their name: aliased (`h = g`), stored in a container (`cb = [g]`),
    re-defined under the same name, called through sibling closures / two-hop chains, with the captured variable
    assigned inside an if / while before the (indirect) call."""

    def __init__(self, rnd, opts):
        _progs.Gen.__init__(self, rnd, opts)
        self.calls = []      # [call expression, name that must be bound, set of names that must be bound at the call]
        self.lambdas = False  # also create local functions as `g = lambda: ...`

    def plain(self, defined):
        return set(v for v in defined if v in self.vars or v in _progs.PARAMS)

    def reads(self, defined, maxn=2):
        return [v for v in _progs.Gen.reads(self, defined, maxn) if v in self.vars or v in _progs.PARAMS]

    def emit_def(self, ind, name, plain, callee=None, captures=True):
        r = self.r
        self.emit(ind, 'def %s():' % name)
        need = set()
        cand = [v for v in sorted(plain) if v in self.vars]
        nl = [v for v in cand if r.random() < 0.4][:1] if (captures and r.random() < 0.5) else []
        two = r.random() < 0.2          # the work is done by a function nested one level further down
        if two and nl and r.random() < 0.7:
            nl = []                     # (nonlocal two levels down is a known finding: keep it rare)
        if two:
            inner = '%si' % name
            self.emit(ind + 1, 'def %s():' % inner)
            ind += 1
        if nl:
            # the declaration (global / nonlocal) may sit inside compound statements, at several levels
            d = ind + 1
            for _ in range(r.choice([0, 0, 1, 1, 2])):
                kind = r.choice(['if', 'if', 'while', 'for'])
                if kind == 'if':
                    self.emit(d, 'if D(%d):' % self.key())
                elif kind == 'while':
                    self.emit(d, 'while D(%d):' % self.key())
                else:
                    self.emit(d, 'for i%d in L(%d):' % (self.key(), self.key()))
                d += 1
            if r.random() < 0.2:
                self.emit(d, 'global GV')
                self.emit(d, 'GV = T(%d)' % self.key())
            self.emit(d, 'nonlocal %s' % ', '.join(nl))
            if r.random() < 0.5:
                need.add(nl[0])
                self.emit(d, '%s += T(%d)' % (nl[0], self.key()))
            else:
                self.emit(d, '%s = T(%d)' % (nl[0], self.key()))
        rd = ([v for v in sorted(plain) if r.random() < 0.5][:2] or sorted(plain)[:1]) if captures else []
        need |= set(rd)
        args = ''.join(', ' + v for v in rd)
        shadow = [v for v in rd if v in self.vars]
        if shadow and r.random() < 0.4:
            # an inner lambda / def of this local function has a parameter named like a variable this function
            # reads from the enclosing function (the parameter is a different variable), at one or two levels
            v = r.choice(shadow)
            kind = r.random()
            if kind < 0.4:
                self.emit(ind + 1, 'k%d = lambda %s: T(%d, %s)' % (self.key(), v, self.key(), v))
            elif kind < 0.7:
                nm = 'k%d' % self.key()
                self.emit(ind + 1, 'def %s(%s):' % (nm, v))
                self.emit(ind + 2, 'return T(%d, %s)' % (self.key(), v))
                if r.random() < 0.5:
                    self.emit(ind + 1, '%s(T(%d))' % (nm, self.key()))
            else:
                nm = 'k%d' % self.key()
                self.emit(ind + 1, 'def %s(p):' % nm)
                self.emit(ind + 2, 'k%d = lambda %s, q=0: T(%d, %s, p)' % (self.key(), v, self.key(), v))
                self.emit(ind + 2, 'return T(%d, p)' % self.key())
        if nl and r.random() < 0.6:
            rd = sorted(set(rd) | set(nl))          # the value the function left in the variable is read through it
            need |= set(nl)
            args = ''.join(', ' + v for v in rd)
        if callee is not None:
            self.emit(ind + 1, 'T(%d%s)' % (self.key(), args))
            self.emit(ind + 1, 'return %s' % callee[0])
            need |= callee[2] | {callee[1]}
        else:
            self.emit(ind + 1, 'return T(%d%s)' % (self.key(), args))
        if two:
            self.emit(ind, 'return %s()' % inner)
        return need

    def bind_def(self, name, need):
        """`def name` executed: the name now calls the new function (on some path: keep the old requirements too);
        everything that calls through the name inherits the new requirements"""
        for c in self.calls:
            if c[1] == name and c[0] == name + '()':
                c[2] |= need
                break
        else:
            self.calls.append([name + '()', name, set(need)])
        for c in self.calls:
            if name in c[2]:
                c[2] |= need

    def escape(self, ind, entry):
        r = self.r
        if r.random() < 0.6:
            h = 'h%d' % self.key()
            self.emit(ind, '%s = %s' % (h, entry[1]))
            e = [h + '()', h, set(entry[2])]
        else:
            h = 'cb%d' % self.key()
            self.emit(ind, '%s = [%s]' % (h, entry[1]))
            e = [h + '[0]()', h, set(entry[2])]
        self.calls.append(e)
        return e

    def assign_captured(self, ind, defined, v):
        r = self.r
        kind = r.random()
        if kind < 0.6:
            self.emit(ind, 'if %s:' % self.dexpr(self.plain(defined)))
            self.emit(ind + 1, '%s = %s' % (v, self.texpr(self.plain(defined))))
            if r.random() < 0.3:
                self.emit(ind, 'else:')
                self.emit(ind + 1, '%s = %s' % (r.choice(self.vars), self.texpr(self.plain(defined))))
        elif kind < 0.85:
            self.emit(ind, 'while %s:' % self.dexpr(self.plain(defined)))
            self.emit(ind + 1, '%s = %s' % (v, self.texpr(self.plain(defined))))
            if r.random() < 0.4:
                self.emit(ind + 1, 'break')
        else:
            self.emit(ind, 'for %s in L(%d):' % (r.choice([u for u in self.vars if u != v]), self.key()))
            self.emit(ind + 1, '%s = %s' % (v, self.texpr(self.plain(defined))))

    def call(self, ind, defined, entry):
        if self.r.random() < 0.5:
            self.emit(ind, entry[0])
            return defined
        v = self.r.choice(self.vars)
        self.emit(ind, '%s = %s' % (v, entry[0]))
        return defined | {v}

    def stmt(self, ind, defined, depth, in_loop, ihf):
        r = self.r
        x = r.random()
        plain = self.plain(defined)
        fn_names = [c for c in self.calls if c[0] == c[1] + '()' and c[1].startswith('g') and c[1] in defined]
        callable_now = [c for c in self.calls if c[1] in defined and c[2] <= defined]
        if x < 0.22 and depth < 2 and [v for v in plain if v in self.vars]:
            # the whole scenario in one go: def, escape, [re-def], [sibling / hop], control statement, indirect call
            self.budget -= 4
            name = 'g%d' % self.key()
            if self.lambdas and r.random() < 0.6:
                rd = [v for v in sorted(plain) if v in self.vars and r.random() < 0.6][:2] or sorted(v for v in plain if v in self.vars)[:1]
                self.emit(ind, '%s = lambda: T(%d%s)' % (name, self.key(), ''.join(', ' + v for v in rd)))
                need = set(rd)
            else:
                need = self.emit_def(ind, name, plain)
            self.bind_def(name, need)
            defined = defined | {name}
            target = [name + '()', name, need] if (self.lambdas and r.random() < 0.4) else self.escape(ind, [name + '()', name, need])
            defined = defined | {target[1]}
            if r.random() < 0.6:
                need2 = self.emit_def(ind, name, plain, captures=r.random() < 0.3)
                self.bind_def(name, need2)
            for _ in range(r.choice([0, 0, 1, 2])):
                sib = 'g%d' % self.key()
                n2 = self.emit_def(ind, sib, plain, callee=target, captures=r.random() < 0.5)
                self.bind_def(sib, n2)
                defined = defined | {sib}
                target = [c for c in self.calls if c[1] == sib][0]
            cap = sorted(v for v in target[2] if v in self.vars)
            if cap:
                self.assign_captured(ind, defined, r.choice(cap))
            if target[2] <= defined:
                defined = self.call(ind, defined, target)
            return defined, True
        if x < 0.30 and depth < 3 and plain:
            self.budget -= 1
            if self.lambdas and r.random() < 0.5:
                # a lambda stored in a variable (later: aliased, put in a list, called through a sibling, ...)
                name = 'g%d' % self.key()
                rd = [v for v in sorted(plain) if r.random() < 0.5][:2] or sorted(plain)[:1]
                self.emit(ind, '%s = lambda: T(%d%s)' % (name, self.key(), ''.join(', ' + v for v in rd)))
                self.bind_def(name, set(rd))
                return defined | {name}, True
            name = 'g%d' % self.key()
            need = self.emit_def(ind, name, plain)
            self.bind_def(name, need)
            return defined | {name}, True
        if x < 0.36 and depth < 3 and callable_now:
            self.budget -= 1
            name = 'g%d' % self.key()
            need = self.emit_def(ind, name, plain, callee=r.choice(callable_now), captures=r.random() < 0.5)
            self.bind_def(name, need)
            return defined | {name}, True
        if x < 0.43 and fn_names:
            self.budget -= 1
            e = self.escape(ind, r.choice(fn_names))
            return defined | {e[1]}, True
        if x < 0.49 and fn_names and depth < 3:
            self.budget -= 1
            c = r.choice(fn_names)
            need = self.emit_def(ind, c[1], plain, captures=r.random() < 0.3)
            self.bind_def(c[1], need)
            return defined, True
        if x < 0.57 and callable_now:
            c = r.choice(callable_now)
            cap = sorted(v for v in c[2] if v in self.vars)
            if cap:
                self.budget -= 2
                self.assign_captured(ind, defined, r.choice(cap))
                return defined, True
        if x < 0.72 and callable_now:
            self.budget -= 1
            return self.call(ind, defined, r.choice(callable_now)), True
        return _progs.Gen.stmt(self, ind, defined, depth, in_loop, ihf)


def gen_escape_function(rnd, opts, lambdas=False):
    g = EscapeGen(rnd, opts)
    g.lambdas = lambdas
    g.emit(0, 'def f(%s):' % ', '.join(_progs.PARAMS))
    defined = set(_progs.PARAMS)
    for v in rnd.sample(g.vars, 2):
        g.emit(1, '%s = %s' % (v, g.texpr(defined)))
        defined.add(v)
    defined = g.block(1, defined, 0, False, False, minlen=4)
    callable_now = [c for c in g.calls if c[1] in defined and c[2] <= defined]
    if callable_now and rnd.random() < 0.8:
        g.emit(1, 'return %s' % rnd.choice(callable_now)[0])
    elif rnd.random() < 0.8:
        g.emit(1, 'return %s' % g.texpr(g.plain(defined)))
    return '\n'.join(g.lines) + '\n'


def gen_nested_try_function(rnd):
    """an explicit raise inside an inner try that the inner handlers do not match and an outer handler catches; a
    variable bound just before the raise, re-bound on the normal path, read in / after the outer handler"""
    k = [0]

    def key():
        k[0] += 1
        return k[0]
    L = ['def f(a, b, c):']
    v, u = rnd.sample(_progs.VARS, 2)
    L.append('    %s = T(%d)' % (u, key()))
    if rnd.random() < 0.5:
        L.append('    %s = T(%d)' % (v, key()))
    ind = 1
    loop = rnd.random() < 0.3
    if loop:
        L.append('    while D(%d):' % key())
        ind = 2
    p = '    ' * ind
    exc = rnd.sample(['E0', 'E1', 'E2'], 3)
    L.append(p + 'try:')
    if rnd.random() < 0.4:
        L.append(p + '    %s = T(%d, %s)' % (u, key(), u))
    L.append(p + '    try:')
    L.append(p + '        %s = T(%d, a)' % (v, key()))
    if rnd.random() < 0.7:
        L.append(p + '        if D(%d):' % key())
        L.append(p + '            raise %s()' % exc[0])
        if rnd.random() < 0.4:
            L.append(p + '        %s = T(%d, %s)' % (u, key(), v))
    else:
        L.append(p + '        raise %s()' % exc[0])
    L.append(p + '    except %s:' % exc[1])
    L.append(p + '        %s = T(%d)' % (rnd.choice([v, u]), key()))
    if rnd.random() < 0.3:
        L.append(p + '    except %s as e:' % exc[2])
        L.append(p + '        T(%d)' % key())
    L.append(p + '    %s = T(%d)' % (v, key()))
    if rnd.random() < 0.5:
        L.append(p + '    T(%d, %s)' % (key(), v))
    L.append(p + 'except %s:' % (exc[0] if rnd.random() < 0.7 else '(%s, %s)' % (exc[0], exc[2])))
    L.append(p + '    %s = T(%d, %s)' % (u, key(), v))
    if rnd.random() < 0.5:
        L.append(p + '    if D(%d):' % key())
        L.append(p + '        %s = T(%d, %s)' % (v, key(), v))
    if loop and rnd.random() < 0.5:
        L.append(p + '    break')
    L.append('    return T(%d, %s, %s)' % (key(), v, u))
    return '\n'.join(L) + '\n'


def gen_try_else_finally_function(rnd):
    """a break / continue / return lexically inside the ELSE clause of a try statement that also has a finally
    clause: the jump must run through the finally body, whose assignments are read after the jump (and are
    overwritten on the fall-through path); the finally body reads what the else clause bound before jumping"""
    k = [0]

    def key():
        k[0] += 1
        return k[0]
    v, u, w = rnd.sample(_progs.VARS, 3)
    L = ['def f(a, b, c):', '    %s = T(%d)' % (v, key()), '    %s = T(%d)' % (u, key())]
    loop = rnd.choice(['while', 'for', 'none'])
    ind = 1
    if loop == 'while':
        L.append('    while D(%d):' % key())
        ind = 2
    elif loop == 'for':
        L.append('    for %s in L(%d):' % (rnd.choice([x for x in _progs.VARS if x not in (v, u, w)]), key()))
        ind = 2
    p = '    ' * ind
    L.append(p + 'try:')
    L.append(p + '    T(%d, %s)' % (key(), v))
    L.append(p + 'except %s:' % rnd.choice(['E0', 'E1', '(E0, E2)', 'Exception']))     # else needs a handler
    L.append(p + '    %s = T(%d)' % (rnd.choice([v, u]), key()))
    L.append(p + 'else:')
    if rnd.random() < 0.5:
        L.append(p + '    %s = T(%d)' % (u, key()))
    jump = rnd.choice(['break', 'continue'] if loop != 'none' else ['return']) if rnd.random() < 0.8 else 'return'
    jtext = 'return T(%d, %s)' % (key(), u) if jump == 'return' else jump
    if rnd.random() < 0.75:
        L.append(p + '    if D(%d):' % key())
        if rnd.random() < 0.6:
            L.append(p + '        %s = T(%d)' % (u, key()))
        L.append(p + '        ' + jtext)
        if rnd.random() < 0.4:
            L.append(p + '    %s = T(%d, %s)' % (u, key(), u))
    else:
        L.append(p + '    ' + jtext)
    L.append(p + 'finally:')
    L.append(p + '    %s = T(%d)' % (v, key()))
    if rnd.random() < 0.6:
        L.append(p + '    %s = T(%d, %s)' % (w, key(), u))
    else:
        L.append(p + '    %s = T(%d)' % (w, key()))
    L.append(p + '%s = T(%d)' % (v, key()))          # the fall-through path overwrites the finally assignment
    if rnd.random() < 0.5:
        L.append(p + '%s = T(%d)' % (w, key()))
    tail = rnd.random()
    if tail < 0.4:
        L.append('    if D(%d):' % key())
        L.append('        %s = T(%d, %s)' % (w, key(), v))
    elif tail < 0.6:
        L.append('    while D(%d):' % key())
        L.append('        %s = T(%d, %s)' % (v, key(), v))
    L.append('    return T(%d, %s, %s)' % (key(), v, u))
    return '\n'.join(L) + '\n'


def gen_global_in_loop_function(rnd):
    """`global GV` declared inside a loop body (or a branch in it), read after the declaration, assigned later in
    the loop body a few `if` levels down, followed by a join and more statements: on later iterations the read
    gets the in-loop assignment"""
    k = [0]

    def key():
        k[0] += 1
        return k[0]
    L = ['def f(a, b, c):']
    v = rnd.choice(_progs.VARS)
    if rnd.random() < 0.5:
        L.append('    %s = T(%d)' % (v, key()))
    L.append('    while D(%d):' % key() if rnd.random() < 0.7 else '    for i%d in L(%d):' % (key(), key()))
    ind = 2
    if rnd.random() < 0.25:
        L.append('        if D(%d):' % key())
        ind = 3
    p = '    ' * ind
    L.append(p + 'global GV')
    for _ in range(rnd.randint(0, 1)):
        L.append(p + 'T(%d)' % key())
    L.append(p + '%s = T(%d, GV)' % (v, key()))
    depth = rnd.choice([1, 2, 2, 3])
    q = p
    for _ in range(depth):
        L.append(q + 'if D(%d):' % key())
        q += '    '
    L.append(q + 'GV = T(%d)' % key())
    if rnd.random() < 0.4:
        L.append(q + 'T(%d, GV)' % key())
    for _ in range(rnd.randint(0, 2)):
        L.append(p + '%s = T(%d)' % (rnd.choice(_progs.VARS), key()))
    if rnd.random() < 0.5:
        L.append('    if D(%d):' % key())
        L.append('        GV = T(%d, GV)' % key())
    L.append('    return T(%d, GV)' % key())
    return '\n'.join(L) + '\n'


def gen_two_raises_function(rnd):
    """two or more explicit raises guarded by the same handler, reached with different variable states (a variable
    assigned between them / raises in both branches of an if); the handler and what follows read those variables"""
    k = [0]

    def key():
        k[0] += 1
        return k[0]
    v, u, w = rnd.sample(_progs.VARS, 3)
    exc = rnd.choice(['E0', 'E1', 'E2'])
    L = ['def f(a, b, c):', '    %s = T(%d)' % (v, key()), '    %s = T(%d)' % (u, key()), '    try:']
    if rnd.random() < 0.5:
        L += ['        if D(%d):' % key(), '            raise %s()' % exc,
              '        %s = T(%d)' % (v, key())]
        if rnd.random() < 0.5:
            L.append('        %s = T(%d)' % (w, key()))
        L += ['        if D(%d):' % key(), '            raise %s()' % exc]
        if rnd.random() < 0.5:
            L.append('        %s = T(%d, %s)' % (v, key(), v))
    else:
        L += ['        if D(%d):' % key(), '            %s = T(%d)' % (v, key()), '            raise %s()' % exc,
              '        else:', '            %s = T(%d)' % (rnd.choice([v, w]), key())]
        L += ['            raise %s()' % exc] if rnd.random() < 0.6 else ['            %s = T(%d)' % (u, key()),
                                                                       '        raise %s()' % exc]
    L.append('    except %s:' % exc)
    L.append('        %s = T(%d, %s)' % (u, key(), v))
    if rnd.random() < 0.6:
        L += ['        if D(%d):' % key(), '            %s = T(%d)' % (w, key())]
    if rnd.random() < 0.5:
        L += ['    while D(%d):' % key(), '        %s = T(%d, %s)' % (u, key(), v)]
    L.append('    return T(%d, %s, %s)' % (key(), v, u))
    return '\n'.join(L) + '\n'


def gen_late_def_function(rnd):
    """a local function whose def statement the breadth-first walk of the graph reaches late: a few statements deep
    in an else-less branch, at the end of a loop body, in a try body; the closure is called after the join / after the
    loop / in the next iteration, and a variable it reads is assigned in between and consumed only by that call"""
    k = [0]

    def key():
        k[0] += 1
        return k[0]
    v, u, w = rnd.sample(_progs.VARS, 3)
    g = 'g%d' % rnd.randint(50, 59)
    L = ['def f(a, b, c):', '    %s = T(%d)' % (v, key()), '    %s = T(%d)' % (u, key())]

    def body_def(p, extra_read=False):
        out = [p + 'def %s():' % g]
        if rnd.random() < 0.3:
            out += [p + '    nonlocal %s' % v, p + '    %s += T(%d)' % (v, key())]
        out.append(p + '    return T(%d, %s%s)' % (key(), v, ', ' + u if extra_read else ''))
        return out
    shape = rnd.choice(['branch', 'branch', 'loop', 'loop', 'try'])
    if shape == 'branch':
        L.append('    if D(%d):' % key())
        for _ in range(rnd.randint(1, 3)):
            L.append('        %s = T(%d)' % (rnd.choice([u, w]), key()))
        L += body_def('        ', rnd.random() < 0.4)
        if rnd.random() < 0.3:
            L.append('        T(%d)' % key())
    elif shape == 'try':
        L.append('    try:')
        for _ in range(rnd.randint(1, 2)):
            L.append('        %s = T(%d)' % (rnd.choice([u, w]), key()))
        L.append('        if D(%d):' % key())
        L.append('            T(%d)' % key())
        L += body_def('            ')
        L.append('    except E0:')
        L.append('        %s = T(%d)' % (w, key()))
    else:
        L.append('    while D(%d):' % key() if rnd.random() < 0.6 else '    for i%d in L(%d):' % (key(), key()))
        if rnd.random() < 0.5:
            # called by the next iteration before it is re-defined
            L.append('        if D(%d):' % key())
            L.append('            %s = %s()' % (w, g))
            L.append('        %s = T(%d, %s)' % (v, key(), v))
        for _ in range(rnd.randint(0, 2)):
            L.append('        %s = T(%d)' % (rnd.choice([u, w]), key()))
        L += body_def('        ', rnd.random() < 0.4)
    L.append('    %s = T(%d)' % (w, key()))
    form = rnd.random()
    if form < 0.4:
        L.append('    %s = T(%d)' % (v, key()))
    elif form < 0.75:
        L += ['    if D(%d):' % key(), '        %s = T(%d)' % (v, key())]
    else:
        L += ['    while D(%d):' % key(), '        %s = T(%d, %s)' % (v, key(), v)]
    for _ in range(rnd.randint(0, 2)):
        L.append('    %s = T(%d)' % (w, key()))
    if rnd.random() < 0.4:
        L += ['    if D(%d):' % key(), '        %s = %s()' % (w, g)]
        L.append('    return T(%d, %s)' % (key(), w))
    else:
        L.append('    return %s()' % g)
    return '\n'.join(L) + '\n'


def gen_composite_del_function(rnd):
    """`del d[k]` / `del d['a']` / `del o.attr` on a local owner; every path to the later reads of the owner and to
    the compound statements that follow goes through the del"""
    k = [0]

    def key():
        k[0] += 1
        return k[0]
    d, o, x = rnd.sample(_progs.VARS, 3)
    L = ['def f(a, b, c):']
    L.append("    %s = {a: T(%d), 'k': T(%d), 7: T(%d)}" % (d, key(), key(), key()))
    use_obj = rnd.random() < 0.4
    if use_obj:
        L.append('    %s = CM(%d)' % (o, key()))
    if rnd.random() < 0.4:
        L += ['    if D(%d):' % key(), "        %s = {a: T(%d), 'k': T(%d), 7: T(%d)}" % (d, key(), key(), key())]
    ind = '    '
    if rnd.random() < 0.3:
        L.append('    for i%d in L(%d):' % (key(), key()))
        L.append("        %s = {a: T(%d), 'k': T(%d), 7: T(%d)}" % (d, key(), key(), key()))
        ind = '        '
    form = rnd.random()
    if use_obj and form < 0.5:
        L.append(ind + 'del %s.k' % o)
        owner = o
    elif form < 0.7:
        L.append(ind + 'del %s[a]' % d)
        owner = d
    elif form < 0.9:
        L.append(ind + "del %s['k']" % d)
        owner = d
    else:
        L.append(ind + 'del %s[7], %s[a]' % (d, d))
        owner = d
    if rnd.random() < 0.6:
        L.append(ind + '%s = T(%d, %s)' % (x, key(), owner))
    tail = rnd.random()
    if tail < 0.35:
        L += ['    if D(%d):' % key(), '        %s = T(%d)' % (owner, key())]
    elif tail < 0.6:
        L += ['    while D(%d):' % key(), '        %s = T(%d, %s)' % (x, key(), owner)]
    elif tail < 0.8:
        L += ['    try:', '        %s = T(%d, %s)' % (x, key(), owner), '    except E0:', '        %s = T(%d)' % (owner, key())]
    L.append('    return T(%d, %s)' % (key(), owner))
    return '\n'.join(L) + '\n'


def gen_composite_target_function(rnd):
    """IN-PLACE mutation of the object a local variable holds, through a composite target of every shape: subscripts
    with a slice (`x[0:1]`, `x[a:b]`, `x[:]`, `x[::2]`), a tuple (`x[a, 1]`, `x[a, b, c]`), a constant / name / unary /
    binary / call index, a nested subscript (`x[0][a:b]`) or an attribute in between (`x.k[0:1]`, `x[1].k`); as the
    target of `=`, of a chained / unpacking / starred assignment, of an augmented assignment, of `del` (one or several
    targets), of a `for` header and of `with ... as`.  None of them binds or unbinds the variable: the statement that
    bound the owner before is still the producer of the value read afterwards, and the owner is still bound at the
    entry of the compound statements that follow.  The mutation sits at top level, in a branch or in a loop (optionally
    with a re-binding of the owner next to it); the owner may have two reaching definitions; afterwards it is read in
    ordinary statements, in tests, and conditionally re-bound in an if / while / for / try."""
    k = [0]

    def key():
        k[0] += 1
        return k[0]

    def t():
        return 'T(%d)' % key()

    o, x, y = rnd.sample(_progs.VARS, 3)
    kind = rnd.choice(['list', 'list', 'dict', 'dict', 'nest', 'attr'])

    def ctor():
        if kind == 'list':
            return ['%s = [%s]' % (o, ', '.join(t() for _ in range(8)))]
        if kind == 'dict':
            return ["%s = {(a, 1): %s, (a, b): %s, 'k': %s, 7: %s, a: %s}" % (o, t(), t(), t(), t(), t())]
        if kind == 'nest':
            return ["%s = [[%s], {(a, 1): %s, (a, b): %s, 'k': %s, 7: %s, a: %s}, CM(%d)]"
                    % (o, ', '.join(t() for _ in range(8)), t(), t(), t(), t(), t(), key())]
        return ['%s = CM(%d)' % (o, key()), '%s.k = [%s]' % (o, ', '.join(t() for _ in range(8))),
                "%s.m = {(a, 1): %s, (a, b): %s, 'k': %s, 7: %s, a: %s}" % (o, t(), t(), t(), t(), t())]
    lst = {'list': o, 'nest': '%s[0]' % o, 'attr': '%s.k' % o}.get(kind)        # an lvalue holding a list
    dct = {'dict': o, 'nest': '%s[1]' % o, 'attr': '%s.m' % o}.get(kind)        # an lvalue holding a dict
    obj = {'nest': '%s[2]' % o, 'attr': o}.get(kind)                            # an lvalue holding an object
    SLICES = ['0:1', 'a:b', ':a', 'b:', '-1:', '0:b:1', 'a:a', ':', 'a - 1:b']
    INDICES = ['0', 'a', '-1', 'a - 1', '-a']
    KEYS = ['a, 1', 'a, b', '(a, 1)', "'k'", '7', 'a', 'a, b, c', 'a + 6', '...', '(a, b), c']

    def mutation(in_loop):
        """-> lines of one mutating statement (possibly with a statement that makes it safe in front)"""
        forms = []
        if lst:
            forms += ['ls', 'ls', 'li', 'la', 'lai', 'ld', 'ld', 'ldi', 'lu', 'lstar', 'lchain', 'lfor', 'ldd']
        if dct:
            forms += ['ds', 'ds', 'da', 'dd', 'dd', 'du', 'dchain', 'dfor', 'dwith', 'ddd']
        if obj:
            forms += ['as', 'ad']
        f = rnd.choice(forms)
        if f == 'ls':
            sl = rnd.choice(SLICES)
            n = 6 if sl == ':' else 2 if sl in ('0:b:1', 'b:') else rnd.randint(1, 2)
            return ['%s[%s] = [%s]' % (lst, sl, ', '.join(t() for _ in range(n)))]
        if f == 'li':
            return ['%s[%s] = %s' % (lst, rnd.choice(INDICES), t())]
        if f == 'la':
            return ['%s[%s] %s' % (lst, rnd.choice(SLICES[:6]), rnd.choice(['+= [%s]' % t(), '*= 1']))]
        if f == 'lai':
            return ['%s[%s] %s= %s' % (lst, rnd.choice(INDICES), rnd.choice('+-'), t())]
        if f == 'ld':
            return ['del %s[%s]' % (lst, rnd.choice(['0:1', 'a:b', ':a', '-1:', '::4', 'a:a', 'a - 1:a']))]
        if f == 'ldi':
            return ['del %s[%s]' % (lst, rnd.choice(INDICES))]
        if f == 'ldd':
            return ['del %s[0:1], %s[%s]' % (lst, lst, rnd.choice(['a', '-1:', 'a:b']))]
        if f == 'lu':
            return [rnd.choice(['%s[0:1], %s = [%s], %s' % (lst, y, t(), t()), '%s, %s[a:b] = %s, [%s]' % (y, lst, t(), t()),
                                '[%s[0], %s[b:]] = %s, [%s, %s]' % (lst, lst, t(), t(), t())])]
        if f == 'lstar':
            return ['*%s[0:b], %s = %s, %s, %s' % (lst, y, t(), t(), t())]
        if f == 'lchain':
            return ['%s = %s[%s] = [%s]' % (y, lst, rnd.choice(SLICES[:5]), t())]
        if f == 'lfor':
            return ['for %s[%s] in L(%d):' % (lst, rnd.choice(INDICES[:3]), key()), '    %s = T(%d, %s)' % (y, key(), o)]
        if f == 'ds':
            return ['%s[%s] = %s' % (dct, rnd.choice(KEYS), t())]
        if f == 'du':
            return ['%s[%s], %s = %s, %s' % (dct, rnd.choice(KEYS), y, t(), t())]
        if f == 'dchain':
            return ['%s = %s[%s] = %s' % (y, dct, rnd.choice(KEYS), t())]
        if f == 'dfor':
            return ['for %s[%s] in L(%d):' % (dct, rnd.choice(KEYS), key()), '    %s = T(%d, %s)' % (y, key(), o)]
        if f == 'dwith':
            return ['with CM(%d) as %s[%s]:' % (key(), dct, rnd.choice(KEYS)), '    %s = T(%d, %s)' % (y, key(), o)]
        if f in ('da', 'dd', 'ddd'):
            # the key must exist: store it first (always inside a loop, where the del would be repeated)
            ky = rnd.choice(KEYS)
            pre = ['%s[%s] = %s' % (dct, ky, t())]
            if f == 'da':
                return pre + ['%s[%s] %s= %s' % (dct, ky, rnd.choice('+-'), t())]
            if f == 'ddd':
                val = lambda q: eval('(%s,)' % q, {'a': 1, 'b': 2, 'c': 3})     # noqa: E731  (the arguments of every run)
                k2 = rnd.choice([q for q in ("'k'", '7', 'a, b') if val(q) != val(ky)])
                return pre + ['%s[%s] = %s' % (dct, k2, t()), 'del %s[%s], %s[%s]' % (dct, ky, dct, k2)]
            return pre + ['del %s[%s]' % (dct, ky)]
        if f == 'as':
            return ['%s.v = %s' % (obj, t())]
        return ['%s.v = %s' % (obj, t()), 'del %s.v' % obj]

    L = ['def f(a, b, c):']
    L += ['    ' + q for q in ctor()]
    if rnd.random() < 0.35:
        L.append('    if D(%d):' % key())
        L += ['        ' + q for q in ctor()]
    place = rnd.random()
    ind = '    '
    rebind = None
    if place < 0.25:
        L.append('    for i%d in L(%d):' % (key(), key()))
        ind = '        '
    elif place < 0.4:
        L.append('    while D(%d):' % key())
        ind = '        '
    elif place < 0.55:
        L.append('    if D(%d%s):' % (key(), rnd.choice(['', ', ' + o])))
        ind = '        '
    if ind != '    ' and rnd.random() < 0.3:
        rebind = rnd.choice(['before', 'after'])
    if rebind == 'before':
        L += [ind + q for q in ctor()]
    for _ in range(rnd.choice([1, 1, 2, 3])):
        L += [ind + q for q in mutation(ind != '    ')]
        if rnd.random() < 0.3:
            L.append(ind + '%s = T(%d, %s)' % (x, key(), o))
    if rebind == 'after':
        L += [ind + q for q in ctor()]
    if rnd.random() < 0.5:
        L.append('    %s = T(%d, %s)' % (x, key(), o))
    tail = rnd.random()
    if tail < 0.3:
        L += ['    if D(%d):' % key(), '        %s = T(%d, %s)' % (o, key(), o)]
        if rnd.random() < 0.4:
            L += ['    else:', '        %s = T(%d, %s)' % (x, key(), o)]
    elif tail < 0.5:
        L += ['    while D(%d, %s):' % (key(), o), '        %s = T(%d, %s)' % (rnd.choice([o, x]), key(), o)]
    elif tail < 0.65:
        L += ['    for i%d in L(%d):' % (key(), key()), '        %s = T(%d, %s)' % (rnd.choice([o, x]), key(), o)]
    elif tail < 0.85:
        L += ['    try:', '        %s = T(%d, %s)' % (x, key(), o), '        if D(%d):' % key(), '            raise E0',
              '    except E0:', '        %s = T(%d, %s)' % (o, key(), o)]
        if rnd.random() < 0.4:
            L += ['    finally:', '        %s = T(%d, %s)' % (x, key(), o)]
    L.append('    return T(%d, %s)' % (key(), o))
    return '\n'.join(L) + '\n'


def gen_jump_through_finally_function(rnd):
    """continue / break inside try ... finally inside the loop being continued / left (also two finally clauses deep):
    the finally clause assigns a variable that the fall-through path overwrites and that is read at the loop head
    or after the loop on the jump path"""
    k = [0]

    def key():
        k[0] += 1
        return k[0]
    v, u, w = rnd.sample(_progs.VARS, 3)
    L = ['def f(a, b, c):', '    %s = T(%d)' % (v, key()), '    %s = T(%d)' % (u, key())]
    head_reads = rnd.random() < 0.5
    if rnd.random() < 0.6:
        L.append('    while D(%d%s):' % (key(), ', ' + v if head_reads else ''))
    else:
        L.append('    for i%d in L(%d):' % (key(), key()))
    if rnd.random() < 0.4:
        L.append('        %s = T(%d, %s)' % (u, key(), v))
    nested = rnd.random() < 0.35
    p = '        '
    L.append(p + 'try:')
    if nested:
        L.append(p + '    try:')
        p2 = p + '        '
    else:
        p2 = p + '    '
    jump = rnd.choice(['continue', 'continue', 'break'])
    if rnd.random() < 0.75:
        L.append(p2 + 'if D(%d):' % key())
        if rnd.random() < 0.4:
            L.append(p2 + '    %s = T(%d)' % (u, key()))
        L.append(p2 + '    ' + jump)
        L.append(p2 + '%s = T(%d)' % (w, key()))
    else:
        L.append(p2 + '%s = T(%d)' % (w, key()))
        L.append(p2 + jump)
    if nested:
        L.append(p + '    finally:')
        L.append(p + '        %s = T(%d)' % (u, key()))
    L.append(p + 'finally:')
    L.append(p + '    %s = T(%d%s)' % (v, key(), ', ' + u if rnd.random() < 0.5 else ''))
    if rnd.random() < 0.8:
        L.append(p + '%s = T(%d)' % (v, key()))          # fall-through overwrites the finally assignment
    if rnd.random() < 0.4:
        L += ['    if D(%d):' % key(), '        %s = T(%d, %s)' % (u, key(), v)]
    L.append('    return T(%d, %s, %s)' % (key(), v, u))
    return '\n'.join(L) + '\n'


def gen_paramless_function(rnd):
    """a function without parameters in which nothing is bound before a loop, and the first binding is the last
    CFG node of the loop body (the in-state of that node is empty when it is first visited)"""
    k = [0]

    def key():
        k[0] += 1
        return k[0]
    L = ['def f():']
    for _ in range(rnd.randint(0, 2)):
        L.append('    T(%d)' % key())
    v, u = rnd.sample(_progs.VARS, 2)
    L.append('    while D(%d):' % key())
    for _ in range(rnd.randint(0, 2)):
        L.append('        T(%d)' % key())
    kind = rnd.random()
    if kind < 0.4:
        L.append('        %s = T(%d)' % (v, key()))
    elif kind < 0.7:
        L.append('        if D(%d):' % key())
        L.append('            T(%d)' % key())
        L.append('        %s = T(%d)' % (v, key()))
    else:
        L.append('        while D(%d):' % key())
        L.append('            T(%d)' % key())
        L.append('            %s, %s = T(%d), T(%d)' % (v, u, key(), key()))
    tail = rnd.random()
    if tail < 0.35:
        L.append('    if D(%d):' % key())
        L.append('        %s = T(%d, %s)' % (u, key(), v))
    elif tail < 0.6:
        L.append('    while D(%d):' % key())
        L.append('        %s = T(%d, %s)' % (v, key(), v))
    elif tail < 0.8:
        L.append('    T(%d, %s)' % (key(), v))
    L.append('    return T(%d, %s)' % (key(), v))
    return '\n'.join(L) + '\n'


def gen_deep_raise_function(rnd):
    """an explicit raise that sits DEEPER in a try body (more statements / nesting levels before it) than the
    fall-through path of the body is long, so that a breadth-first walk of the graph reaches the handlers, the finally
    clause and the statements after the try before it reaches the raise; a variable is assigned on the raising path
    and overwritten (or never bound) on the fall-through path -- the raise node is the only carrier of that
    definition into the handler / finally / following statements, which read it and enter compound statements; the
    try may sit in a loop whose later statements re-define the variables (definitions that reach the raise only on a
    later wave of the fixed-point iteration)"""
    k = [0]

    def key():
        k[0] += 1
        return k[0]
    v, u, w, t = rnd.sample(_progs.VARS, 4)
    exc = rnd.sample(['E0', 'E1', 'E2'], 3)
    L = ['def f(a, b, c):', '    %s = T(%d)' % (v, key()), '    %s = T(%d)' % (u, key())]
    loop = rnd.choice(['none', 'none', 'while', 'for'])
    ind = 1
    if loop == 'while':
        L.append('    while D(%d):' % key())
        ind = 2
    elif loop == 'for':
        L.append('    for i%d in L(%d):' % (key(), key()))
        ind = 2
    p = '    ' * ind
    L.append(p + 'try:')
    q = p + '    '
    if rnd.random() < 0.25:
        L.append(q + 'T(%d, %s)' % (key(), u))
    # the raising path: one to three nesting levels, two to five statements before the raise
    depth = rnd.choice([1, 1, 2, 2, 3])
    r = q
    for lvl in range(depth):
        L.append(r + ('if D(%d):' % key() if lvl == 0 or rnd.random() < 0.7 else 'while D(%d):' % key()))
        r += '    '
        if lvl < depth - 1 and rnd.random() < 0.4:
            L.append(r + '%s = T(%d)' % (rnd.choice([u, t]), key()))
    L.append(r + '%s = T(%d%s)' % (v, key(), rnd.choice(['', ', ' + v, ', a'])))
    only_raising = rnd.random() < 0.6          # w is bound on the raising path only
    filler = rnd.randint(1, 4)
    for j in range(filler):
        form = rnd.random()
        if j == 0 and only_raising:
            L.append(r + '%s = T(%d)' % (w, key()))
        elif form < 0.4:
            L.append(r + '%s = T(%d, %s)' % (t, key(), v))
        elif form < 0.7:
            L.append(r + 'T(%d, %s)' % (key(), u))
        elif form < 0.85:
            L += [r + 'if D(%d):' % key(), r + '    %s = T(%d)' % (t, key())]
        else:
            L.append(r + '%s = T(%d, %s)' % (v, key(), v))
    L.append(r + 'raise %s()' % exc[0])
    # the fall-through path: short, and it overwrites what the raising path assigned
    if rnd.random() < 0.85:
        L.append(q + '%s = T(%d)' % (v, key()))
    if rnd.random() < 0.3:
        L.append(q + '%s = T(%d, %s)' % (u, key(), v))
    second = rnd.random() < 0.25                # a second, shallow raise guarded by the same handlers
    if second:
        L += [q + 'if D(%d):' % key(), q + '    raise %s()' % exc[0]]
    # handlers
    htype = exc[0] if rnd.random() < 0.7 else rnd.choice(['(%s, %s)' % (exc[0], exc[1]), 'Exception'])
    if rnd.random() < 0.2:
        L += [p + 'except %s:' % exc[2], q + '%s = T(%d)' % (u, key())]
    L.append(p + 'except %s:' % htype)
    hform = rnd.random()
    ret_in_handler = False
    if hform < 0.3:
        L.append(q + '%s = T(%d, %s)' % (u, key(), v))
    elif hform < 0.55:
        L += [q + 'if D(%d):' % key(), q + '    %s = T(%d, %s)' % (rnd.choice([u, w]), key(), v)]
    elif hform < 0.7:
        L += [q + 'while D(%d, %s):' % (key(), v), q + '    %s = T(%d)' % (rnd.choice([v, w]), key())]
    elif hform < 0.85:
        L += [q + 'T(%d, %s)' % (key(), v), q + 'if D(%d):' % key(), q + '    %s = T(%d)' % (w, key())]
    else:
        L.append(q + 'return T(%d, %s)' % (key(), v))
        ret_in_handler = True
    jump_in_handler = ret_in_handler
    if loop != 'none' and not ret_in_handler and rnd.random() < 0.3:
        L.append(q + rnd.choice(['break', 'continue']))
        jump_in_handler = True
    if rnd.random() < 0.2:
        L += [p + 'else:', q + '%s = T(%d, %s)' % (t, key(), v)]
    # (a jump in a handler of a try with finally is C05's guard: no finally then)
    if not jump_in_handler and rnd.random() < 0.35:
        L += [p + 'finally:', q + '%s = T(%d, %s)' % (u, key(), v)]
        if rnd.random() < 0.5:
            L += [q + 'if D(%d):' % key(), q + '    %s = T(%d)' % (w, key())]
    # after the try
    aform = rnd.random()
    if aform < 0.35:
        L.append(p + '%s = T(%d, %s)' % (u, key(), v))
    elif aform < 0.6:
        L += [p + 'if D(%d):' % key(), p + '    %s = T(%d, %s)' % (w, key(), v)]
    elif aform < 0.75:
        L += [p + 'while D(%d):' % key(), p + '    %s = T(%d, %s)' % (u, key(), v)]
    if loop != 'none':
        if rnd.random() < 0.6:
            L.append(p + '%s = T(%d%s)' % (v, key(), rnd.choice(['', ', ' + v])))      # loop-carried definition
        if rnd.random() < 0.3:
            L.append(p + '%s = T(%d)' % (u, key()))
    L.append('    return T(%d, %s, %s)' % (key(), v, u))
    return '\n'.join(L) + '\n'


def gen_sibling_writer_function(rnd):
    """Liveness INSIDE a nested function: a local function (the writer, possibly one level further down) assigns a
    variable of the enclosing function it declares nonlocal and then, in the same activation, the value is consumed only by ANOTHER local function of the enclosing function: called by name,
    through an alias / a container bound in the enclosing function, or through a chain of one or two sibling closures;
    in between: nothing, an if, or a loop that may run zero times; afterwards the variable is overwritten or not."""
    k = [0]

    def key():
        k[0] += 1
        return k[0]
    v, u, w = rnd.sample(_progs.VARS, 3)
    L = ['def f(a, b, c):', '    %s = T(%d, a)' % (v, key()), '    %s = T(%d)' % (u, key())]
    reader = 'g%d' % key()
    # the reader: reads v (and maybe u); maybe through a function of its own
    L.append('    def %s():' % reader)
    extra = ', ' + u if rnd.random() < 0.3 else ''
    if rnd.random() < 0.25:
        L.append('        def %si():' % reader)
        L.append('            return T(%d, %s%s)' % (key(), v, extra))
        L.append('        return %si()' % reader)
    else:
        L.append('        return T(%d, %s%s)' % (key(), v, extra))
    # how the writer gets at the reader
    call = reader + '()'
    route = rnd.choice(['name', 'alias', 'alias', 'list', 'hop', 'hop', 'hop2', 'hop-alias'])
    if route in ('hop', 'hop2', 'hop-alias'):
        for _ in range(2 if route == 'hop2' else 1):
            h = 'g%d' % key()
            L.append('    def %s():' % h)
            if rnd.random() < 0.4:
                L.append('        T(%d, a)' % key())
            L.append('        return %s' % (call if rnd.random() < 0.5 else 'T(%d, %s)' % (key(), call)))
            call = h + '()'
    if route in ('alias', 'hop-alias'):
        h = 'h%d' % key()
        L.append('    %s = %s' % (h, call[:-2]))
        call = h + '()'
    elif route == 'list':
        h = 'cb%d' % key()
        L.append('    %s = [%s]' % (h, call[:-2]))
        call = h + '[0]()'
    if rnd.random() < 0.3:
        L.append('    %s = T(%d, %s)' % (w, key(), u))
    # the writer
    writer = 'g%d' % key()
    deep = rnd.random() < 0.3
    L.append('    def %s():' % writer)
    p = '        '
    if deep:
        L.append(p + 'def %si():' % writer)
        p += '    '
    L.append(p + 'nonlocal %s' % v)
    if rnd.random() < 0.3:
        L.append(p + 'T(%d, %s)' % (key(), v))
    L.append(p + '%s = T(%d, a)' % (v, key()))
    mid = rnd.random()
    if mid < 0.25:
        L.append(p + 'while D(%d):' % key())
        L.append(p + '    %s = T(%d)' % (v, key()))
    elif mid < 0.4:
        L.append(p + 'for i%d in L(%d):' % (key(), key()))
        L.append(p + '    %s = T(%d, b)' % (v, key()))
    elif mid < 0.6:
        L.append(p + 'if D(%d):' % key())
        L.append(p + '    T(%d, b)' % key())
        if rnd.random() < 0.5:
            L.append(p + 'else:')
            L.append(p + '    %s = T(%d)' % (v, key()))
    elif mid < 0.7:
        L.append(p + 'r%d = T(%d, c)' % (key(), key()))
    r = 'r%d' % key()
    form = rnd.random()
    if form < 0.6:
        L.append(p + '%s = %s' % (r, call))
    elif form < 0.8:
        L.append(p + 'if D(%d):' % key())
        L.append(p + '    %s = %s' % (r, call))
        L.append(p + 'else:')
        L.append(p + '    %s = T(%d)' % (r, key()))
    else:
        L.append(p + '%s = T(%d)' % (r, key()))
        L.append(p + 'while D(%d):' % key())
        L.append(p + '    %s = %s' % (r, call))
        if rnd.random() < 0.5:
            L.append(p + '    %s = T(%d, %s)' % (v, key(), r))
    if rnd.random() < 0.7:
        L.append(p + '%s = T(%d)' % (v, key()))
    L.append(p + 'return T(%d, %s)' % (key(), r))
    if deep:
        L.append('        return %si()' % writer)
    # the enclosing function calls the writer (maybe inside / after a control statement)
    tail = rnd.random()
    if tail < 0.3:
        L.append('    if D(%d):' % key())
        L.append('        %s = T(%d)' % (v, key()))
    elif tail < 0.45:
        L.append('    while D(%d):' % key())
        L.append('        %s = %s()' % (w, writer))
    if rnd.random() < 0.5:
        L.append('    %s = %s()' % (w, writer))
        L.append('    return T(%d, %s, %s)' % (key(), w, v))
    else:
        L.append('    return %s()' % writer)
    return '\n'.join(L) + '\n'


def gen_closure_function(rnd, opts):
    g = ClosureGen(rnd, opts)
    g.emit(0, 'def f(%s):' % ', '.join(_progs.PARAMS))
    defined = g.block(1, set(_progs.PARAMS), 0, False, False, minlen=3)
    callable_now = [n for n, need in g.fns if n in defined and need <= defined]
    if callable_now and rnd.random() < 0.7:
        g.emit(1, 'return %s()' % rnd.choice(callable_now))
    elif rnd.random() < 0.8:
        g.emit(1, 'return %s' % g.texpr(defined))
    return '\n'.join(g.lines) + '\n'


class CompGen(ClosureGen):
    """ClosureGen plus expressions whose variable reads sit in EVERY position of a comprehension / generator expression
    -- element, dict key / value, the iterable of the first and of later `for` clauses, the filters of every clause, a
    nested comprehension -- for list / set / dict comprehensions and generator expressions consumed on the spot, and in
    a few other compound expression forms (conditional, boolean, ==-chain, subscript / slice, f-string, starred
    argument).  They appear as right-hand sides, return values, expression statements, arguments of if / while tests,
    iterables of for statements and in the bodies of local functions that are called at a later point.  In `focus`
    mode the variables of the function are read ONLY in the filters (or only in one other position), so that the
    filter is the read that keeps a value alive.  Comprehension targets are fresh names (q<k>)."""

    def pool(self, defined):
        return sorted(v for v in defined if (v in self.vars or v in _progs.PARAMS) and v not in self.lams)

    def pick(self, pool, used, lo=0, hi=2):
        n = self.r.randint(lo, max(lo, min(hi, len(pool))))
        vs = [self.r.choice(pool) for _ in range(n)] if pool else []
        used |= set(vs)
        return vs

    def comp(self, pool, used, depth=0, as_iterable=False):
        r = self.r
        # which positions may read the function's variables
        mode = r.choice(['filter', 'filter', 'filter', 'elt', 'iter', 'later-iter', 'any', 'any'])
        ngen = 2 if (mode == 'later-iter' or r.random() < 0.3) else 1
        kind = r.choice(['list', 'list', 'set', 'dict', 'gen', 'gen'])
        if as_iterable and kind == 'gen':
            kind = 'list'
        tg = []
        clauses = []
        nfilters = 0
        for i in range(ngen):
            q = 'q%d' % self.key()
            reads_here = mode == 'any' or (mode == 'iter' and i == 0) or (mode == 'later-iter' and i > 0)
            c = r.random()
            if reads_here and c < 0.7:
                vs = self.pick(pool, used, 1, 2) + ([r.choice(tg)] if tg and r.random() < 0.3 else [])
                it = r.choice(['[%s]', '(%s,)']) % ', '.join(vs)
            elif reads_here:
                it = '(L(%d), %s)[0]' % (self.key(), self.pick(pool, used, 1, 1)[0])
            elif c < 0.6:
                it = 'L(%d)' % self.key()
            else:
                it = r.choice(['range(2)', '(0, 1)', '[%d]' % self.key()])
            tg.append(q)
            cl = 'for %s in %s' % (q, it)
            nif = r.choice([0, 1, 1, 2]) if mode in ('filter', 'any') else r.choice([0, 0, 1])
            if mode == 'filter' and i == ngen - 1 and nfilters + nif == 0:
                nif = 1
            for _ in range(nif):
                nfilters += 1
                vs = self.pick(pool, used, 1, 2) if mode in ('filter', 'any') else []
                tq = [r.choice(tg)] if (r.random() < 0.5 or not vs) else []
                f = r.random()
                if f < 0.5:
                    cl += ' if D(%d%s)' % (self.key(), ''.join(', ' + v for v in vs + tq))
                elif f < 0.8 and vs:
                    cl += ' if %s != %s' % (r.choice(tg), vs[0])
                else:
                    cl += ' if T(%d%s) != %s' % (self.key(), ''.join(', ' + v for v in tq), (vs or tq)[0])
            clauses.append(cl)

        def elt(plain_ok=True):
            """-> (text, is certainly an int); plain_ok: may be a bare target / a nested comprehension (unhashable)"""
            vs = self.pick(pool, used, 1 if mode == 'elt' else 0, 2) if mode in ('elt', 'any') else []
            if plain_ok and depth == 0 and kind in ('list', 'gen') and r.random() < 0.15:
                return self.comp(pool, used, depth + 1)[0], False
            if plain_ok and not vs and r.random() < 0.4:
                return r.choice(tg), False
            return 'T(%d%s)' % (self.key(), ''.join(', ' + v for v in vs + [r.choice(tg)])), True
        body = ' '.join(clauses)
        if kind == 'list':
            return '[%s %s]' % (elt()[0], body), False
        if kind == 'set':
            return '{%s %s}' % (elt(False)[0], body), False
        if kind == 'dict':
            return '{%s: %s %s}' % (elt(False)[0], elt()[0], body), False
        e, is_int = elt()
        wrap = r.choice(['sum', 'list', 'tuple', 'sorted', 'any', 'len(list'] if is_int else ['list', 'tuple', 'any'])
        return '%s(%s %s)%s' % (wrap, e, body, ')' if wrap.endswith('(list') else ''), False

    def rich(self, pool, used):
        """an expression that reads variables of `pool` (recorded in `used`) from inside a compound expression"""
        r = self.r
        c = r.random()
        if c < 0.72 or not pool:
            return self.comp(pool, used)[0]
        vs = self.pick(pool, used, 2, 2)
        k = self.key()
        forms = ['(%s if D(%d) else %s)' % (vs[0], k, vs[1]),
                 '(T(%d, %s) and %s)' % (k, vs[0], vs[1]),
                 '(D(%d) or %s == %s)' % (k, vs[0], vs[1]),
                 '(%s == T(%d) != %s)' % (vs[0], k, vs[1]),
                 '[%s, %s][D(%d)]' % (vs[0], vs[1], k),
                 '(%s, T(%d), %s)[D(%d):2]' % (vs[0], k, vs[1], self.key()),
                 "{'p': %s, 'r': T(%d)}[%s == %s and 'p' or 'r']" % (vs[0], k, vs[1], vs[1]),
                 "f'{%s}-{T(%d, %s)!r}'" % (vs[0], k, vs[1]),
                 'T(%d, *[%s, %s])' % (k, vs[0], vs[1]),
                 "dict(p=%s, **{'r': %s})" % (vs[0], vs[1])]
        return r.choice(forms)

    def texpr(self, defined, depth=0):
        pool = self.pool(defined)
        if depth == 0 and pool and self.r.random() < 0.5:
            return self.rich(pool, set())
        return ClosureGen.texpr(self, defined, depth)

    def dexpr(self, defined):
        pool = self.pool(defined)
        if pool and self.r.random() < 0.15:
            return 'D(%d, %s)' % (self.key(), self.rich(pool, set()))
        return ClosureGen.dexpr(self, defined)

    def stmt(self, ind, defined, depth, in_loop, ihf):
        r = self.r
        x = r.random()
        pool = self.pool(defined)
        if x < 0.10 and depth < 3 and pool:
            # a local function that reads variables of this function from inside a compound expression only
            self.budget -= 1
            name = 'g%d' % self.key()
            self.emit(ind, 'def %s():' % name)
            need = set()
            if r.random() < 0.4:
                t = 'r%d' % self.key()
                self.emit(ind + 1, '%s = %s' % (t, self.rich(pool, need)))
                self.emit(ind + 1, 'return T(%d, %s)' % (self.key(), t))
            else:
                self.emit(ind + 1, 'return %s' % self.rich(pool, need))
            self.fns.append((name, need))
            return defined | {name}, True
        if x < 0.16 and depth < self.o.max_depth and self.budget > 0 and pool:
            # a for statement whose iterable is a comprehension
            self.budget -= 1
            v = r.choice(self.vars)
            self.emit(ind, 'for %s in %s:' % (v, self.comp(pool, set(), as_iterable=True)[0]))
            self.block(ind + 1, defined | {v}, depth + 1, True, ihf)
            return defined, True
        return ClosureGen.stmt(self, ind, defined, depth, in_loop, ihf)


def gen_comprehension_function(rnd):
    g = CompGen(rnd, _progs.Opts(reads='safe', max_stmts=rnd.choice([6, 9, 12]), max_depth=3, raise_=False, aug=False,
                                 with_=rnd.random() < 0.3, try_=rnd.random() < 0.3))
    g.emit(0, 'def f(%s):' % ', '.join(_progs.PARAMS))
    defined = g.block(1, set(_progs.PARAMS), 0, False, False, minlen=3)
    callable_now = [n for n, need in g.fns if n in defined and need <= defined]
    if callable_now and rnd.random() < 0.6:
        g.emit(1, 'return %s()' % rnd.choice(callable_now))
    else:
        g.emit(1, 'return %s' % g.texpr(defined))
    return '\n'.join(g.lines) + '\n'


# ---------------------------------------------------------------------------------------------
# cases for the Coq checkers (coq/Flow/LvCheck.v, RdCheck.v)

class Names(object):
    def __init__(self):
        self.ids = {}

    def __call__(self, s):
        s = str(s)
        if s not in self.ids:
            self.ids[s] = len(self.ids) + 1
        return self.ids[s]

    def lst(self, xs):
        return '[' + '; '.join(str(self(x)) for x in xs) + ']'


def _nats(xs):
    return '[' + '; '.join(str(x) for x in xs) + ']'


def coq_scope(d, nt):
    if d is None:
        return 'empty_scope'
    return '(mkscope %s)' % ' '.join(nt.lst(d[f]) for f in FIELDS)


def fn_free_reads(fnode):
    """S: (names a local function reads from the enclosing function without declaring them nonlocal,
           names it declares nonlocal and reads).  Functions / lambdas nested in it contribute what they read
    from outside themselves, unless fnode binds that name itself.  The `for` targets of a comprehension / generator
    expression are variables of that comprehension (not bindings of fnode); what it reads otherwise -- element,
    iterables, filters -- is read by fnode."""
    reads, stores, nl, gl, inner_nl = set(), set(), set(), set(), set()
    for a in fnode.args.posonlyargs + fnode.args.args + fnode.args.kwonlyargs:
        stores.add(a.arg)
    todo = [(n, frozenset()) for n in fnode.body]
    while todo:
        n, hidden = todo.pop()
        if isinstance(n, ast.FunctionDef):
            stores.add(n.name)
            a2, b2 = fn_free_reads(n)
            reads |= set(a2) - hidden
            inner_nl |= set(b2)
            todo.extend((x, hidden) for x in n.decorator_list)
            todo.extend((d, hidden) for d in n.args.defaults + n.args.kw_defaults if d is not None)
            continue
        if isinstance(n, ast.Lambda):
            reads |= set(lambda_free_reads(n)) - hidden
            continue
        if isinstance(n, ast.ClassDef):
            raise Unsupported('class in a nested function')
        if isinstance(n, COMPS):
            inner = frozenset(hidden | comp_targets(n))
            first = n.generators[0]
            todo.append((first.iter, hidden))
            todo.extend((x, inner) for x in ast.iter_child_nodes(n) if x is not first)
            todo.extend((x, inner) for x in [first.target] + list(first.ifs))
            continue
        if isinstance(n, ast.Name):
            if n.id in hidden:
                continue
            if isinstance(n.ctx, ast.Load) or isinstance(n.ctx, ast.Del):
                reads.add(n.id)
            if isinstance(n.ctx, (ast.Store, ast.Del)):
                stores.add(n.id)
        elif isinstance(n, ast.AugAssign) and isinstance(n.target, ast.Name):
            reads.add(n.target.id)
        elif isinstance(n, ast.Nonlocal):
            nl |= set(n.names)
        elif isinstance(n, ast.Global):
            gl |= set(n.names)
        todo.extend((x, hidden) for x in ast.iter_child_nodes(n))
    own = stores - nl - gl
    if inner_nl - own:
        # a function nested deeper declares a variable of an outer function nonlocal and reads it: activity folds the
        # inner scope with `read - bound`, which loses that read (known finding liveness-nonlocal-two-levels-down);
        # such programs are judged by the dynamic oracle only
        raise Unsupported('nonlocal read two function levels down')
    return sorted(reads - own - gl - nl), sorted(reads & nl)


def stmt_annos(an, fi, nt):
    anno = an.anno
    out = []

    def opt(node, key):
        if anno.hasanno(node, key):
            return '(Some %s)' % nt.lst(sorted(str(q) for q in anno.getanno(node, key)))
        return 'None'
    for l, node in sorted(fi.nodes.items()):
        s = node.ast_node
        if isinstance(s, ast.stmt):
            kind = 1 if isinstance(s, ast.Expr) else 0
            out.append('(mksanno %d %d [] %s %s)' % (kind, l, opt(s, anno.Static.LIVE_VARS_IN),
                                                     opt(s, anno.Static.LIVE_VARS_OUT) if kind == 1 else 'None'))
    for s in compound_stmts(fi):
        ent = entry_label(fi.sk, s.body[0] if isinstance(s, ast.ExceptHandler) else s)
        out.append('(mksanno 2 %d %s %s %s)' % (ent, _nats(inside_labels(fi.sk, s)), opt(s, anno.Static.LIVE_VARS_IN),
                                                opt(s, anno.Static.LIVE_VARS_OUT)))
    return out


def defs_reaching(fi):
    """S: label -> [FunctionDef nodes of this function whose def statement has a graph path to the label]"""
    succ = {}
    for a, b in fi.edges:
        succ.setdefault(a, []).append(b)
    out = {}
    live = set()
    todo = [fi.entry]
    while todo:
        m = todo.pop()
        if m in live or m == 0:
            continue
        live.add(m)
        todo.extend(succ.get(m, ()))
    for l, node in fi.nodes.items():
        created = []
        if l in fi.lambdas:
            continue
        if isinstance(node.ast_node, ast.FunctionDef):
            created.append(node.ast_node)
        elif fi.kind(l) != 'args':
            roots = [node.ast_node.context_expr] if fi.kind(l) == 'item' else [node.ast_node]
            created.extend(x for r in roots for x in _own_nodes(r) if isinstance(x, ast.Lambda))
        if created and l in live:     # a def / lambda in dead code never executes
            seen = set()
            todo = list(succ.get(l, ()))
            while todo:
                m = todo.pop()
                if m in seen or m == 0:
                    continue
                seen.add(m)
                todo.extend(succ.get(m, ()))
            for m in seen:
                out.setdefault(m, []).extend(created)
    return out


def lambda_free_reads(lam):
    """S: names a lambda expression reads from the enclosing function when it is called"""
    own = set(a.arg for a in lam.args.posonlyargs + lam.args.args + lam.args.kwonlyargs)
    for x in ast.walk(lam.body):
        if isinstance(x, (ast.Lambda, ast.NamedExpr, ast.ListComp, ast.SetComp, ast.DictComp, ast.GeneratorExp)):
            raise Unsupported('nested scope inside a lambda')
    return sorted(set(x.id for x in ast.walk(lam.body) if isinstance(x, ast.Name) and isinstance(x.ctx, ast.Load)) - own)


def body_successor(fi, l):
    """for header l: label of its CFG successor inside the loop (a lambda node when the first statement of the
    body contains a lambda expression), else 0"""
    if fi.kind(l) != 'iter':
        return 0
    node = fi.nodes[l]
    for s in ast.walk(fi.fn):
        if isinstance(s, ast.For) and s.iter is node.ast_node:
            inside = set(id(x) for st in s.body for x in ast.walk(st))
            hits = [fi.label_of(m) for m in node.next if id(m.ast_node) in inside]
            return hits[0] if len(hits) == 1 else 0
    return 0


EMPTY_EFFECT = {'reads': [], 'writes': [], 'dels': [], 'ftarget': [], 'body': 0}


def lv_case(an, fi, idx):
    nt = Names()
    eff = py_effects(fi, comps=True)
    sreach = defs_reaching(fi)
    ext = nesting_of(an).external_defs(fi.fn)
    rows = []
    fnrows = []
    for l, node in sorted(fi.nodes.items()):
        sc = an.node_scope(node)
        fns = an.reaching_fns(node)
        cread, cread_nl, cread_lam = set(), set(), set()
        # S: a local function can only run during a node that performs a call; it may be any function whose def
        # statement lies on a graph path to this node (the object may have been aliased / stored / passed on, so
        # a later def of the same name does not end its life) -- computed from the graph, not from DEFINED_FNS_IN
        calls = fi.kind(l) not in ('args', 'lambda') and any(isinstance(x, ast.Call) for x in _own_nodes(node.ast_node))
        for d in sreach.get(l, ()):
            if calls and isinstance(d, ast.Lambda):
                cread_lam |= set(lambda_free_reads(d))
            elif calls:
                a, b = fn_free_reads(d)
                cread |= set(a)
                cread_nl |= set(b)
        # ... and, in the graph of a NESTED function, any local function of an enclosing function whose definition
        # reaches the definition of this function (it exists whenever this function runs and may be called from it
        # by name, through an alias / container, or through a chain of sibling closures); names bound between that
        # level and this function hide the outer variable
        for d, shadow in (ext if calls else ()):
            if isinstance(d, ast.Lambda):
                cread_lam |= set(lambda_free_reads(d)) - shadow
            else:
                a, b = fn_free_reads(d)
                cread |= set(a) - shadow
                cread_nl |= set(b) - shadow
        e = eff.get(l, EMPTY_EFFECT)
        rows.append('(mknode %d %s %s [%s] %s %s %s [] %s %s %s %s %s %s %s %d %d)' % (
            l, 'true' if sc is not None else 'false', coq_scope(sc, nt),
            '; '.join('(%s, %s)' % ('true' if is_l else 'false', coq_scope(d, nt)) for is_l, d, _ in fns),
            nt.lst(sorted(cread)), nt.lst(sorted(cread_nl)), nt.lst(sorted(cread_lam)), nt.lst(an.loop_targets(node)),
            nt.lst(sorted(str(q) for q in fi.lv.in_[node])), nt.lst(sorted(str(q) for q in fi.lv.out[node])),
            nt.lst(e['reads']), nt.lst(e['writes']), nt.lst(e['dels']), nt.lst(e['ftarget']), e['body'],
            body_successor(fi, l)))
        dl = [fi.sk.label[id(d)] for _, _, d in fns if id(d) in fi.sk.label]
        fnrows.append('(%d, %s, %s)' % (l, 'true' if isinstance(node.ast_node, ast.FunctionDef) else 'false', _nats(sorted(dl))))
    return '(mklvcase %d (%s) %s [%s] [%s] [%s] %s)' % (idx, fi.sk.term, skel_mod.coq_edges(fi.edges_full), ';\n  '.join(rows),
                                                       '; '.join(stmt_annos(an, fi, nt)), '; '.join(fnrows), _nats(fi.lambdas))


def rd_case(an, fi, idx):
    anno = an.anno
    nt = Names()
    eff = py_effects(fi, composite=True)
    rows = []
    names = []
    parents = {}
    for p in ast.walk(fi.fn):
        for c in ast.iter_child_nodes(p):
            parents[id(c)] = p

    def items(st):
        return '[' + '; '.join('(%d, %d)' % (nt(s), l) for s, l in an.rd_state(fi, st)) + ']'
    for l, node in sorted(fi.nodes.items()):
        sc = an.node_scope(node)
        e = eff.get(l, EMPTY_EFFECT)
        genk = sorted(str(s) for s in fi.rd.gen_map[node].value) if node in fi.rd.gen_map else []
        rows.append('(mknode %d %s %s [] [] [] [] %s %s %s %s %s %s %s %s %d %d)' % (
            l, 'true' if sc is not None else 'false', coq_scope(sc, nt), nt.lst(genk), nt.lst(an.loop_targets(node)),
            items(fi.rd.in_[node]), items(fi.rd.out[node]),
            nt.lst(e['reads']), nt.lst(e['writes']), nt.lst(e['dels']), nt.lst(e['ftarget']), e['body'],
            body_successor(fi, l)))
        if l in fi.lambdas:
            continue
        roots = [node.ast_node]
        if fi.kind(l) == 'iter':
            roots.append(parents[id(node.ast_node)].target)
        for r in roots:
            for nd in _own_nodes(r):
                if isinstance(nd, ast.Name) and anno.hasanno(nd, anno.Static.DEFINITIONS):
                    names.append('(mknanno %d %d %s %s)' % (l, nt(nd.id), 'true' if isinstance(nd.ctx, ast.Load) else 'false',
                                                           _nats(an.defs_labels(fi, anno.getanno(nd, anno.Static.DEFINITIONS)))))
                elif isinstance(nd, ast.arg) and anno.hasanno(nd, anno.Static.DEFINITIONS):
                    names.append('(mknanno %d %d false %s)' % (l, nt(nd.arg), _nats(an.defs_labels(fi, anno.getanno(nd, anno.Static.DEFINITIONS)))))
    dins = []
    for s in compound_stmts(fi):
        if anno.hasanno(s, anno.Static.DEFINED_VARS_IN):
            dins.append('(mkdanno %s %s)' % (_nats(inside_labels(fi.sk, s)),
                                             nt.lst(sorted(str(q) for q in anno.getanno(s, anno.Static.DEFINED_VARS_IN)))))
    return '(mkrdcase %d (%s) %s [%s] [%s] [%s] %s)' % (idx, fi.sk.term, skel_mod.coq_edges(fi.edges_full), ';\n  '.join(rows),
                                                       '; '.join(names), '; '.join(dins), _nats(fi.lambdas))


def coq_eval_cases(pid, name, cases, ctype, fname, module, shard=60, timeout=900):
    """evaluates `fname cases` in Coq in shards; returns the list of failing codes or None on error"""
    from lib import vlib
    from concurrent.futures import ThreadPoolExecutor
    if not cases:
        return [], ''
    shards = [cases[i:i + shard] for i in range(0, len(cases), shard)]

    def one(args):
        i, sh = args
        body = ['From Coq Require Import List Arith Bool.', 'Import ListNotations.',
                'Require Import MV.Cfg.Skel MV.Flow.SetExpr MV.Flow.Dataflow %s.' % module,
                'Definition cases : list %s := [' % ctype, ';\n'.join(sh), '].',
                'Eval vm_compute in %s cases.' % fname]
        return vlib.coq_eval(pid, '%s_%d' % (name, i), '\n'.join(body), timeout=timeout)

    with ThreadPoolExecutor(max_workers=8) as ex:
        results = list(ex.map(one, enumerate(shards)))
    bad = []
    for rc, out in results:
        r = vlib.parse_coq_list_of_nat(out) if rc == 0 else None
        if r is None:
            return None, out[-600:]
        bad.extend(r)
    return bad, ''


# ---------------------------------------------------------------------------------------------
# shared driver of C06 / C07 (tools/props/c06.py, c07.py are thin wrappers)

FIXED_VECTORS = [[], [1], [1, 0], [0, 1, 1], [1, 1, 0, 1], [2, 1, 0, 2, 1, 0, 1], [1, 2, 0, 1, 3, 0, 0, 1]]


def decision_vectors(rnd, n):
    out = list(FIXED_VECTORS)
    while len(out) < n:
        out.append([rnd.choice([0, 1, 1, 2, 3]) for _ in range(rnd.randint(1, 10))])
    return out[:n]


def program_stream(rnd, it):
    """-> (stream name, source).  Deterministic in (rnd, it)."""
    k = it % 20
    if k < 7:
        return 'main', _progs.gen_function(rnd, _progs.Opts(reads='safe', nested_def=True, max_stmts=14))
    if k < 10:
        return 'delete', _progs.gen_function(rnd, _progs.Opts(reads='safe', nested_def=True, delete=True, max_stmts=12))
    if k < 13:
        return 'closure', gen_closure_function(rnd, _progs.Opts(reads='safe', max_stmts=14, raise_=(k == 12)))
    if k < 16:
        return 'escape', gen_escape_function(rnd, _progs.Opts(reads='safe', max_stmts=16, max_depth=2, raise_=False, try_=(k == 15), with_=False))
    if k < 18:
        return 'lambda', gen_escape_function(rnd, _progs.Opts(reads='safe', max_stmts=16, max_depth=2, raise_=False, try_=False, with_=False),
                                             lambdas=True)
    if k == 18:
        sel = (it // 20) % 8
        if sel == 7:
            return 'composite-del', gen_composite_del_function(rnd)
        if sel == 6:
            return 'jump-through-finally', gen_jump_through_finally_function(rnd)
        if sel == 5:
            return 'late-def', gen_late_def_function(rnd)
        if sel == 4:
            return 'two-raises', gen_two_raises_function(rnd)
        if sel == 3:
            return 'global-in-loop', gen_global_in_loop_function(rnd)
        if sel == 0:
            return 'paramless', gen_paramless_function(rnd)
        if sel == 1:
            return 'nested-try', gen_nested_try_function(rnd)
        return 'try-else-finally', gen_try_else_finally_function(rnd)
    return 'any', _progs.gen_function(rnd, _progs.Opts(reads='any', max_stmts=10))


def load_corpus(pid):
    import os
    from lib import vlib
    out = []
    cdir = os.path.join(vlib.ROOT, 'corpus', pid)
    if os.path.isdir(cdir):
        for fnm in sorted(os.listdir(cdir)):
            if fnm.endswith('.py'):
                text = open(os.path.join(cdir, fnm)).read()
                first, rest = text.split('\n', 1)
                out.append((fnm, rest, eval(first.split(':', 1)[1])))
    return out


def check_property(run, kind, generate):
    """kind: 'lv' (C07) or 'rd' (C06)."""
    import os
    import random
    import re
    from lib import vlib
    pid = run.pid
    quick = run.tier == 'quick'
    nprog = 600 if quick else 5000
    nvec = 10 if quick else 16
    tie_broken = []
    try:
        generate()
    except Exception as e:  # noqa  (Untranslatable: the source no longer has a recognised shape)
        tie_broken.append('translator: %s' % e)
    check_vo = 'Flow/LvCheck.vo' if kind == 'lv' else 'Flow/RdCheck.vo'
    vlib.standard_proof_step(run, [check_vo])
    run.rule = ('seeded random functions (tools/gen/progs.py + closure extension tools/export/flow.py: assign/aug/tuple/del/if/while/'
                'for(+else)/break/continue/return/raise/try-except-else-finally/with-as/nested def reading enclosing variables and '
                'declaring nonlocal, called at later points, lambdas stored and called later, raises reaching outer handlers, jumps in try-else under finally, parameterless functions, aliased / stored in a list / re-defined under the same name / called through sibling closures and two-hop chains after if/while/for statements assigning the captured variable; reads only of definitely bound names, plus a stream with maybe-unbound '
                'reads) x decision vectors driving every test / trip count (0..3) / handler; corpus first; non-trivial = program with a '
                'loop, try or local function; distinct by source text')
    if kind == 'rd':
        run.rule += ('; C06 also: a stream of its own with explicit raises that sit deeper in a try body (more statements / '
                     'nesting levels before them) than the fall-through path of the body is long, after assigning a variable the '
                     'fall-through path overwrites or never binds, read in the handlers / finally clause / after the try and '
                     'at the entry of compound statements there, the try optionally in a loop that re-defines the variables'
                     '; + a composite-target stream of its own: in-place mutation of the list / dict / object a local holds through '
                     'subscripts with slice, tuple, constant, name, unary / binary / call indices, nested subscripts and attributes, as '
                     'targets of = (plain, chained, unpacking, starred), augmented assignment, del (one / several targets), for headers '
                     'and with-as, at top level / in a branch / in a loop, the owner read afterwards and conditionally re-bound in '
                     'if / while / for / try statements')
    if kind == 'lv':
        run.rule += ('; C07 also: every activation of a nested function is judged against that function\'s own graph (value written '
                     'in the activation and read later in it by the function itself, by functions nested in it or by local functions '
                     'of the enclosing functions whose definition reaches its definition -- called by name, alias, container or '
                     'sibling chains), + a sibling-writer stream of its own for that class; + a comprehension stream of its own: '
                     'variables read from every position of list / set / dict comprehensions and generator expressions consumed on '
                     'the spot (element, key / value, first and later iterables, filters of every for clause, nested comprehension; '
                     'often ONLY in the filters) and from other compound expressions (conditional, boolean, ==-chain, subscript / '
                     'slice, f-string, starred argument), as right-hand sides, return values, test arguments, for iterables and in '
                     'bodies of local functions called later, after if / while / for / try statements assigning the variables')
    rnd = random.Random(run.seed * 7919 + (6 if kind == 'rd' else 7))
    cases = []
    meta = []           # index -> (src, fn name, stream)
    failures = []       # (what, known, replay dict)
    runs = 0
    off_graph = 0
    skipped = {}
    hist = {}
    seen_src = set()
    corpus = load_corpus(pid)
    # C07 only: a stream of its own (own random source, after the shared streams, so that those stay what they were)
    # for liveness inside nested functions
    # C06 only, likewise: raises that sit deeper in a try body than the body's fall-through path is long
    nextra = 40 if quick else 400
    rnd_extra = random.Random(run.seed * 7919 + (1000007 if kind == 'lv' else 2000003))
    # C07 only, likewise: reads from every position of comprehensions / generator expressions and other compound expressions
    ncomp = (70 if quick else 700) if kind == 'lv' else 0
    rnd_comp = random.Random(run.seed * 7919 + 3000017)
    nested_stats = {}
    comp_stats = {}
    # C06 only, likewise: in-place mutations of the object a local holds through composite targets of every shape
    nsub = (60 if quick else 600) if kind == 'rd' else 0
    rnd_sub = random.Random(run.seed * 7919 + 4000037)
    sub_stats = {}
    for it in range(len(corpus) + nprog + nextra + ncomp + nsub):
        vec_rnd = rnd
        if it < len(corpus):
            sname, src, cdv = ('corpus:' + corpus[it][0], corpus[it][1], corpus[it][2])
        elif it < len(corpus) + nprog:
            sname, src = program_stream(rnd, it)
            cdv = None
        elif it >= len(corpus) + nprog + nextra + ncomp:
            sname, src = 'composite-target', gen_composite_target_function(rnd_sub)
            cdv = None
            vec_rnd = rnd_sub
        elif it >= len(corpus) + nprog + nextra:
            sname, src = 'comprehension', gen_comprehension_function(rnd_comp)
            cdv = None
            vec_rnd = rnd_comp
        elif kind == 'lv':
            sname, src = 'sibling-writer', gen_sibling_writer_function(rnd_extra)
            cdv = None
            vec_rnd = rnd_extra
        else:
            sname, src = 'deep-raise', gen_deep_raise_function(rnd_extra)
            cdv = None
            vec_rnd = rnd_extra
        if src in seen_src:
            continue
        seen_src.add(src)
        try:
            an = Analysis(src)
        except (Unsupported, skel_mod.Unsupported) as e:
            skipped['unsupported'] = skipped.get('unsupported', 0) + 1
            continue
        except Exception as e:  # noqa
            failures.append(('analysis raised %s: %s' % (type(e).__name__, e), None, {'program': src}))
            continue
        run.count()
        if sname == 'comprehension' or any(isinstance(x, COMPS) for x in ast.walk(an.fn)):
            comp_stats['programs'] = comp_stats.get('programs', 0) + 1
            for x in ast.walk(an.fn):
                if isinstance(x, COMPS):
                    comp_stats[type(x).__name__] = comp_stats.get(type(x).__name__, 0) + 1
                    comp_stats['filters'] = comp_stats.get('filters', 0) + sum(len(g.ifs) for g in x.generators)
        if sname == 'composite-target':
            sub_stats['programs'] = sub_stats.get('programs', 0) + 1
            for x in ast.walk(an.fn):
                if isinstance(x, (ast.Subscript, ast.Attribute)) and not isinstance(x.ctx, ast.Load):
                    shape = 'attribute' if isinstance(x, ast.Attribute) else 'index:' + type(x.slice).__name__
                    key = '%s %s' % (type(x.ctx).__name__, shape)
                    sub_stats[key] = sub_stats.get(key, 0) + 1
        for kw in ('while', 'for', 'try', 'finally', 'except', 'break', 'continue', 'return', 'raise', 'with', 'else', 'def', 'nonlocal', 'del'):
            if re.search(r'\b%s\b' % kw, src):
                hist[kw] = hist.get(kw, 0) + 1
        if re.search(r'\b(while|for|try|def|lambda)\b', src):
            run.nontriv(src)
        try:
            for fi in an.fns.values():
                idx = len(meta)
                meta.append((src, fi.fn.name, sname))
                cases.append(lv_case(an, fi, idx) if kind == 'lv' else rd_case(an, fi, idx))
        except (Unsupported, skel_mod.Unsupported):
            skipped['unsupported-export'] = skipped.get('unsupported-export', 0) + 1
        fi = an.top
        for dv in ([cdv] if cdv is not None else []) + decision_vectors(vec_rnd, nvec):
            try:
                d = Dyn(src, fi, dv)
            except RecursionError:
                continue
            if not d.ok:
                skipped[str(d.val)] = skipped.get(str(d.val), 0) + 1
                continue
            runs += 1
            if 'programs' in comp_stats and any(isinstance(x, COMPS) for x in ast.walk(an.fn)):
                comp_stats['runs'] = comp_stats.get('runs', 0) + 1
            if not d.on_graph:
                off_graph += 1
            if sname == 'composite-target':
                sub_stats['runs'] = sub_stats.get('runs', 0) + 1
            fs = liveness_failures(an, fi, d) if kind == 'lv' else reachdef_failures(an, fi, d)
            if kind == 'lv':
                fs = fs + nested_liveness_failures(an, d, nested_stats)
            for f in fs:
                failures.append((f['what'], f['known'], {'program': src, 'decisions': list(dv), 'failure': f,
                                                         'replay': 'bin/check %s --replay <this file>' % pid}))
            if len(run.samples) < 4 and len(d.inst) > 5 and it >= len(corpus):
                run.sample({'program': src, 'decisions': dv, 'executed_node_labels': [x.label for x in d.inst if x.label]})
    run.count(runs)
    run.extra['programs'] = len(seen_src)
    run.extra['function_graphs_checked_in_coq'] = len(cases)
    run.extra['traces_validated_against_impl'] = runs
    run.extra['runs_outside_the_property'] = skipped
    run.extra['runs_off_the_reported_graph'] = off_graph
    run.extra['construct_histogram'] = hist
    if kind == 'rd':
        run.extra['composite_target_programs'] = sub_stats
    if kind == 'lv':
        run.extra['nested_function_activations_judged'] = nested_stats
        run.extra['comprehension_programs'] = comp_stats

    module = 'MV.Flow.LvCheck' if kind == 'lv' else 'MV.Flow.RdCheck'
    bad, err = coq_eval_cases(pid, 'cases', cases, 'lv_case' if kind == 'lv' else 'rd_case',
                              'lv_failing' if kind == 'lv' else 'rd_failing', module)
    CODES = {1: 'the model graph cfg_fn is not contained in the graph of cfg.build',
             2: 'the reported in/out sets are not the fixed point of the generated transfer equations',
             3: 'the reported sets violate the soundness inclusions for what the nodes read / bind by Python rules',
             4: 'an annotation (LIVE_VARS_IN / LIVE_VARS_OUT / DEFINITIONS) is not what the node-level solution implies',
             5: ('DEFINED_FNS_IN is not closed under the graph edges' if kind == 'lv' else
                 'DEFINED_VARS_IN is not the union over the statement predecessors')}
    if bad is None:
        tie_broken.append('model evaluation in Coq failed: ' + err)
    else:
        by_code = {}
        for b in bad:
            by_code.setdefault(b % 16, []).append(b // 16)
        run.extra['coq_case_failures'] = {str(k): len(v) for k, v in by_code.items()}
        for code, idxs in sorted(by_code.items()):
            if kind == 'lv' and code == 6:
                run.violation('variables read and declared nonlocal by a reaching local function are not live',
                              {'program': meta[idxs[0]][0], 'function': meta[idxs[0]][1],
                               'broken': 'lv_sound with the nonlocal clause (coq/Flow/Dataflow.v) is false on the exported data'},
                              found_input=False, classify='liveness-nonlocal-closure-read')
                continue
            if kind == 'lv' and code == 8:
                run.violation('free variables of lambda expressions that are called later are not live',
                              {'program': meta[idxs[0]][0], 'function': meta[idxs[0]][1]},
                              found_input=False, classify='liveness-lambda-closure-not-live')
                continue
            if code == 7:
                # only the edge-sensitive (unguarded) inclusions fail: the for header kills / redefines its targets
                # on the loop-exit edge as well
                run.violation('a for-loop header treats its targets as assigned on the loop-exit edge',
                              {'program': meta[idxs[0]][0], 'function': meta[idxs[0]][1],
                               'broken': 'lv_sound_e / rd_sound_e (coq/Flow/Dataflow.v) is false on the exported data'},
                              found_input=False, classify='for-target-killed-on-exit-edge')
                continue
            tie_broken.append('%s (programs e.g. %s)' % (CODES.get(code, 'code %d' % code), idxs[:5]))
            run.extra.setdefault('coq_failing_examples', []).append({'code': code, 'program': meta[idxs[0]][0], 'function': meta[idxs[0]][1]})
    # verdict
    reported = set()
    unknown = 0
    for what, known, rp in failures:
        key = (re.sub(r'\d+', 'N', what.split(':')[0]), known)
        if key in reported:
            continue
        reported.add(key)
        if known:
            run.violation(what, rp, classify=known)
        else:
            unknown += 1
            if unknown <= 4:
                run.violation(what, rp)
    run.extra['oracle_failure_kinds'] = sorted('%s [%s]' % k for k in reported)
    if tie_broken and not unknown:
        ex = run.extra.get('coq_failing_examples', [{}])[0]
        run.violation('tie between the Coq model and the implementation broke: ' + '; '.join(tie_broken)[:600],
                      {'broken': tie_broken, 'example': ex,
                       'searched': '%d real runs of %d programs judged by the CPython oracle: no property-level failure' % (runs, len(seen_src))},
                      found_input=False)
    run.assumptions += [
        'ordinary statements do not raise (runs in which a handler catches an implicit exception are outside the property and skipped)',
        "C05's guard: no break / continue / return in an except body of a try with finally",
        'per node, Python\'s reads / binds / deletes are computed from the ast alone (export/flow.py: py_effects) and every instance of a node binds all of them',
        'each generated statement sits on its own line (line events identify CFG nodes)']
    if kind == 'lv':
        run.assumptions += [
            'inside an activation of a nested function only reads performed before the activation ends are claimed, and a read '
            'through a local function of an enclosing function only if that function\'s def statement lies on a graph path to the '
            'def of the running function (reads through later-defined siblings / recursive activations are counted in '
            'nested_function_activations_judged.skipped_reads and not judged)']


def replay_property(path, kind):
    import json
    doc = json.load(open(path))
    rp = doc.get('replay', {})
    src = rp.get('program')
    if not src or rp.get('decisions') is None:
        print(json.dumps(doc, indent=1))
        return 0
    an = Analysis(src)
    d = Dyn(src, an.top, rp['decisions'])
    print(src)
    if not d.ok:
        print('run is outside the property:', d.val)
        return 0
    print('decisions', rp['decisions'], '-> executed nodes', [x.label for x in d.inst if x.label])
    fs = liveness_failures(an, an.top, d) if kind == 'lv' else reachdef_failures(an, an.top, d)
    if kind == 'lv':
        fs = fs + nested_liveness_failures(an, d)
    for f in fs:
        print('FAIL', f)
    return 1 if fs else 0
