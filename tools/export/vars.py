"""Exporter: Python ast -> term of coq/Vars/VarLang.v (`tree`), for the structural tie of the variables pass.
Names, string constants naming variables, augmented assignments and del statements are exported as such; the shapes
the pass generates (call without keywords, attribute `ld` / `Undefined`, single assignment, expression statement)
get fixed labels; every other node is a generic node labelled by its type and non-node fields, lists of statements
wrapped in a node of their own so that statements spliced by the pass stay inside their block."""
import ast


class GExporter(object):
    def __init__(self, orig_of=None):
        self.vars = {'ag__': 0}
        self.labels = {}
        self.orig_of = orig_of or (lambda n: False)

    def var(self, name):
        if name not in self.vars:
            self.vars[name] = len(self.vars)
        return self.vars[name]

    def label(self, key):
        if key not in self.labels:
            self.labels[key] = len(self.labels) + 1
        return self.labels[key]

    def trees(self, xs):
        out = 'GNil'
        for x in reversed(xs):
            out = 'GCons (%s) (%s)' % (x, out)
        return out

    def node(self, lab, kids):
        return 'GNode %s (%s)' % (lab, self.trees(kids))

    def tree(self, n):
        if isinstance(n, ast.Name):
            ctx = {ast.Load: 'CLoad', ast.Store: 'CStore', ast.Del: 'CDel'}[type(n.ctx)]
            return 'GName %d %s %s' % (self.var(n.id), ctx, 'true' if self.orig_of(n) else 'false')
        if isinstance(n, ast.Constant) and isinstance(n.value, str) and n.value.isidentifier() and n.kind is None:
            return 'GStr %d' % self.var(n.value)
        if isinstance(n, ast.AugAssign):
            return 'GAug %d (%s) (%s)' % (self.label('aug|' + type(n.op).__name__), self.tree(n.target), self.tree(n.value))
        if isinstance(n, ast.Delete):
            return 'GDelete (%s)' % self.trees([self.tree(t) for t in n.targets])
        if isinstance(n, ast.Call) and not n.keywords:
            return self.node('LCall', [self.tree(n.func)] + [self.tree(a) for a in n.args])
        if isinstance(n, ast.Attribute) and isinstance(n.ctx, ast.Load) and n.attr in ('ld', 'Undefined'):
            return self.node('LAttrLd' if n.attr == 'ld' else 'LAttrUndef', [self.tree(n.value)])
        if isinstance(n, ast.Assign) and n.type_comment is None:
            return self.node('LAssign', [self.tree(t) for t in n.targets] + [self.tree(n.value)])
        if isinstance(n, ast.Expr):
            return self.node('LExpr', [self.tree(n.value)])
        parts, kids = [type(n).__name__], []
        for f in n._fields:
            if f.startswith('_'):
                continue          # annotations of the pyct anno module live in an extra field
            v = getattr(n, f, None)
            if isinstance(v, list):
                if v and all(isinstance(c, ast.stmt) for c in v) or (not v and f in ('body', 'orelse', 'finalbody')):
                    parts.append('%s:block' % f)
                    kids.append(self.node('(LOther %d)' % self.label('field|' + f), [self.tree(c) for c in v]))
                else:
                    parts.append('%s:%d' % (f, len(v)))
                    for c in v:
                        if isinstance(c, (ast.expr_context, ast.operator, ast.unaryop, ast.cmpop, ast.boolop)):
                            parts.append(type(c).__name__)
                        elif isinstance(c, ast.AST):
                            kids.append(self.tree(c))
                        else:
                            parts.append(repr(c))
            elif isinstance(v, (ast.expr_context, ast.operator, ast.unaryop, ast.cmpop, ast.boolop)):
                parts.append('%s=%s' % (f, type(v).__name__))
            elif isinstance(v, ast.AST):
                parts.append(f)
                kids.append(self.tree(v))
            else:
                parts.append('%s=%r' % (f, v))
        return self.node('(LOther %d)' % self.label('|'.join(parts)), kids)
