"""Exporter: Python `ast.FunctionDef` -> control skeleton term of coq/Cfg/Skel.v.

Labels are assigned in source order to exactly the AST objects that become CFG
nodes in malt.pyct.cfg (the `arguments` node, simple statements, if/while tests,
for iters, with items); the side tables map labels <-> AST objects <-> lines.
Fails closed (Unsupported) on any statement outside the modelled subset."""
import ast


class Unsupported(Exception):
    pass


SIMPLE = (ast.Assign, ast.AugAssign, ast.AnnAssign, ast.Expr, ast.Pass, ast.Delete, ast.Global,
          ast.Nonlocal, ast.Import, ast.ImportFrom, ast.Assert, ast.FunctionDef, ast.ClassDef)


class Skel(object):
    def __init__(self, fn_node):
        if not isinstance(fn_node, ast.FunctionDef):
            raise Unsupported('not a FunctionDef')
        self.fn = fn_node
        self.label = {}        # id(ast node) -> label
        self.node_of = {}      # label -> ast node
        self.kind = {}         # label -> 'args' | 'simple' | 'test' | 'iter' | 'item' | 'break' | ...
        self.line_labels = {}  # line number -> [labels] (in evaluation order)
        self.raise_decisions = {}   # raise label -> decisions the model consumes when it executes (None: unknown)
        self.nested = []       # nested FunctionDef nodes (exported separately by the caller)
        self.handler_jump = False   # some break/continue/return in an except body of a try with finally (known finding shape)
        self._n = 0
        self._ctx = []         # stack of (try node, region)
        self._loop_depth_in_handler = []
        args_label = self._new(fn_node.args, 'args', None)
        self.term = 'mkfn %d (%s)' % (args_label, self._block(fn_node.body))

    def _new(self, node, kind, line):
        self._n += 1
        self.label[id(node)] = self._n
        self.node_of[self._n] = node
        self.kind[self._n] = kind
        if line is not None:
            self.line_labels.setdefault(line, []).append(self._n)
        return self._n

    def _block(self, stmts):
        out = 'BNil'
        terms = [self._stmt(s) for s in stmts]
        for t in reversed(terms):
            out = 'BCons (%s) (%s)' % (t, out)
        return out

    def _exc_name(self, node):
        if node.exc is None or node.cause is not None:
            return None
        e = node.exc
        if isinstance(e, ast.Call) and isinstance(e.func, ast.Name) and not e.args and not e.keywords:
            return e.func.id
        if isinstance(e, ast.Name):
            return e.id
        return None

    @staticmethod
    def _matches(htype, name):
        if htype is None:
            return True
        if isinstance(htype, ast.Name):
            return htype.id in (name, 'Exception', 'BaseException')
        if isinstance(htype, ast.Tuple):
            return any(Skel._matches(e, name) for e in htype.elts)
        return None

    def _raise_decisions(self, node):
        name = self._exc_name(node)
        if name is None:
            return None
        out = []
        for t, region in reversed(self._ctx):
            if region == 'loop':
                continue
            if region == 'body':
                d = 0
                for i, h in enumerate(t.handlers):
                    m = self._matches(h.type, name)
                    if m is None:
                        return None
                    if m:
                        d = i + 1
                        break
                out.append(d)
                if d:
                    return out
            if t.finalbody:
                return out          # the model stops here (OEscaped)
        return out

    def _in_handler_of_try_with_finally(self):
        return any(region == 'handler' and t.finalbody for t, region in self._ctx)

    def _stmt(self, s):
        if isinstance(s, SIMPLE):
            if isinstance(s, ast.FunctionDef):
                self.nested.append(s)
            return 'SSimple %d' % self._new(s, 'simple', s.lineno)
        if isinstance(s, ast.Break):
            if self._jump_escapes_handler('loop'):
                self.handler_jump = True
            return 'SBreak %d' % self._new(s, 'break', s.lineno)
        if isinstance(s, ast.Continue):
            if self._jump_escapes_handler('loop'):
                self.handler_jump = True
            return 'SContinue %d' % self._new(s, 'continue', s.lineno)
        if isinstance(s, ast.Return):
            if self._jump_escapes_handler('fn'):
                self.handler_jump = True
            return 'SReturn %d' % self._new(s, 'return', s.lineno)
        if isinstance(s, ast.Raise):
            l = self._new(s, 'raise', s.lineno)
            self.raise_decisions[l] = self._raise_decisions(s)
            return 'SRaise %d' % l
        if isinstance(s, ast.If):
            t = self._new(s.test, 'test', s.test.lineno)
            return 'SIf %d (%s) (%s)' % (t, self._block(s.body), self._block(s.orelse))
        if isinstance(s, (ast.While, ast.For)):
            hd = s.test if isinstance(s, ast.While) else s.iter
            t = self._new(hd, 'test' if isinstance(s, ast.While) else 'iter', s.lineno)
            self._ctx.append((s, 'loop'))
            body = self._block(s.body)
            self._ctx.pop()
            return 'SLoop %d (%s) (%s)' % (t, body, self._block(s.orelse))
        if isinstance(s, ast.With):
            labs = [self._new(it, 'item', it.context_expr.lineno) for it in s.items]
            return 'SWith %d [%s] (%s)' % (labs[0], '; '.join(str(x) for x in labs[1:]), self._block(s.body))
        if isinstance(s, ast.Try):
            self._ctx.append((s, 'body'))
            s0 = self._stmt(s.body[0])
            body = self._block(s.body[1:])
            self._ctx.pop()
            hs = []
            self._ctx.append((s, 'handler'))
            for h in s.handlers:
                hs.append(self._block(h.body))
            self._ctx.pop()
            self._ctx.append((s, 'orelse'))
            orelse = self._block(s.orelse)
            self._ctx.pop()
            self._ctx.append((s, 'final'))
            final = self._block(s.finalbody)
            self._ctx.pop()
            hterm = 'HNil'
            for h in reversed(hs):
                hterm = 'HCons (%s) (%s)' % (h, hterm)
            return 'STry (%s) (%s) (%s) (%s) (%s)' % (s0, body, hterm, orelse, final)
        raise Unsupported('statement %s at line %s' % (type(s).__name__, getattr(s, 'lineno', '?')))

    def _jump_escapes_handler(self, upto):
        """Does a break/continue (upto='loop') or return (upto='fn') written here leave an except
        body of a try statement that has a finally clause?"""
        for t, region in reversed(self._ctx):
            if region == 'loop':
                if upto == 'loop':
                    return False
                continue
            if region == 'handler' and t.finalbody:
                return True
        return False


def impl_graph(graph, skel):
    """malt Graph -> (edges by label with lambda nodes contracted and exits as (n, 0), node labels, error labels)."""
    lab = skel.label

    def is_lambda(n):
        return isinstance(n.ast_node, ast.Lambda)

    def succs(n, seen=None):
        out = set()
        for m in n.next:
            if is_lambda(m):
                out |= succs(m)
            else:
                out.add(m)
        return out

    edges = set()
    nodes = set()
    for n in graph.index.values():
        if is_lambda(n):
            continue
        if id(n.ast_node) not in lab:
            raise Unsupported('CFG node without label: %r' % (n,))
        nodes.add(lab[id(n.ast_node)])
        for m in succs(n):
            edges.add((lab[id(n.ast_node)], lab[id(m.ast_node)]))
    for n in graph.exit:
        if not is_lambda(n):
            edges.add((lab[id(n.ast_node)], 0))
    errors = set(lab[id(n)] for n in graph.error)
    return sorted(edges), sorted(nodes), sorted(errors)


def coq_edges(edges):
    return '[' + '; '.join('(%d, %d)' % e for e in edges) + ']'


def coq_nats(xs):
    return '[' + '; '.join(str(x) for x in xs) + ']'
