"""C02 -- functional (tracing) operator backends see complete state (DESIGN.md 4/C02).

 G  coq/Generated/C02_gen.v: the selection formulas of control_flow._get_block_basic_vars / _get_block_vars
 H  coq/Ctrl/BlockVars.v interprets them; theorem state_complete (dataflow form of the property)
 tie: the real ControlFlowTransformer._get_block_vars called on random liveness sets vs the model in Coq
 oracle: a tracing-style operator backend (both branches of a conditional run from the same state, one
    result kept; loop body run once out of band, carried state re-injected before every iteration) is
    injected into the real pipeline; converted pure programs must compute what the originals compute.
"""
import ast
import os
import random
import re
import warnings

from lib import vlib, convrun, pyrt
from gen import progs
from translate import c02_blockvars

KNOWN_FOR_TARGET = 'for-target-killed-on-zero-iterations'
KNOWN_PREV_ITER = 'get-state-reads-variable-bound-only-by-previous-iteration'
KNOWN_SPECULATIVE = 'speculative-branch-after-lowered-jump-reads-undefined'
KNOWN_FOR_TARGET_BODY = 'for-target-reassigned-in-body-not-an-output'
_last_exc = {}


def generate():
    vlib.write_if_changed(os.path.join(vlib.COQ, 'Generated', 'C02_gen.v'), c02_blockvars.translate(vlib.REPO))


# ---------------------------------------------------------------------------------------------------
def blockvars_cases(rnd, n):
    from malt.converters import control_flow
    from malt.pyct import anno, qual_names
    QN = qual_names.QN
    names = ['a', 'b', 'c', 'd', 'e', 'f', 'g']

    class FakeScope(object):
        pass
    cases = []
    for i in range(n):
        def pick():
            return set(rnd.sample(names, rnd.randint(0, 5)))
        modified, live_in, live_out, nonl, glob = pick(), pick(), pick(), set(rnd.sample(names, rnd.randint(0, 2))), \
            set(rnd.sample(names, rnd.randint(0, 2)))
        t = control_flow.ControlFlowTransformer(None)
        sc = FakeScope()
        sc.nonlocals = set(QN(x) for x in nonl)
        sc.globals = set(QN(x) for x in glob)
        t.state[control_flow._Function].enter()
        t.state[control_flow._Function].scope = sc
        node = ast.Pass()
        anno.setanno(node, anno.Static.DEFINED_VARS_IN, set())
        anno.setanno(node, anno.Static.LIVE_VARS_IN, set(QN(x) for x in live_in))
        anno.setanno(node, anno.Static.LIVE_VARS_OUT, set(QN(x) for x in live_out))
        scope_vars, _undef, nouts = t._get_block_vars(node, set(QN(x) for x in modified))
        sv = [str(v) for v in scope_vars]
        cases.append((i, sorted(modified), sorted(live_in), sorted(live_out), sorted(nonl), sorted(glob), sv, nouts))
    return cases


def coq_strs(xs):
    return '[' + '; '.join(vlib.coq_str(x) for x in xs) + ']'


# ---------------------------------------------------------------------------------------------------
class TracingBackend(object):
    """The documented tracing protocol, touching the function's variables only through get_state / set_state."""

    def __init__(self, ag):
        self.ag = ag
        self.calls = 0

    def if_stmt(self, cond, body, orelse, get_state, set_state, symbol_names, nouts):
        self.calls += 1
        s0 = get_state()
        body()
        s1 = get_state()
        set_state(s0)
        orelse()
        s2 = get_state()
        chosen = s1 if cond else s2
        # only the declared outputs of the chosen branch are kept; everything else keeps its entry value
        set_state(tuple(chosen[:nouts]) + tuple(s0[nouts:]))

    def while_stmt(self, test, body, get_state, set_state, symbol_names, opts):
        self.calls += 1
        s0 = get_state()
        body()                      # traced once out of band
        set_state(s0)
        cur = s0
        n = 0
        while True:
            set_state(cur)
            if not test():
                break
            body()
            cur = get_state()
            n += 1
            if n > 200:
                raise RuntimeError('runaway loop')
        set_state(cur)

    def for_stmt(self, iter_, extra_test, body, get_state, set_state, symbol_names, opts):
        self.calls += 1
        items = list(iter_)
        s0 = get_state()
        body(items[0] if items else 0)      # traced once out of band
        set_state(s0)
        cur = s0
        for it in items:
            set_state(cur)
            if extra_test is not None and not extra_test():
                break
            body(it)
            cur = get_state()
        set_state(cur)


class BlockVarsRecorder(object):
    """records every call of the real ControlFlowTransformer._get_block_vars made while the oracle's programs are converted:
    the contexts the selection formulas are really applied to, and the hypothesis of the loop theorems about them"""

    def __init__(self):
        self.records = []
        self.src = None

    def __enter__(self):
        from malt.converters import control_flow
        from malt.pyct import anno
        self.cf = control_flow
        self.orig = orig = control_flow.ControlFlowTransformer._get_block_vars
        rec = self

        def wrapped(tr, node, modified):
            r = orig(tr, node, modified)
            try:
                fs = tr.state[control_flow._Function].scope
                rec.records.append(dict(kind=type(node).__name__, node=node, src=rec.src, modified=set(modified),
                                        live_in=set(anno.getanno(node, anno.Static.LIVE_VARS_IN)),
                                        live_out=set(anno.getanno(node, anno.Static.LIVE_VARS_OUT)),
                                        nonlocals=set(fs.nonlocals), globals=set(fs.globals), scope_vars=list(r[0]), nouts=r[2]))
            except Exception as e:  # noqa
                rec.records.append(dict(error=repr(e), src=rec.src))
            return r
        control_flow.ControlFlowTransformer._get_block_vars = wrapped
        return self

    def __exit__(self, *a):
        self.cf.ControlFlowTransformer._get_block_vars = self.orig


def header_bound_names(node):
    """names a loop header itself binds: the for target; names bound by an assignment expression in the test / iterable"""
    out = set()
    hdr = [node.test] if isinstance(node, ast.While) else [node.target, node.iter]
    for h in hdr:
        for n in ast.walk(h):
            if isinstance(n, ast.Name) and isinstance(n.ctx, ast.Store):
                out.add(n.id)
    return out


def real_context_cases(records, start):
    """the recorded contexts restricted to simple names, in the format of blockvars_cases (composite state is validated by the
    oracle only); plus the violations of `live-out of a loop is live at its header` (hypothesis of tracing_while/for_sound)"""
    cases, loop_bad = [], []
    nloops = 0
    for r in records:
        if 'error' in r:
            continue
        if any(v.is_composite() for v in r['scope_vars']):
            continue

        def simple(qs):
            return sorted(str(q) for q in qs if not q.is_composite())
        cases.append((start + len(cases), simple(r['modified']), simple(r['live_in']), simple(r['live_out']), simple(r['nonlocals']),
                      simple(r['globals']), [str(v) for v in r['scope_vars']], r['nouts']))
        if r['kind'] in ('While', 'For'):
            nloops += 1
            missing = set(simple(r['live_out'])) - set(simple(r['live_in'])) - header_bound_names(r['node'])
            if missing:
                loop_bad.append((sorted(missing), r['kind'], r['src']))
    return cases, loop_bad, nloops


def protocol_cases(rnd, n):
    """tiny concrete instances of the tracing protocol run through TracingBackend over a dict store: bodies are lists of
    assignments t := x + y + k over the pool a b c d i; every while body first increments its test variable"""
    pool = ['a', 'b', 'c', 'd', 'i']
    be = TracingBackend(None)
    cases = []

    def asgs(m):
        return [(rnd.choice(pool[:4]), rnd.choice(pool), rnd.choice(pool), rnd.randint(0, 3)) for _ in range(rnd.randint(0, m))]

    def closure(store, body, pre=None):
        def run(*it):
            if pre is not None:
                store[pre] = it[0]
            for t, x, y, k in body:
                store[t] = store[x] + store[y] + k
        return run
    for j in range(n):
        kind = ('if', 'while', 'for')[j % 3]
        vars_ = rnd.sample(pool[:4], rnd.randint(0, 4)) + (['i'] if kind == 'for' and rnd.random() < 0.5 else [])
        init = [rnd.randint(0, 4) for _ in pool]
        store = dict(zip(pool, init))

        def get_state():
            return tuple(store[v] for v in vars_)

        def set_state(vals):
            for v, x in zip(vars_, vals):
                store[v] = x
        if kind == 'if':
            b, o = asgs(3), asgs(3)
            nouts = rnd.randint(0, len(vars_))
            c = rnd.random() < 0.5
            be.if_stmt(c, closure(store, b), closure(store, o), get_state, set_state, tuple(vars_), nouts)
            cases.append('PIf %s %d %s %s %s %s %s' % (coq_strs(vars_), nouts, 'true' if c else 'false', coq_asgs(b), coq_asgs(o),
                                                    coq_nats(init), coq_nats([store[v] for v in pool])))
        elif kind == 'while':
            tv = rnd.choice(pool[:4])
            k = rnd.randint(0, 6)
            b = [(tv, tv, tv, 1)] + [a for a in asgs(3) if a[0] != tv]       # tv := 2*tv + 1 and nothing else writes it: the loop ends
            be.while_stmt(lambda: store[tv] < k, closure(store, b), get_state, set_state, tuple(vars_), {})
            cases.append('PWhile %s %s %d %s %s %s' % (coq_strs(vars_), vlib.coq_str(tv), k, coq_asgs(b), coq_nats(init),
                                                      coq_nats([store[v] for v in pool])))
        else:
            items = [rnd.randint(0, 5) for _ in range(rnd.randint(0, 4))]
            b = asgs(3)
            if rnd.random() < 0.5:
                tv, k = rnd.choice(pool[:4]), rnd.randint(0, 12)
                extra, ct = (lambda: store[tv] < k), '(Some (%s, %d))' % (vlib.coq_str(tv), k)
            else:
                extra, ct = None, 'None'
            be.for_stmt(items, extra, closure(store, b, 'i'), get_state, set_state, tuple(vars_), {})
            cases.append('PFor %s %s %s %s %s %s' % (coq_strs(vars_), coq_nats(items), ct, coq_asgs(b), coq_nats(init),
                                                    coq_nats([store[v] for v in pool])))
    return cases


def coq_nats(xs):
    return '[' + '; '.join(str(x) for x in xs) + ']'


def coq_asgs(b):
    return '[' + '; '.join('(%s, %s, %s, %d)' % (vlib.coq_str(t), vlib.coq_str(x), vlib.coq_str(y), k) for t, x, y, k in b) + ']'


def protocol_tie(run, rnd, n):
    """the Coq model of the tracing protocol (Ctrl/Tracing.v: if_fun, while_harness, for_harness) against TracingBackend"""
    cases = protocol_cases(rnd, n)
    body = ['From Coq Require Import List String Bool Arith.', 'Import ListNotations.',
            'Require Import MV.Ctrl.BlockSyntax MV.Generated.C02_gen MV.Ctrl.BlockVars MV.Ctrl.Tracing MV.Ctrl.TracingCheck.',
            'Local Open Scope string_scope.',
            'Definition cases : list pcase := [', ';\n'.join('(%s)' % c for c in cases), '].',
            'Fixpoint bad (i : nat) (l : list pcase) : list nat := match l with [] => [] | c :: r => if ok c then bad (S i) r else i :: bad (S i) r end.',
            'Eval vm_compute in bad 0 cases.']
    rc, out = vlib.coq_eval('C02', 'protocol', '\n'.join(body), timeout=600)
    bad = vlib.parse_coq_list_of_nat(out) if rc == 0 else None
    run.extra['tracing_protocol_cases'] = len(cases)
    run.count(len(cases))
    if bad is None:
        return 'evaluation of the tracing-protocol model failed: ' + out[-400:]
    if bad:
        return 'the Coq tracing-protocol model and TracingBackend disagree on case %s' % cases[bad[0]]
    return None


# --------------------------------------------------------------------------------------------------- whole-program tie
class _PG(object):
    """random jump-free pure programs over the T / P / R world, as Python source and as a term of the concrete language of
    coq/Ctrl/TracingProgExec.v (cblock); reads only definitely assigned names; loop header sets by fixpoint iteration of the
    same structural liveness the Coq model defines (Coq re-checks them: chk_b)"""

    def __init__(self, rnd):
        self.r = rnd
        self.k = 0
        self.nloop = 0

    def key(self):
        self.k += 1
        return self.k

    def reads(self, defined):
        d = sorted(defined)
        return self.r.sample(d, min(len(d), self.r.randint(0, 3)))

    def block(self, defined, depth, budget):
        """-> (list of statements, definitely-defined set after)"""
        out = []
        n = self.r.randint(1, 3)
        for _ in range(n):
            if budget[0] <= 0:
                break
            budget[0] -= 1
            c = self.r.choice(['asg', 'asg', 'asg', 'if', 'while', 'for'] if depth < 3 else ['asg'])
            if c == 'asg':
                t = self.r.choice(['x', 'y', 'z', 'w'])
                out.append(('asg', self.key(), self.reads(defined), t))
                defined = defined | {t}
            elif c == 'if':
                k, rd = self.key(), self.reads(defined)
                b1, d1 = self.block(defined, depth + 1, budget)
                b2, d2 = self.block(defined, depth + 1, budget) if self.r.random() < 0.6 else ([], defined)
                if not b1:
                    b1 = [('asg', self.key(), self.reads(defined), 'x')]
                    d1 = defined | {'x'}
                out.append(('if', k, rd, b1, b2))
                defined = d1 & d2
            elif c == 'while':
                self.nloop += 1
                cnt = 'n%d' % self.nloop
                out.append(('const', cnt, 0))
                defined = defined | {cnt}
                k, rd = self.key(), self.reads(defined)
                body, _ = self.block(defined, depth + 1, budget)
                out.append(('while', cnt, self.r.randint(1, 3), k, rd, [('inc', cnt)] + body))
            else:
                self.nloop += 1
                tg = 'i%d' % self.nloop
                k = self.key()
                body, _ = self.block(defined | {tg}, depth + 1, budget)
                if not body:
                    body = [('asg', self.key(), [tg], 'y')]
                out.append(('for', k, tg, body))
        return out, defined


def _pg_live(block, O):
    """structural liveness + loop annotations: -> (annotated block, live-in)"""
    ann = []
    live = set(O)
    for st in reversed(block):
        kind = st[0]
        if kind == 'asg':
            live = set(st[2]) | (live - {st[3]})
            ann.append(st)
        elif kind == 'const':
            live = live - {st[1]}
            ann.append(st)
        elif kind == 'inc':
            live = live | {st[1]}
            ann.append(st)
        elif kind == 'if':
            a1, l1 = _pg_live(st[3], live)
            a2, l2 = _pg_live(st[4], live)
            ann.append(('if', st[1], st[2], a1, a2))
            live = set(st[2]) | l1 | l2
        elif kind == 'while':
            tu = {st[1]} | set(st[4])
            L = set()
            while True:
                ab, lb = _pg_live(st[5], L)
                new = tu | live | lb | L
                if new == L:
                    break
                L = new
            ann.append(('while', st[1], st[2], st[3], st[4], ab, sorted(L)))
            live = L
        else:
            L = set()
            while True:
                ab, lb = _pg_live(st[3], L)
                new = live | (lb - {st[2]}) | L
                if new == L:
                    break
                L = new
            ann.append(('for', st[1], st[2], ab, sorted(L)))
            live = L
    ann.reverse()
    return ann, live


def _pg_py(block, ind):
    out = []
    pad = '    ' * ind
    for st in block:
        kind = st[0]
        if kind == 'asg':
            out.append('%s%s = T(%s)' % (pad, st[3], ', '.join([str(st[1])] + st[2])))
        elif kind == 'const':
            out.append('%s%s = %d' % (pad, st[1], st[2]))
        elif kind == 'inc':
            out.append('%s%s += 1' % (pad, st[1]))
        elif kind == 'if':
            out.append('%sif P(%s):' % (pad, ', '.join([str(st[1])] + st[2])))
            out += _pg_py(st[3], ind + 1)
            if st[4]:
                out.append('%selse:' % pad)
                out += _pg_py(st[4], ind + 1)
        elif kind == 'while':
            out.append('%swhile %s < %d and P(%s):' % (pad, st[1], st[2], ', '.join([str(st[3])] + st[4])))
            out += _pg_py(st[5], ind + 1)
        else:
            out.append('%sfor %s in R(%d):' % (pad, st[2], st[1]))
            out += _pg_py(st[3], ind + 1)
    return out


def _pg_coq(block):
    if not block:
        return 'CNil'
    st = block[0]
    kind = st[0]
    if kind == 'asg':
        h = 'CAsg %d %s %s' % (st[1], coq_strs(st[2]), vlib.coq_str(st[3]))
    elif kind == 'const':
        h = 'CConst %s %d' % (vlib.coq_str(st[1]), st[2])
    elif kind == 'inc':
        h = 'CInc %s' % vlib.coq_str(st[1])
    elif kind == 'if':
        h = 'CIf (TP %d %s) (%s) (%s)' % (st[1], coq_strs(st[2]), _pg_coq(st[3]), _pg_coq(st[4]))
    elif kind == 'while':
        h = 'CWhile %s (TBound %s %d %d %s) (%s)' % (coq_strs(st[6]), vlib.coq_str(st[1]), st[2], st[3], coq_strs(st[4]), _pg_coq(st[5]))
    else:
        h = 'CFor %s %d %s (%s)' % (coq_strs(st[4]), st[1], vlib.coq_str(st[2]), _pg_coq(st[3]))
    return 'CCons (%s) (%s)' % (h, _pg_coq(block[1:]))


def program_tie(run, rnd, n):
    """whole-program correspondence: random jump-free nested programs are converted by the real pipeline with the tracing backend
    injected and run; the Coq model (structural liveness, generated selection formulas, protocol model, both interpreters of
    Ctrl/TracingProgExec.v) must pass its own checker on the same program and return the same values"""
    from malt.impl import api
    progs_, srcs = [], []
    for j in range(n):
        g = _PG(rnd)
        body, defined = g.block({'a', 'b', 'c'}, 0, [rnd.randint(3, 9)])
        ret = sorted(rnd.sample(sorted(defined), rnd.randint(1, min(3, len(defined)))))
        ann, _ = _pg_live(body, set(ret))
        src = '\n'.join(['def f(a, b, c):'] + _pg_py(body, 1) + ['    return (%s,)' % ', '.join(ret)]) + '\n'
        progs_.append((ann, ret))
        srcs.append(src)
    old = api._TRANSPILER
    api._TRANSPILER = make_transpiler()
    cases, skipped = [], 0
    recorder = BlockVarsRecorder()
    recorder.__enter__()
    try:
        mod = convrun.load_module(srcs)
        mod.__dict__.update(pure_world_globals())
        for i, src in enumerate(srcs):
            f = getattr(mod, 'f%d' % i)
            recorder.src = i
            try:
                with warnings.catch_warnings():
                    warnings.simplefilter('ignore')
                    with vlib.time_limit(60):
                        gfn = api.to_graph(f, recursive=False)
                res = gfn(1, 2, 3)
                nat = f(1, 2, 3)
            except (NameError, UnboundLocalError):
                skipped += 1         # the known findings about unbound state variables under a tracing backend: the oracle's business
                continue
            if nat != res:
                skipped += 1         # original and converted differ: reported by the oracle below with its own classification
                continue
            ann, ret = progs_[i]

            def simple(qs):
                return coq_strs(sorted(str(q) for q in qs if re.match(r'^([abcxyzw]|[ni]\d+)$', str(q))))   # the program's own variables
            real = '[' + '; '.join('(%s, %s, %s)' % (simple(r['modified']), simple(r['live_in']), simple(r['live_out']))
                                   for r in recorder.records if r.get('src') == i and 'error' not in r) + ']'
            cases.append((src, '(%d%%nat, 1, 2, 3, %s, %s, %s, %s)' % (i, _pg_coq(ann), coq_strs(ret), coq_nats(res), real)))
    finally:
        recorder.__exit__()
        api._TRANSPILER = old
        convrun.cleanup()
    body = ['From Coq Require Import List String Bool Arith NArith.', 'Import ListNotations.',
            'Require Import MV.Ctrl.BlockSyntax MV.Generated.C02_gen MV.Ctrl.BlockVars MV.Ctrl.Tracing MV.Ctrl.TracingProg MV.Ctrl.TracingProgExec.',
            'Local Open Scope string_scope.', 'Local Open Scope N_scope.',
            'Definition cases : list (nat * N * N * N * cblock * list name * list N * list (list name * list name * list name)) := [',
            ';\n'.join(c for _, c in cases), '].',
            'Definition code (c : nat * N * N * N * cblock * list name * list N * list (list name * list name * list name)) : nat :=',
            '  match c with (_, a, b, c0, p, ret, e, real) => pcase_code 400 a b c0 p ret e real end.',
            'Eval vm_compute in flat_map (fun c => match c with (i, _, _, _, _, _, _, _) => if Nat.eqb (code c) 0 then [] else [i; code c] end) cases.']
    rc, out = vlib.coq_eval('C02', 'programs', '\n'.join(body), timeout=900)
    bad = vlib.parse_coq_list_of_nat(out) if rc == 0 else None
    run.extra['whole_program_cases'] = len(cases)
    run.extra['whole_program_skipped'] = skipped
    run.count(len(cases))
    if bad is None:
        return 'evaluation of the whole-program tracing model failed: ' + out[-400:]
    if bad:
        why = {1: 'the loop header sets are not closed under the structural liveness of the model', 2: 'an interpreter ran out of fuel',
               3: 'the tracing interpreter of the model returns other values than the real pipeline under the tracing backend',
               4: 'the native interpreter of the model returns other values than the program',
               5: 'the (modified, live-in, live-out) sets of the control statements in the model differ from the ones the real '
                  '_get_block_vars was applied to (activity / liveness vs the structural analysis of the model)'}.get(bad[1], '?')
        return 'the Coq whole-program tracing model and the real pipeline disagree (%s) on:\n%s' % (why, srcs[bad[0]])
    return None


def make_transpiler():
    from malt.impl import api
    import importlib.util

    class Tracing(api.PyToPy):
        def get_extra_locals(self):
            if self._extra_locals is None:
                base = super(Tracing, self).get_extra_locals()['ag__']
                spec = importlib.util.spec_from_loader('malt_tracing', None)
                mod = importlib.util.module_from_spec(spec)
                mod.__dict__.update(base.__dict__)
                be = TracingBackend(mod)
                mod.if_stmt = be.if_stmt
                mod.while_stmt = be.while_stmt
                mod.for_stmt = be.for_stmt
                self.backend = be
                self._extra_locals = {'ag__': mod}
            return self._extra_locals
    return Tracing()


def pure_world_globals():
    def T(k, *reads):
        h = k * 7919
        for r in reads:
            h = (h * 31 + (r if isinstance(r, int) else hash(repr(r)))) % 1000003
        return h

    def P(k, *reads):
        return T(k + 17, *reads) % 3 != 0

    def R(k):
        return range(k % 4)
    return {'T': T, 'P': P, 'R': R}


def gen_pure(rnd, mutation=False, global_=False):
    """side-effect-free (apart from writes to the argument objects m / o when mutation=True), definitely-assigned
    programs: conditions and trip counts are pure functions"""
    opts = progs.Opts(loop_else=False, reads='safe', try_=False, with_=False, raise_=False, max_stmts=12,
                      fresh_for_targets=True, nested_def=False, mutation=mutation, append=False, global_=global_)
    src = progs.gen_function(rnd, opts)
    src = re.sub(r'\bD\(', 'P(', src)
    src = re.sub(r'\bL\((\d+)\)', r'R(\1)', src)
    # bound every while loop with its own counter
    out = []
    k = 0
    for line in src.split('\n'):
        m = re.match(r'^(\s*)while (.*):$', line)
        if m:
            k += 1
            ind = m.group(1)
            out.append('%sn%d = 0' % (ind, k))
            out.append('%swhile n%d < 3 and %s:' % (ind, k, m.group(2)))
            out.append('%s    n%d += 1' % (ind, k))
        else:
            out.append(line)
    return '\n'.join(out)


def _remember(e):
    tb = e.__traceback__
    inner = None
    while tb is not None:
        inner = tb.tb_frame.f_code.co_name
        tb = tb.tb_next
    _last_exc.clear()
    _last_exc.update({'type': type(e).__name__, 'name': getattr(e, 'name', None), 'frame': inner})


def is_for_target_body_finding(src):
    """some for loop assigns its own target again inside its body (plain, augmented or tuple assignment): liveness kills
    the target on the loop-exit edge (root cause: C07's known finding for-target-killed-on-exit-edge), so a statement of the
    body that reassigns the target does not declare it as an output"""
    import ast
    for n in ast.walk(ast.parse(src)):
        if isinstance(n, ast.For):
            tg = set(t.id for t in ast.walk(n.target) if isinstance(t, ast.Name))
            for st in n.body:
                for m in ast.walk(st):
                    if isinstance(m, (ast.Assign, ast.AugAssign, ast.AnnAssign)):
                        tl = m.targets if isinstance(m, ast.Assign) else [m.target]
                        for t in tl:
                            if tg & set(x.id for x in ast.walk(t) if isinstance(x, ast.Name) and isinstance(x.ctx, ast.Store)):
                                return True
    return False


def is_prev_iteration_finding(src, b):
    """the converted function raised NameError/UnboundLocalError from inside a generated get_state function, for a
    variable that the program assigns inside a loop body (it is local to the generated loop body function and, on
    the first iteration, still unbound when the tracing backend reads the state of a statement nested in the body)"""
    if b[0] != 'raise' or b[1] != 'NameError' or not _last_exc or not str(_last_exc.get('frame', '')).startswith('get_state'):
        return False
    v = _last_exc.get('name')
    if not v:
        return False
    for loop in ast.walk(ast.parse(src)):
        if isinstance(loop, (ast.For, ast.While)):
            for n in ast.walk(loop):
                if isinstance(n, ast.Name) and n.id == v and isinstance(n.ctx, ast.Store):
                    return True
    return False


def is_speculative_jump_finding(src, b):
    """the converted function raised UnboundLocalError from Undefined.read (ag__.ld of a placeholder) and the program
    has a return / break / continue nested in a compound statement: the jump is lowered to a flag and the code it
    used to skip sits in an `if not flag:` branch that a both-branches backend runs speculatively"""
    if b[0] != 'raise' or b[1] != 'NameError' or not _last_exc or _last_exc.get('frame') != 'read':
        return False
    tree = ast.parse(src)
    fn = tree.body[0]
    for st in fn.body:
        for n in ast.walk(st):
            if isinstance(n, (ast.Return, ast.Break, ast.Continue)) and n is not st:
                return True
    return False


def for_target_program(rnd):
    """a pure program whose for-loop targets are also assigned once, at the top of the function, and read at its end:
    with zero iterations the value from before the loop must survive the loop statement (the target is loop state)"""
    src = gen_pure(rnd)
    targets = sorted(set(re.findall(r'^\s*for (\w+) in ', src, re.M)))
    if not targets:
        return src
    lines = src.rstrip('\n').split('\n')
    pre = ['    %s = T(%d)' % (t, 900 + j) for j, t in enumerate(targets)]
    tail = '    return T(998, %s)' % ', '.join(targets)
    if re.match(r'^    return ', lines[-1]):
        tail = '    return (%s, T(998, %s))' % (lines[-1].strip()[len('return '):], ', '.join(targets))
        lines = lines[:-1]
    return '\n'.join([lines[0]] + pre + lines[1:] + [tail]) + '\n'


def element_key_programs():
    """element state d[const] for every kind of constant key (str, int, float, bool, None, bytes, complex): written in
    branches and loop bodies of a dict created in the function and read afterwards -- the element is state of the statement
    whatever the type of the constant"""
    keys = ["'k'", "'other'", '3', '7', '2.5', 'True', 'False', 'None', "b'k'", '1j']
    out = []
    n = 0
    for i, k1 in enumerate(keys):
        for k2 in keys[i + 1:]:
            if eval(k1) == eval(k2) or n % 3 == 2 and False:
                continue
            n += 1
            if n % 2:      # every second pair, to keep the stream short: each key still occurs with four others
                continue
            base = 40 * n
            L = ['def f(a, b, c):',
                 '    d = {%s: T(%d, a), %s: T(%d, b)}' % (k1, base + 1, k2, base + 2),
                 '    if P(%d, a):' % (base + 3),
                 '        d[%s] = T(%d, d[%s])' % (k1, base + 4, k1),
                 '    else:',
                 '        d[%s] = T(%d, d[%s])' % (k2, base + 5, k2),
                 '    for i1 in R(%d):' % (4 * base + 3),
                 '        if P(%d, i1):' % (base + 6),
                 '            d[%s] = T(%d, d[%s], i1)' % (k2, base + 7, k2),
                 '        d[%s] = T(%d, d[%s])' % (k1, base + 8, k1),
                 '    return (d[%s], d[%s])' % (k1, k2)]
            out.append('\n'.join(L) + '\n')
    return out


def jump_pair_programs():
    """pure programs with two different kinds of jump in one loop body (break + return, continue + return, ...): each lowering
    pass attaches its own flag and extra loop test to the loop and the flags become loop state; several key offsets so that the
    pure conditions take different paths"""
    out = []
    jumps = {'break': 'break', 'continue': 'continue', 'return': 'return T({r}, x)'}
    for loop in ('for i1 in R({l}):', 'while n1 < 3 and P({l}, n1):'):
        for j1 in sorted(jumps):
            for j2 in sorted(jumps):
                if j1 == j2:
                    continue
                for off in range(8):
                    k = [100 * off + 10]

                    def K():
                        k[0] += 1
                        return k[0]
                    L = ['def f(a, b, c):', '    x = T(%d, a)' % K(), '    n1 = 0', '    ' + loop.format(l=4 * K() + 3)]
                    body = []
                    if loop.startswith('while'):
                        body.append('n1 += 1')
                    it = 'i1' if loop.startswith('for') else 'n1'
                    # off 0-3: pure pseudo-random conditions; off 4-7: the first jump never / the second always taken (and
                    # the other way round), so that the loop certainly goes on after a jump site was passed
                    c1 = {4: '%s > 5' % it, 5: '%s > 5' % it, 6: 'x >= 0', 7: '%s >= 1' % it}.get(off, 'not P(%d, %s, x)' % (K(), it))
                    c2 = {4: 'x >= 0', 5: '%s >= 1' % it, 6: '%s > 5' % it, 7: 'x >= 0'}.get(off, 'P(%d, x)' % K())
                    body += ['if %s:' % c1, '    ' + jumps[j1].format(r=K()), 'x = T(%d, x, %s)' % (K(), it),
                             'if %s:' % c2, '    ' + jumps[j2].format(r=K()), 'x = T(%d, x)' % K()]
                    L += ['        ' + l for l in body] + ['    return T(%d, x, n1)' % K()]
                    out.append('\n'.join(L) + '\n')
    return out


def closure_programs(rnd):
    """local functions closing over a variable that a later control statement assigns, reached directly, through a
    sibling closure, a two-hop chain or an alias; the variable is read after the statement only through them"""
    out = []
    k = [100]

    def key():
        k[0] += 1
        return k[0]
    for ctrl in ('if', 'ifelse', 'while', 'for'):
        for via in ('direct', 'sibling', 'twohop', 'alias', 'container', 'nested', 'nested2'):
            for read_inside in (False, True):
                L = ['def f(a, b, c):', '    x = T(%d, a)' % key(), '    def g():', '        return T(%d, x)' % key()]
                if via == 'nested':        # the read sits one function level further down; g itself never mentions x
                    L = L[:2] + ['    def g():', '        def gi():', '            return T(%d, x)' % key(), '        return gi()']
                elif via == 'nested2':
                    L = L[:2] + ['    def g():', '        def gi():', '            def gj():', '                return T(%d, x)' % key(),
                                 '            return gj()', '        return T(%d, gi())' % key()]
                call = 'g()'
                if via == 'sibling':
                    L += ['    def h():', '        return g()']
                    call = 'h()'
                elif via == 'twohop':
                    L += ['    def h():', '        return g()', '    def m():', '        return h()']
                    call = 'm()'
                elif via == 'alias':
                    L += ['    k = g']
                    call = 'k()'
                elif via == 'container':
                    L += ['    fs = [g]']
                    call = 'fs[0]()'
                rhs = 'T(%d, b%s)' % (key(), ', x' if read_inside else '')
                if ctrl == 'if':
                    L += ['    if P(%d, %s):' % (key(), rnd.choice('abc')), '        x = ' + rhs]
                elif ctrl == 'ifelse':
                    L += ['    if P(%d, %s):' % (key(), rnd.choice('abc')), '        x = ' + rhs, '    else:', '        c = T(%d, c)' % key()]
                elif ctrl == 'while':
                    L += ['    n = 0', '    while n < 2 and P(%d, n):' % key(), '        n += 1', '        x = ' + rhs]
                else:
                    L += ['    for i in R(%d):' % key(), '        x = ' + rhs]
                L += ['    return T(%d, %s)' % (key(), call)]
                out.append('\n'.join(L) + '\n')
    # one helper NAME defined on several merging paths, each definition closing over another variable: every
    # definition that may reach the call keeps its own closure variables live across the later control statement
    for ctrl in ('if', 'ifelse', 'while', 'for'):
        for shape in ('branches', 'elif', 'loopdef', 'branch-redef'):
            for swap in (False, True):
                u, v = ('y', 'x') if swap else ('x', 'y')
                L = ['def f(a, b, c):', '    x = T(%d, a)' % key(), '    y = T(%d, b)' % key()]
                if shape == 'branches':
                    L += ['    if P(%d, %s):' % (key(), rnd.choice('abc')), '        def g():', '            return T(%d, %s)' % (key(), u),
                          '    else:', '        def g():', '            return T(%d, %s)' % (key(), v)]
                elif shape == 'elif':
                    L += ['    if P(%d, a):' % key(), '        def g():', '            return T(%d, %s)' % (key(), u),
                          '    elif P(%d, b):' % key(), '        def g():', '            return T(%d, %s, a)' % (key(), v),
                          '    else:', '        def g():', '            return T(%d, c)' % key()]
                elif shape == 'loopdef':
                    L += ['    def g():', '        return T(%d, %s)' % (key(), u),
                          '    for j in R(%d):' % key(), '        def g():', '            return T(%d, %s)' % (key(), v)]
                else:
                    L += ['    def g():', '        return T(%d, %s)' % (key(), u),
                          '    if P(%d, %s):' % (key(), rnd.choice('abc')), '        def g():', '            return T(%d, %s)' % (key(), v)]
                asg = ['x = T(%d, b)' % key(), 'y = T(%d, c)' % key()]
                if ctrl == 'if':
                    L += ['    if P(%d, %s):' % (key(), rnd.choice('abc'))] + ['        ' + t for t in asg]
                elif ctrl == 'ifelse':
                    L += ['    if P(%d, %s):' % (key(), rnd.choice('abc'))] + ['        ' + t for t in asg] + ['    else:', '        c = T(%d, c)' % key()]
                elif ctrl == 'while':
                    L += ['    n = 0', '    while n < 2 and P(%d, n):' % key(), '        n += 1'] + ['        ' + t for t in asg]
                else:
                    L += ['    for i in R(%d):' % key()] + ['        ' + t for t in asg]
                L += ['    return T(%d, g())' % key()]
                out.append('\n'.join(L) + '\n')
    return out


class _Obj(object):
    def __init__(self):
        self.v = 7
        self.u = 3


def run_pure(fn, mutation=False):
    r = _run_pure(fn, mutation)
    g = getattr(fn, '__globals__', None)
    return r + (('G', g.get('G')),) if isinstance(g, dict) else r


def _run_pure(fn, mutation=False):
    g = getattr(fn, '__globals__', None)
    if isinstance(g, dict):
        g['G'] = 10                # the module global some programs declare and write
    if mutation:
        m, o = [5, 6], _Obj()
        holder = [o, m]            # the caller's alias: how the mutation is observed afterwards
        try:
            r = fn(1, 2, 3, m, o)
            return ('return', repr(r), repr(holder[1]), holder[0].v, holder[0].u)
        except RecursionError:
            return ('raise', 'RecursionError')
        except BaseException as e:  # noqa
            _remember(e)
            return ('raise', convrun.canon_exc(type(e).__name__), repr(holder[1]), holder[0].v, holder[0].u)
    try:
        return ('return', repr(fn(1, 2, 3)))
    except RecursionError:
        return ('raise', 'RecursionError')
    except BaseException as e:  # noqa
        _remember(e)
        return ('raise', convrun.canon_exc(type(e).__name__))


def blockvars_compare(cases, name):
    """evaluates the Coq model of _get_block_vars on the cases (index, modified, live_in, live_out, nonlocals, globals, scope_vars,
    nouts) and compares with what the real function returned; None when all agree"""
    lines = ['(%d, mkctx %s %s %s %s %s, %s, %d)' % (i, coq_strs(m), coq_strs(li), coq_strs(lo), coq_strs(nl), coq_strs(gl),
                                                   coq_strs(sv), no) for i, m, li, lo, nl, gl, sv, no in cases]
    body = ['From Coq Require Import List String Bool Arith.', 'Import ListNotations.',
            'Require Import MV.Ctrl.BlockSyntax MV.Generated.C02_gen MV.Ctrl.BlockVars.', 'Local Open Scope string_scope.',
            'Definition same_set (a b : list name) : bool := forallb (fun x => mem x b) a && forallb (fun x => mem x a) b.',
            'Definition ok (c : nat * ctx * list name * nat) : bool := match c with (_, cx, sv, no) =>',
            '  Nat.eqb (nouts cx) no && Nat.eqb (List.length (state cx)) (List.length sv) && same_set (outs cx) (firstn no sv) && same_set (ins cx) (skipn no sv) end.',
            'Definition cases : list (nat * ctx * list name * nat) := [', ';\n'.join(lines), '].',
            'Eval vm_compute in map (fun c => match c with (i, _, _, _) => i end) (filter (fun c => negb (ok c)) cases).']
    rc, out = vlib.coq_eval('C02', name, '\n'.join(body), timeout=600)
    bad = vlib.parse_coq_list_of_nat(out) if rc == 0 else None
    if bad is None:
        return 'model evaluation failed: ' + out[-400:]
    if bad:
        byid = dict((c[0], c) for c in cases)
        return 'model and _get_block_vars disagree, e.g. on %r' % (byid[bad[0]][1:],)
    return None


def check(run):
    quick = run.tier == 'quick'
    run.rule = ('(a) random (modified, live_in, live_out, nonlocals, globals) sets through the real _get_block_vars vs the Coq model; '
                '(b) seeded pure, definitely-assigned programs (assign/aug/tuple, if/elif/else, bounded while, for, break/continue/'
                'return at any depth) converted with a tracing backend injected for if_stmt/while_stmt/for_stmt and compared with the '
                'original; non-trivial = distinct program in which the backend ran at least 2 operator calls; (a\') concrete if/while/for '
                'protocol instances over a dict store through TracingBackend vs the Coq protocol model of the semantic theorems; (c) every '
                'context the real _get_block_vars was applied to while those programs were converted vs the model, and the loop '
                'theorems\' hypothesis live_out <= live_in (modulo names the header binds) on the real annotations')
    tie_ok, tie_msg = True, ''
    try:
        generate()
    except c02_blockvars.Untranslatable as e:
        tie_ok, tie_msg = False, str(e)
        run.note(tie_msg)
    if tie_ok:
        vlib.standard_proof_step(run, ['Ctrl/BlockVarsProofs.vo'])
    rnd = random.Random(run.seed * 65537 + 2)
    corr_bad = None
    cases = blockvars_cases(rnd, 400 if quick else 4000)
    run.count(len(cases))
    if tie_ok:
        corr_bad = blockvars_compare(cases, 'blockvars')
        run.extra['blockvars_cases'] = len(cases)
    # (a') the protocol model of the semantic theorem against the backend the oracle injects
    if tie_ok and not corr_bad:
        vlib.coq_make(['Ctrl/TracingCheck.vo'])
        corr_bad = protocol_tie(run, rnd, 300 if quick else 3000)
    # (a'') whole programs: real pipeline + injected backend vs the Coq model of the program-level theorem
    if tie_ok and not corr_bad:
        vlib.coq_make(['Ctrl/TracingProgExec.vo'])
        corr_bad = program_tie(run, rnd, 120 if quick else 1200)
    # (b) tracing backend oracle
    from malt.impl import api
    failures = []
    nprog = 150 if quick else 2000
    srcs = closure_programs(rnd) + jump_pair_programs() + element_key_programs() + [gen_pure(rnd, mutation=(i % 3 == 0), global_=(i % 4 == 1)) for i in range(nprog)] + \
        [for_target_program(rnd) for i in range(nprog // 4)]
    cdir = os.path.join(vlib.ROOT, 'corpus', 'C02')
    csrcs = []
    if os.path.isdir(cdir):
        for fnm in sorted(os.listdir(cdir)):
            if fnm.endswith('.py'):
                csrcs.append(open(os.path.join(cdir, fnm)).read())
    allsrc = csrcs + srcs
    old = api._TRANSPILER
    tr = make_transpiler()
    api._TRANSPILER = tr
    recorder = BlockVarsRecorder()
    recorder.__enter__()
    try:
        mod = convrun.load_module(allsrc)
        mod.__dict__.update(pure_world_globals())
        for i, src in enumerate(allsrc):
            f = getattr(mod, 'f%d' % i)
            recorder.src = src
            try:
                with warnings.catch_warnings():
                    warnings.simplefilter('ignore')
                    with vlib.time_limit(60):
                        g = api.to_graph(f, recursive=False)
            except Exception as e:  # noqa
                failures.append(('conversion failed with %s: %s' % (type(e).__name__, str(e)[:160]), src))
                continue
            before = tr.backend.calls
            mut = 'm, o' in src.split('\n')[0]
            a = run_pure(f, mut)
            b = run_pure(g, mut)
            run.count()
            ncalls = tr.backend.calls - before
            if ncalls >= 2:
                run.nontriv(src)
            if a != b:
                if a[0] == 'raise':
                    continue     # the original itself fails (e.g. TypeError): outside "computes what the original computes"
                if is_prev_iteration_finding(src, b):
                    run.violation('get_state raised', {}, classify=KNOWN_PREV_ITER)
                    continue
                if is_speculative_jump_finding(src, b):
                    run.violation('speculative branch read an undefined variable', {}, classify=KNOWN_SPECULATIVE)
                    continue
                if b[0] == 'return' and is_for_target_body_finding(src):
                    run.violation('for-loop target reassigned in the body is not an output', {}, classify=KNOWN_FOR_TARGET_BODY)
                    continue
                failures.append(('tracing backend result differs: original %r, converted %r' % (a, b), src))
            if len(run.samples) < 3 and ncalls >= 3:
                run.sample({'program': src, 'result': a, 'operator_calls': ncalls})
        run.extra['programs'] = len(allsrc)
    finally:
        recorder.__exit__()
        api._TRANSPILER = old
        convrun.cleanup()
    # (c) the contexts the formulas were really applied to while those programs were converted: against the model, and
    #     the loop theorems' hypothesis `what is live after a loop is live at its header` on the real annotations
    real_cases, loop_bad, nloops = real_context_cases(recorder.records, 100000)
    run.extra['real_contexts'] = len(real_cases)
    run.extra['real_loop_contexts'] = nloops
    run.count(len(real_cases))
    if tie_ok and real_cases and not corr_bad:
        corr_bad = blockvars_compare(real_cases, 'realctx')
    for missing, kind, src in loop_bad[:1]:
        failures.append(('live after the %s loop but not live at its header (hypothesis of tracing_while_sound / tracing_for_sound '
                         'fails on the real annotations): %s' % (kind, ', '.join(missing)), src))
    seen = set()
    for what, src in failures:
        key = re.sub(r'\d+', 'N', what)[:40]
        if key in seen:
            continue
        seen.add(key)
        run.violation(what, {'program': src, 'backend': 'tools/props/c02.py TracingBackend', 'args': [1, 2, 3]})
    if not failures and (not tie_ok or corr_bad):
        run.violation('tie between the state-variable model and control_flow.py broke: ' + (tie_msg or corr_bad),
                      {'broken': tie_msg or corr_bad, 'searched': 'tracing-backend oracle found no failing input'}, found_input=False)
    run.assumptions += ['the tracing protocol is the one documented in g3doc/reference/operators.md as implemented by TracingBackend',
                        'programs are side-effect free and definitely assigned (the property exempts the rest)',
                        'liveness soundness itself is property C07']


def replay(path):
    import json
    from malt.impl import api
    doc = json.load(open(path))
    src = doc.get('replay', {}).get('program')
    if not src:
        print(json.dumps(doc, indent=1))
        return 0
    old = api._TRANSPILER
    api._TRANSPILER = make_transpiler()
    try:
        mod = convrun.load_module([src])
        mod.__dict__.update(pure_world_globals())
        g = api.to_graph(mod.f0, recursive=False)
        mut = 'm, o' in src.split('\n')[0]
        a, b = run_pure(mod.f0, mut), run_pure(g, mut)
        print(src)
        print('original', a, 'converted under tracing backend', b)
        return 0 if a == b or a[0] == 'raise' else 1
    finally:
        api._TRANSPILER = old
        convrun.cleanup()
