"""C04 -- every overloadable construct is routed through its operator (DESIGN.md 4/C04).

 1. regenerate coq/Generated/C04_gen.v (pass order, gates, per-class traversal tables,
    replaced kinds, kinds introduced by templates, CPython grammar) -- fail closed
 2. re-check the obligations in coq/Properties/C04 (reflective theorem + table_ok of the
    generated tables for every option set)
 3. tie: (a) behavioural probing of the extracted tables: one marker construct in every
    syntactic position, the REAL passes are run one by one and observed: a pass the table
    says eliminates the marker must do so exactly where the table says the position is
    traversed; kinds that appear must be in the table's introduced sets;
    (b) correspondence: the Coq model (run_pipeline, evaluated by vm_compute) must predict
    the set of native constructs the real pipeline leaves, on every generated program
 4. property-level oracle on the real code: static (no native construct outside the
    documented exemptions in the generated code) and dynamic (every execution of a user
    construct goes through its operator; marker counts agree with the original run)
"""
import ast
import importlib.util
import itertools
import json
import os
import random
import re
import shutil
import sys
import textwrap
import threading
from concurrent.futures import ThreadPoolExecutor

from lib import vlib
from translate import c04_tables

KNOWN_IFEXP = 'C04-ifexp-children-not-visited'

# the Python copy of Route/Pipeline.v spec_exempt / spec_natives (equality is checked in Coq on every run)
EXEMPT = [('With', 'items'), ('AsyncWith', 'items'),
          ('comprehension', 'target'), ('comprehension', 'iter'), ('comprehension', 'ifs'),
          ('arguments', 'posonlyargs'), ('arguments', 'args'), ('arguments', 'vararg'),
          ('arguments', 'kwonlyargs'), ('arguments', 'kwarg'), ('FunctionDef', 'type_params')]
NATIVES = ['If', 'While', 'For', 'Break', 'Continue', 'Return', 'BoolOp', 'UnaryOp.Not', 'IfExp', 'Call']
SKIP_SORTS = ('expr_context', 'boolop', 'operator', 'unaryop', 'cmpop')
DEBUGGER = ('pdb.set_trace', 'ipdb.set_trace', 'breakpoint')


# ------------------------------------------------------------------ generate

_GEN = {}


def generate():
    text, passes, meta = c04_tables.translate(vlib.REPO)
    vlib.write_if_changed(os.path.join(vlib.COQ, 'Generated', 'C04_gen.v'), text)
    _GEN['passes'] = passes
    _GEN['meta'] = meta
    return passes, meta


# ------------------------------------------------------------------ AST observation

def dotted(e):
    parts = []
    while isinstance(e, ast.Attribute):
        parts.append(e.attr)
        e = e.value
    if isinstance(e, ast.Name):
        parts.append(e.id)
        return '.'.join(reversed(parts))
    if isinstance(e, ast.Call) and dotted(e.func) == 'ag__.ld' and len(e.args) == 1:
        return dotted(e.args[0])          # variables pass wraps reads
    return None


def scope_names(tree):
    """Names bound to function-scope objects by the generated code."""
    out = set()
    for n in ast.walk(tree):
        if isinstance(n, ast.With):
            for it in n.items:
                if isinstance(it.context_expr, ast.Call) and dotted(it.context_expr.func) == 'ag__.FunctionScope' \
                        and isinstance(it.optional_vars, ast.Name):
                    out.add(it.optional_vars.id)
        if isinstance(n, ast.Call) and dotted(n.func) == 'ag__.with_function_scope' and n.args \
                and isinstance(n.args[0], ast.Lambda):
            for a in n.args[0].args.args:
                out.add(a.arg)
    return out


def kind_of(n, parent, scopes, feats_builtin):
    k = type(n).__name__
    if isinstance(n, ast.UnaryOp):
        return 'UnaryOp.' + type(n.op).__name__
    if isinstance(n, ast.Call):
        d = dotted(n.func)
        if d is not None:
            if d.startswith('ag__.'):
                return 'Call.ag'
            if d.split('.')[0] in scopes and '.' in d:
                return 'Call.fscope'
            if d in DEBUGGER:
                return 'Call.debugger'
            if d == 'print':
                return 'Call.print'
            if d in ('tuple', 'dict') and parent is not None and parent[0] == 'gen-arg':
                return 'Call.gen'
        return 'Call'
    return k


def children(n):
    for f in n._fields:
        v = getattr(n, f, None)
        if isinstance(v, ast.AST):
            if type(v).__mro__[1].__name__ in SKIP_SORTS:
                continue
            yield f, v
        elif isinstance(v, (list, tuple)):
            # a tuple-valued field is not entered by ast.NodeTransformer / ast.iter_child_nodes, but it is
            # unparsed and executed like a list-valued one: the observer looks at what runs
            for x in v:
                if isinstance(x, ast.AST):
                    yield f, x


MARK = re.compile(r'^[a-z]\d+$')


def marker_id(n):
    """identity of a marker construct: the distinguished Name it was built around"""
    def first_name(e):
        for x in ast.walk(e):
            if isinstance(x, ast.Name) and MARK.match(x.id):
                return x.id
        return None
    if isinstance(n, ast.Call):
        d = dotted(n.func)
        if d in ('print', 'breakpoint'):
            return d
        return first_name(n.func)
    if isinstance(n, (ast.IfExp, ast.If, ast.While)):
        return first_name(n.test)
    if isinstance(n, ast.BoolOp):
        return first_name(n.values[0]) if n.values else None
    if isinstance(n, ast.UnaryOp):
        return first_name(n.operand)
    if isinstance(n, ast.For):
        return first_name(n.iter)
    if isinstance(n, ast.Return):
        return first_name(n.value) if n.value is not None else None
    if isinstance(n, ast.Break):
        return 'break'
    if isinstance(n, ast.Continue):
        return 'continue'
    return None


FAMILY = ('If', 'While', 'For', 'Break', 'Continue', 'Return', 'BoolOp', 'UnaryOp.Not', 'IfExp', 'Call',
          'Call.print', 'Call.debugger')


def observe(tree, output=False):
    """-> list of (kind, marker id, parent kind, parent field, exempt?, under_if_exp?) for every node of the
    native family.  `output`: the tree is generated code (tail returns are Return.gen, tuple()/dict() built by
    the call wrapper are Call.gen)."""
    scopes = scope_names(tree) if output else set()
    out = []

    def tail_returns(fn):
        res = set()
        body = fn.body
        if body and isinstance(body[-1], ast.Return):
            res.add(id(body[-1]))
        for s in body:
            if isinstance(s, ast.With) and any(isinstance(it.context_expr, ast.Call) and
                                               dotted(it.context_expr.func) == 'ag__.FunctionScope' for it in s.items):
                if s.body and isinstance(s.body[-1], ast.Return):
                    res.add(id(s.body[-1]))
        return res
    gen_returns = set()
    if output:
        for n in ast.walk(tree):
            if isinstance(n, ast.FunctionDef):
                gen_returns |= tail_returns(n)

    def names_bound(t):
        return frozenset(x.id for x in ast.walk(t) if isinstance(x, ast.Name)) if t is not None else frozenset()

    def walk(n, pk, pf, exempt, under_ifexp, genarg, path=(), shadow=frozenset()):
        # a call NAME.attr(...) is a function-scope call only when NAME really denotes the scope object: not when
        # a lambda / def parameter, comprehension target or except-as name of the user shadows it there
        k = kind_of(n, ('gen-arg',) if genarg else None, scopes - shadow, False)
        if isinstance(n, ast.Return) and id(n) in gen_returns:
            k = 'Return.gen'
        if k in FAMILY:
            out.append((k, marker_id(n), pk, pf, exempt, under_ifexp, path))
        is_ifexp_call = isinstance(n, ast.Call) and dotted(n.func) == 'ag__.if_exp'
        is_cc = output and isinstance(n, ast.Call) and dotted(n.func) == 'ag__.converted_call'
        kk = type(n).__name__
        scope_lambda = is_wfs = isinstance(n, ast.Call) and dotted(n.func) == 'ag__.with_function_scope'
        for f, c in children(n):
            sh = shadow
            if isinstance(n, ast.Lambda) and f == 'body' and not getattr(n, '_c04_scope_lambda', False):
                a = n.args
                sh = sh | frozenset(x.arg for x in a.posonlyargs + a.args + a.kwonlyargs + [y for y in (a.vararg, a.kwarg) if y])
            elif isinstance(n, ast.FunctionDef) and f == 'body':
                a = n.args
                sh = sh | frozenset(x.arg for x in a.posonlyargs + a.args + a.kwonlyargs + [y for y in (a.vararg, a.kwarg) if y])
            elif isinstance(n, (ast.ListComp, ast.SetComp, ast.GeneratorExp, ast.DictComp)):
                sh = sh | frozenset().union(*[names_bound(g.target) for g in n.generators])
            elif isinstance(n, ast.ExceptHandler) and f == 'body' and n.name:
                sh = sh | frozenset([n.name])
            if is_wfs and f == 'args' and n.args and c is n.args[0] and isinstance(c, ast.Lambda):
                c._c04_scope_lambda = True      # its parameter IS the scope object
            ga = False
            if is_cc and f == 'args' and c in n.args[1:3]:
                ga = True
            if genarg and isinstance(n, ast.BinOp):
                ga = True
            tk = k if k.startswith(('Call', 'UnaryOp', 'Return')) else kk
            walk(c, tk, f,
                 exempt or (kk, f) in EXEMPT, under_ifexp or is_ifexp_call or isinstance(n, ast.IfExp), ga,
                 path + ((tk, f),), sh)
    walk(tree, None, None, False, False, False)
    return out


def identifiers(src):
    """Every identifier the user wrote in a program (names, parameters, except-as names, attributes excluded)."""
    out = set()
    for n in ast.walk(ast.parse(src)):
        if isinstance(n, ast.Name):
            out.add(n.id)
        elif isinstance(n, ast.arg):
            out.add(n.arg)
        elif isinstance(n, ast.ExceptHandler) and n.name:
            out.add(n.name)
        elif isinstance(n, (ast.FunctionDef, ast.ClassDef)):
            out.add(n.name)
    return out


def survivors(obs, builtin_on):
    nat = set(NATIVES) | ({'Call.print'} if builtin_on else set())
    return [o for o in obs if o[0] in nat and not o[4]]


def export_tree(n):
    """Python ast -> Gallina term of MV.Route.Traversal.tree (input programs: no generated sub-kinds)."""
    k = kind_of(n, None, set(), False)
    cs = ['(%s, %s)' % (vlib.coq_str(f), export_tree(c)) for f, c in children(n)]
    return 'Node %s [%s]' % (vlib.coq_str(k), '; '.join(cs))


# ------------------------------------------------------------------ running the implementation

REUSE_OBSERVATIONS = True


class Impl(object):
    """The implementation under test, in-process."""

    def __init__(self, tmp):
        self.tmp = tmp
        self.n = 0
        self.reordered = 0
        from malt.impl import api
        from malt.core import converter
        from malt.pyct import transpiler
        self.api, self.converter, self.transpiler = api, converter, transpiler
        sys.path.insert(0, tmp)

    def load(self, src):
        self.n += 1
        name = 'c04_mod_%d_%d' % (os.getpid(), self.n)
        path = os.path.join(self.tmp, name + '.py')
        with open(path, 'w') as f:
            f.write(src)
        spec = importlib.util.spec_from_file_location(name, path)
        mod = importlib.util.module_from_spec(spec)
        sys.modules[name] = mod
        spec.loader.exec_module(mod)
        return mod

    def options(self, feats, recursive=True):
        F = self.converter.Feature
        return self.converter.ConversionOptions(recursive=recursive, user_requested=True,
                                                optional_features=tuple(getattr(F, x) for x in feats) or None)

    def convert_ast(self, fn, feats):
        tr = self.api.PyToPy()
        node, _ = self.transpiler.GenericTranspiler.transform_function(
            tr, fn, self.converter.ProgramContext(self.options(feats)))
        return node

    def recording(self, passes, sink):
        """Context manager: every transformer class named in `passes` reports (pass name, observation
        before, observation after) of its outermost visit."""
        impl = self

        class Rec(object):
            def __enter__(s):
                s.saved = []
                s.last = None
                for pname, _, _ in passes:
                    modname, cname = pname.split('.')
                    mod = importlib.import_module('malt.converters.' + modname)
                    cls = getattr(mod, cname)
                    if any(c is cls for c, _ in s.saved):
                        continue
                    had = 'visit' in cls.__dict__
                    orig = cls.visit
                    s.saved.append((cls, cls.__dict__.get('visit') if had else None))

                    def visit(self_, node, _orig=orig, _pname=pname):
                        if getattr(self_, '_c04_active', False) or not isinstance(node, ast.AST):
                            return _orig(self_, node)
                        self_._c04_active = True
                        # the tree a pass receives is the tree the previous pass returned (the analyses run in
                        # between only annotate): its observation is reused
                        before = s.last[1] if REUSE_OBSERVATIONS and s.last is not None and s.last[0] is node \
                            else observe(node, output=True)
                        s.last = None
                        try:
                            res = _orig(self_, node)
                        finally:
                            self_._c04_active = False
                        if isinstance(res, ast.AST):
                            after = observe(res, output=True)
                            s.last = (res, after)
                            sink.append((_pname, before, after))
                        return res
                    cls.visit = visit
                return s

            def __exit__(s, *a):
                for cls, old in s.saved:
                    if old is None:
                        try:
                            del cls.visit
                        except AttributeError:
                            pass
                    else:
                        cls.visit = old
        return Rec()


# ------------------------------------------------------------------ programs: contexts x constructs

HEAD = 'def f(a, b, xs, d, g, cm, E, T):\n    x = 0\n'
TAIL = '    return x\n'

# (name, template, exempt position?)  {H} = expression hole
EXPR_STMT_CTX = [
    ('Assign.value', 'x = {H}', False), ('AugAssign.value', 'x += {H}', False), ('Expr.value', '{H}', False),
    ('If.test', 'if {H}:\n    x = 1', False), ('If.test.elif', 'if a:\n    x = 1\nelif {H}:\n    x = 2', False),
    ('While.test', 'while {H}:\n    x = 1', False), ('For.iter', 'for q in {H}:\n    x = q', False),
    ('Return.value', 'return {H}', False), ('Assert.test', 'assert {H}', False), ('Raise.exc', 'raise {H}', False),
    ('Delete.slice', 'del d[{H}]', False), ('Subscript.store', 'd[{H}] = 1', False),
    ('Attribute.store', '{H}.v = 1', False),
    ('ExceptHandler.type', 'try:\n    x = 1\nexcept {H}:\n    x = 2', False),
    ('arguments.defaults', 'def inner(p={H}):\n    return p', False),
    ('arguments.kw_defaults', 'def inner(*, p={H}):\n    return p', False),
    ('FunctionDef.decorator_list', '@{H}\ndef inner():\n    return 1', False),
    ('withitem.context_expr', 'with {H}:\n    x = 1', True), ('withitem.context_expr.as', 'with {H} as y:\n    x = 1', True),
    ('With.body', 'with cm:\n    x = {H}', False),
    ('Try.body', 'try:\n    x = {H}\nexcept E:\n    x = 2', False),
    ('ExceptHandler.body', 'try:\n    x = 1\nexcept E:\n    x = {H}', False),
    ('Try.orelse', 'try:\n    x = 1\nexcept E:\n    x = 2\nelse:\n    x = {H}', False),
    ('Try.finalbody', 'try:\n    x = 1\nfinally:\n    x = {H}', False),
    ('If.body', 'if a:\n    x = {H}', False), ('If.orelse', 'if a:\n    x = 1\nelse:\n    x = {H}', False),
    ('While.body', 'while a:\n    x = {H}\n    a = 0', False), ('For.body', 'for q in xs:\n    x = {H}', False),
    ('FunctionDef.body', 'def inner(p):\n    y = {H}\n    return y', False),
    ('FunctionDef.body.nested', 'def inner(p):\n    def inner2(r):\n        return {H}\n    return inner2(p)', False),
]
EXPR_CTX = [
    ('Lambda.body', '(lambda: {H})', False), ('Lambda.defaults', '(lambda p={H}: p)', False),
    ('ListComp.elt', '[{H} for q in xs]', False), ('SetComp.elt', '{{{H} for q in xs}}', False),
    ('DictComp.key', '{{{H}: q for q in xs}}', False), ('DictComp.value', '{{q: {H} for q in xs}}', False),
    ('GeneratorExp.elt', 'list({H} for q in xs)', False),
    ('comprehension.iter', '[q for q in {H}]', True), ('comprehension.ifs', '[q for q in xs if {H}]', True),
    ('List.elts', '[{H}]', False), ('Tuple.elts', '({H}, 1)', False), ('Set.elts', '{{{H}}}', False),
    ('Dict.keys', '{{{H}: 1}}', False), ('Dict.values', '{{1: {H}}}', False),
    ('UnaryOp.operand', '(-{H})', False), ('Not.operand', '(not {H})', False),
    ('BinOp.left', '({H} + 1)', False), ('BinOp.right', '(1 + {H})', False),
    ('BoolOp.first', '({H} and a)', False), ('BoolOp.second', '(a or {H})', False),
    ('Compare.left', '({H} < 2)', False), ('Compare.comparators', '(1 < {H})', False),
    ('Compare.chain', '(1 < {H} < 3)', False),
    ('Call.args', 'g({H})', False), ('keyword.value', 'g(k={H})', False), ('Starred.value', 'g(*{H})', False),
    ('Call.kwargs', 'g(**{H})', False), ('Call.func', '{H}(1)', False),
    ('Attribute.value', '{H}.real', False), ('Subscript.value', '{H}[0]', False), ('Subscript.slice', 'd[{H}]', False),
    ('Slice.lower', 'xs[{H}:2]', False), ('Slice.upper', 'xs[0:{H}]', False),
    ('IfExp.test', '(1 if {H} else 2)', False), ('IfExp.body', '({H} if a else 2)', False),
    ('IfExp.orelse', '(1 if a else {H})', False),
    ('FormattedValue.value', 'f"{{{H}}}"', False), ('print.args', 'print({H})', False),
    ('method.args', 'xs.count({H})', False),
]
# statement contexts, {S} = statement hole (a block); loop = needs no enclosing loop itself
# local classes (a class defined inside the converted function): class body statements, bases, methods, and
# defs / lambdas / loops / branches nested in methods
EXPR_STMT_CTX += [
    ('ClassDef.body', 'class K:\n    v = {H}', False),
    ('ClassDef.body.second', 'class K:\n    u = 1\n    v = ({H}, 2)', False),
    ('ClassDef.bases', 'class K({H}):\n    v = 1', False),
    ('ClassDef.keywords', 'class K(E, metaclass={H}):\n    v = 1', False),
    ('ClassDef.decorator_list', '@{H}\nclass K:\n    v = 1', False),
    ('ClassDef.method', 'class K:\n    def m(self, p):\n        y = {H}\n        return y', False),
    ('ClassDef.method.return', 'class K:\n    v = 1\n    def m(self, p):\n        return {H}', False),
    ('ClassDef.method.defaults', 'class K:\n    def m(self, p={H}):\n        return p', False),
    ('ClassDef.method.decorator', 'class K:\n    @{H}\n    def m(self):\n        return 1', False),
    ('ClassDef.method.if', 'class K:\n    def m(self, p):\n        if p:\n            y = {H}\n        return 0', False),
    ('ClassDef.method.if.test', 'class K:\n    def m(self, p):\n        if {H}:\n            p = 1\n        return p', False),
    ('ClassDef.method.for', 'class K:\n    def m(self, p):\n        for q in xs:\n            p = {H}\n        return p', False),
    ('ClassDef.method.while.test', 'class K:\n    def m(self, p):\n        while {H}:\n            p = 0\n        return p', False),
    ('ClassDef.method.nested def', 'class K:\n    def m(self, p):\n        def inner(r):\n            return {H}\n        return inner(p)', False),
    ('ClassDef.method.lambda', 'class K:\n    def m(self, p):\n        return (lambda y: {H})', False),
    ('ClassDef.method.comprehension', 'class K:\n    def m(self, p):\n        return [{H} for q in xs]', False),
    ('ClassDef.body.lambda', 'class K:\n    v = (lambda y: {H})', False),
    ('ClassDef.nested class', 'class K:\n    class L:\n        def m(self):\n            return {H}', False),
    ('ClassDef.after', 'class K:\n    v = 1\nx = {H}', False),
]

# operands of overloaded stores and of the list operations (Feature.LISTS rewrites them; without it they stay
# plain stores): index / slice / multi-dimensional / nested-container / attribute-container stores, unpacking
# targets, augmented stores, deletes, loop targets, append / pop / stack
EXPR_STMT_CTX += [
    ('Subscript.store.value', 'd[0] = {H}', False), ('Subscript.store.attr', 'g.v[{H}] = 1', False),
    ('Slice.store.lower', 'xs[{H}:2] = d', False), ('Slice.store.upper', 'xs[0:{H}] = d', False),
    ('Slice.store.step', 'xs[::{H}] = d', False), ('Slice.store.value', 'xs[0:2] = {H}', False),
    ('Slice.store.attr', 'g.v[{H}:] = d', False),
    ('Subscript.store.nested', 'd[0][{H}] = 1', False), ('Slice.store.nested', 'd[0][{H}:] = xs', False),
    ('Subscript.store.multi', 'd[{H}, 1] = 1', False), ('Slice.store.multi', 'd[{H}:2, 1] = 1', False),
    ('Subscript.store.unpack', 'xs[{H}], x = d', False), ('Slice.store.unpack', 'xs[{H}:], x = d', False),
    ('List.store', '[x, d[{H}]] = xs', False),
    ('AugAssign.subscript', 'd[{H}] += 1', False), ('AugAssign.subscript.value', 'd[0] += {H}', False),
    ('AugAssign.slice', 'xs[{H}:] += d', False), ('AugAssign.attr', '{H}.v += 1', False),
    ('Delete.slice.lower', 'del xs[{H}:2]', False),
    ('For.target.subscript', 'for d[{H}] in xs:\n    x = 1', False),
    ('list.append', 'xs.append({H})', False), ('list.append.attr', 'g.v.append({H})', False),
    ('list.pop', 'x = xs.pop({H})', False), ('list.pop.nested', 'x = g(xs.pop(), {H})', False),
    ('list.stack', 'x = g.stack({H})', False),
]
EXPR_CTX += [
    ('Slice.step', 'xs[::{H}]', False), ('Slice.multi', 'd[{H}:2, 1]', False),
    ('Subscript.slice.attr', 'g.v[{H}]', False), ('List.elts.nested', '[[{H}], 1]', False),
]

STMT_CTX = [
    ('ClassDef.method.body', 'class K:\n    def m(self, p):\n{SS}\n        return p'),
    ('ClassDef.method.if.body', 'class K:\n    def m(self, p):\n        if p:\n{SSS}\n        return p'),
    ('ClassDef.method.nested def.body', 'class K:\n    def m(self, p):\n        def inner(r):\n{SSS}\n            return r\n        return inner(p)'),
    ('FunctionDef.body', '{S}'), ('If.body', 'if a:\n{S}'), ('If.orelse', 'if a:\n    x = 1\nelse:\n{S}'),
    ('If.elif.body', 'if a:\n    x = 1\nelif b:\n{S}'),
    ('While.body', 'while a:\n{S}\n    a = 0'), ('For.body', 'for q in xs:\n{S}'),
    ('Try.body', 'try:\n{S}\nexcept E:\n    x = 2'), ('ExceptHandler.body', 'try:\n    x = 1\nexcept E:\n{S}'),
    ('Try.orelse', 'try:\n    x = 1\nexcept E:\n    x = 2\nelse:\n{S}'),
    ('Try.finalbody', 'try:\n    x = 1\nfinally:\n{S}'),
    ('With.body', 'with cm:\n{S}'), ('With.body.as', 'with cm as y:\n{S}'),
    ('nested def', 'def inner(p):\n{S}\n    return p'),
]


EXPR_STMT_CTX = [(n, t.replace('{{', '{').replace('}}', '}'), e) for n, t, e in EXPR_STMT_CTX]
EXPR_CTX = [(n, t.replace('{{', '{').replace('}}', '}'), e) for n, t, e in EXPR_CTX]


VOCAB = ['fscope', 'lscope', 'fscope_1']


def expr_markers(i):
    return [('Call', 'c%d(a)' % i), ('Call.method', 'c%d.m(a)' % i), ('IfExp', '(1 if t%d else 2)' % i),
            ('BoolOp.and', '(b%d and a)' % i), ('BoolOp.or', '(b%d or a)' % i), ('UnaryOp.Not', '(not n%d)' % i),
            ('Call.print', 'print(a)'), ('Call.debugger', 'breakpoint()')]


def stmt_markers(i):
    return [('If', 'if i%d:\n    x = 1' % i), ('While', 'while w%d:\n    x = 1' % i),
            ('For', 'for q in f%d:\n    x = q' % i), ('Break', 'break'), ('Continue', 'continue'),
            ('Return', 'return r%d' % i), ('Return.none', 'return')]


def indent(s, n=4):
    return textwrap.indent(s, ' ' * n)


def fill_stmt(ctx, block):
    if ctx == '{S}':
        return block
    return ctx.replace('{SSS}', indent(block, 12)).replace('{SS}', indent(block, 8)).replace('{S}', indent(block))


def catalogue(seed, tier):
    """-> list of dicts {name, src, exempt (the planted construct sits in an exempt position), marker kind}"""
    rnd = random.Random(seed)
    progs = []
    params = 'c0, t0, b0, n0, i0, w0, f0, r0'

    def add(name, body, exempt, mkind):
        src = HEAD.replace('T):', 'T, %s):' % params) + indent(body) + '\n' + TAIL
        try:
            compile(src, '<c04>', 'exec')
        except SyntaxError:
            return
        progs.append({'name': name, 'src': src, 'exempt': exempt, 'marker': mkind})

    # depth 1: every statement-level expression context x every expression construct
    for cname, ctx, ex in EXPR_STMT_CTX:
        for mk, m in expr_markers(0):
            add('%s<-%s' % (cname, mk), ctx.replace('{H}', m), ex, mk)
    # depth 2: expression context inside `x = ...`, inside an if test, inside a return
    for cname, ctx, ex in EXPR_CTX:
        for mk, m in expr_markers(0):
            add('Assign.value/%s<-%s' % (cname, mk), 'x = ' + ctx.replace('{H}', m), ex, mk)
    # statement constructs in every block position (jumps inside a loop)
    for cname, ctx in STMT_CTX:
        for mk, m in stmt_markers(0):
            body = fill_stmt(ctx, m)
            if mk in ('Break', 'Continue'):
                for lname, loop in (('while', 'while b:\n{S}\n    b = 0'), ('for', 'for z in xs:\n{S}')):
                    if cname in ('Try.finalbody', 'nested def'):
                        continue
                    add('%s/%s<-%s' % (lname, cname, mk), fill_stmt(loop, body), False, mk)
                if cname in ('While.body', 'For.body'):
                    add('%s<-%s' % (cname, mk), body, False, mk)
            else:
                if mk.startswith('Return') and cname == 'Try.finalbody':
                    continue
                add('%s<-%s' % (cname, mk), body, False, mk)
                if mk.startswith('Return'):
                    add('for/%s<-%s' % (cname, mk), fill_stmt('for z in xs:\n{S}', body), False, mk)
    # deeper nestings: stmt ctx / stmt-level expr ctx / expr ctx / expr ctx <- marker
    combos = []
    for (sn, sc), (en, ec, ex0), (c1n, c1, ex1), (c2n, c2, ex2) in itertools.product(
            STMT_CTX, [c for c in EXPR_STMT_CTX if c[0] in ('Assign.value', 'If.test', 'Return.value', 'For.iter',
                                                             'While.test', 'arguments.defaults', 'Expr.value',
                                                             'FunctionDef.decorator_list', 'ClassDef.body',
                                                             'ClassDef.method', 'ClassDef.method.nested def',
                                                             'ClassDef.method.lambda', 'ClassDef.method.for',
                                                             'Slice.store.lower', 'AugAssign.subscript',
                                                             'list.append')],
            EXPR_CTX, EXPR_CTX):
        combos.append((sn, sc, en, ec, ex0, c1n, c1, ex1, c2n, c2, ex2))
    rnd.shuffle(combos)
    ncombo = 200 if tier == 'quick' else 3500
    for (sn, sc, en, ec, ex0, c1n, c1, ex1, c2n, c2, ex2) in combos[:ncombo]:
        mk, m = rnd.choice(expr_markers(0))
        e = c1.replace('{H}', c2.replace('{H}', m))
        add('%s/%s/%s/%s<-%s' % (sn, en, c1n, c2n, mk), fill_stmt(sc, ec.replace('{H}', e)),
            ex0 or ex1 or ex2, mk)
    # identifiers drawn from the converter's own vocabulary, as lambda / def parameters, comprehension targets
    # and except-as names at every block position, with an attribute call on them: the call must be routed, and
    # the generated function-scope name must be fresh (checked by the oracle)
    for vname in (VOCAB[:2] if tier == 'quick' else VOCAB):
        for cname, ctx in STMT_CTX:
            for shape, body in (
                    ('lambda-param', 'h = lambda %s: %s.run(a)\nx = h(d)' % (vname, vname)),
                    ('lambda-param.nested', 'h = lambda q: (lambda %s: %s.run(q))(q)\nx = h(d)' % (vname, vname)),
                    ('comprehension-target', 'x = [%s.run(a) for %s in xs]' % (vname, vname)),
                    ('except-as', 'try:\n    x = 1\nexcept E as %s:\n    x = %s.with_traceback(None)' % (vname, vname)),
                    ('def-param', 'def inner2(%s):\n    return %s.run(a)\nx = inner2(d)' % (vname, vname))):
                add('vocab:%s/%s<-%s' % (cname, shape, vname), fill_stmt(ctx, body), False, 'Call.vocab')
    # two statement levels + statement marker
    pairs = list(itertools.product(STMT_CTX, STMT_CTX))
    rnd.shuffle(pairs)
    for (an, ac), (bn, bc) in pairs[:60 if tier == 'quick' else len(pairs)]:
        mk, m = rnd.choice(stmt_markers(0))
        body = fill_stmt(ac, fill_stmt(bc, m))
        if mk in ('Break', 'Continue'):
            if 'nested def' in (an, bn) or 'Try.finalbody' in (an, bn):
                continue
            body = fill_stmt('for z in xs:\n{S}', body)
        if mk.startswith('Return') and 'Try.finalbody' in (an, bn):
            continue
        add('%s/%s<-%s' % (an, bn, mk), body, False, mk)
    return progs


# ------------------------------------------------------------------ dynamic oracle

DYN_HEAD = 'def f(T, g, cm, xs, o):\n    acc = 0\n'


class DynGen(object):
    """Random executable programs; every user construct is built around a call T(k, v) of the tracer."""

    def __init__(self, rnd, stores=False):
        self.rnd = rnd
        self.k = 0
        self.roles = {}
        self.vars = ['acc', 'u', 'v']
        self.stores = stores      # second stream: also stores through subscripts and list operations

    def store(self):
        """a statement that stores through a subscript of a local list (index / slice / augmented), appends or
        pops, with tracer calls and other overloadable constructs as the operands of the store"""
        r = self.rnd
        self.k += 1
        ys = 'ys%d' % self.k
        idx = lambda: self.t('plain', r.choice(['0', '1', '2']))     # noqa
        bound = lambda: r.choice([idx(), idx(), '', '(%s if %s else 1)' % (idx(), self.t('ifexp-test', '1')),   # noqa
                                  'g(%s)' % idx()])
        c = r.randrange(7)
        if c == 0:
            st = '%s[%s] = %s' % (ys, idx(), self.expr(1))
        elif c in (1, 2):
            st = '%s[%s:%s] = [%s, %s]' % (ys, bound(), bound(), self.expr(1), self.expr(1))
        elif c == 3:
            st = '%s[%s::%s] = [%s]' % (ys, idx(), self.t('plain', '4'), self.expr(1))
        elif c == 4:
            st = '%s[%s] %s int(bool(%s))' % (ys, idx(), r.choice(['+=', '-=', '*=']), self.expr(1))
        elif c == 5:
            st = '%s.append(%s)' % (ys, self.expr(1))
        else:
            st = 'acc = acc + int(bool(%s.pop())) + int(bool(%s))' % (ys, self.expr(1))
        return '%s = [0, 1, 2, 3]\n%s\nacc = acc + len(%s) + int(bool(%s[0]))' % (ys, st, ys, ys)

    def t(self, role, val):
        self.k += 1
        self.roles[self.k] = role
        return 'T(%d, %s)' % (self.k, val)

    def atom(self):
        return self.rnd.choice(['0', '1', '2', 'acc', 'len(xs)', 'acc + 1'])

    def expr(self, d):
        r = self.rnd
        c = r.randrange(13 if d > 0 else 3)
        if c <= 2:
            return self.t('plain', self.atom())
        if c == 11:
            v = r.choice(VOCAB)
            return '(lambda %s: %s.run%s)(o)' % (v, v, self.t('plain', self.atom())[1:])
        if c == 12:
            v = r.choice(VOCAB)
            return 'sum([%s.run%s for %s in [o]])' % (v, self.t('plain', self.atom())[1:], v)
        if c == 3:
            return '(%s and %s)' % (self.t('bool-first', self.atom()), self.expr(d - 1))
        if c == 4:
            return '(%s or %s)' % (self.t('bool-first', self.atom()), self.expr(d - 1))
        if c == 5:
            return '(not %s)' % self.t('not-operand', self.atom())
        if c == 6:
            return '(%s if %s else %s)' % (self.expr(d - 1), self.t('ifexp-test', self.atom()), self.expr(d - 1))
        if c == 7:
            return 'sum([%s for q in xs])' % self.expr(d - 1)
        if c == 8:
            return '(lambda z: %s)(1)' % self.expr(d - 1)
        if c == 9:
            return 'g(%s)' % self.expr(d - 1)
        return 'g(*[%s], k=%s)' % (self.expr(d - 1), self.expr(d - 1))

    def block(self, d, in_loop, in_def):
        n = self.rnd.randint(1, 3)
        return '\n'.join(self.stmt(d, in_loop, in_def) for _ in range(n))

    def stmt(self, d, in_loop, in_def):
        r = self.rnd
        if self.stores and r.randrange(3) == 0:
            return self.store()
        c = r.randrange(16 if d > 0 else 2)
        if c <= 1:
            return 'acc = acc + int(bool(%s))' % self.expr(2)
        if c == 2:
            return 'if %s:\n%s\nelse:\n%s' % (self.t('if-test', self.atom()), indent(self.block(d - 1, in_loop, in_def)),
                                              indent(self.block(d - 1, in_loop, in_def)))
        if c == 3:
            return 'if %s:\n%s' % (self.t('if-test', self.atom()), indent(self.block(d - 1, in_loop, in_def)))
        if c == 4:
            self.k += 1
            n = 'n%d' % self.k
            return '%s = 0\nwhile %s:\n    %s = %s + 1\n%s' % (
                n, self.t('while-test', '%s < 2' % n), n, n, indent(self.block(d - 1, True, in_def)))
        if c == 5:
            return 'for q in %s:\n%s' % (self.t('for-iter', 'xs'), indent(self.block(d - 1, True, in_def)))
        if c == 6:
            return 'try:\n%s\nexcept ValueError:\n%s\nfinally:\n    acc = acc + int(bool(%s))' % (
                indent(self.block(d - 1, in_loop, in_def)), indent('acc = acc + int(bool(%s))' % self.expr(1)),
                self.expr(1))
        if c == 7:
            return 'with cm:\n%s' % indent(self.block(d - 1, in_loop, in_def))
        if c == 8:
            self.k += 1
            fn = 'h%d' % self.k
            return 'def %s(p, acc=acc, dflt=%s):\n%s\n    return acc\nacc = %s(1)' % (
                fn, self.expr(1), indent(self.block(d - 1, False, True)), fn)
        if c in (14, 15):
            # a local class: class-body statement, a method with a default value, nested material in the method
            self.k += 1
            cn = 'K%d' % self.k
            return ('class %s:\n    v = %s\n    def m(self, p, acc=acc, dflt=%s):\n%s\n        return acc\n'
                    'acc = %s().m(1) + int(bool(%s.v))') % (
                cn, self.expr(2), self.expr(1), indent(self.block(d - 1, False, True), 8), cn, cn)
        if c == 9 and in_loop:
            return 'if %s:\n    break' % self.t('if-test', self.atom())
        if c == 10 and in_loop:
            return 'if %s:\n    continue' % self.t('if-test', self.atom())
        if c == 11:
            return 'if %s:\n    return acc' % self.t('if-test', self.atom())
        if c == 12:
            return 'acc = acc + (%s if %s else 0)' % (self.expr(1), self.t('ifexp-test', self.atom()))
        return 'acc = acc + int(bool(%s))' % self.expr(2)


def dyn_program(rnd, stores=False):
    g = DynGen(rnd, stores)
    body = g.block(3, False, False)
    src = DYN_HEAD + indent(body) + '\n    return acc\n'
    return src, g.roles


class Tracer(object):
    def __init__(self):
        self.log = []
        self.pending = 0
        self.in_while_test = 0
        self.native_calls = []

    def T(self, k, v):
        via = self.pending > 0
        if via:
            self.pending -= 1
        self.log.append(('T', k, via, self.in_while_test > 0))
        return v

    def run(self, k, v):
        # the tracer as an object: `NAME.run(k, v)` with NAME a lambda parameter / comprehension target
        return self.T(k, v)


class _CM(object):
    def __enter__(self):
        return self

    def __exit__(self, *a):
        return False


def run_dynamic(impl, src, roles, check_operators=True, feats=()):
    """-> (status, detail).  status: ok | routing | diverged | error"""
    import malt
    mod = impl.load(src)
    tr0 = Tracer()
    g = lambda *a, **k: (a[0] if a else 0)   # noqa
    try:
        want = mod.f(tr0.T, g, _CM(), [1, 2], tr0)
    except Exception as e:   # noqa
        return 'error', 'original raised %s' % type(e).__name__
    try:
        opt = tuple(getattr(impl.converter.Feature, x) for x in feats) or None
        conv = malt.to_graph(mod.f, recursive=False, experimental_optional_features=opt)
        code = malt.to_code(mod.f, recursive=False, experimental_optional_features=opt)
    except Exception as e:   # noqa
        return 'error', 'conversion raised %s: %s' % (type(e).__name__, str(e)[:200])
    agm = impl.api._TRANSPILER.get_extra_locals()['ag__']
    tr = Tracer()
    saved = {}

    def hook(name):
        orig = getattr(agm, name)
        saved[name] = orig

        def w(*a, **k):
            tr.log.append(('op', name))
            if name == 'converted_call' and getattr(a[0], '__self__', None) is tr and a[0].__name__ in ('T', 'run'):
                tr.pending += 1
            if name == 'while_stmt':
                test = a[0]

                def wtest(*ta, **tk):
                    tr.in_while_test += 1
                    try:
                        return test(*ta, **tk)
                    finally:
                        tr.in_while_test -= 1
                a = (wtest,) + tuple(a[1:])
            return orig(*a, **k)
        setattr(agm, name, w)
    for nm in ('if_stmt', 'while_stmt', 'for_stmt', 'and_', 'or_', 'not_', 'if_exp', 'converted_call'):
        hook(nm)
    try:
        try:
            got = conv(tr.T, g, _CM(), [1, 2], tr)
        except Exception as e:   # noqa
            return 'diverged', 'converted raised %s: %s' % (type(e).__name__, str(e)[:200])
    finally:
        for nm, o in saved.items():
            setattr(agm, nm, o)
    problems = []
    log = tr.log
    tl = [e for e in log if e[0] == 'T']
    for i, e in enumerate(log):
        if e[0] != 'T':
            continue
        k = e[1]
        role = roles.get(k)
        nxt = log[i + 1] if i + 1 < len(log) else None
        if not e[2]:
            problems.append('call T(%d, ..) executed natively (not through ag__.converted_call)' % k)
        if role == 'if-test' and nxt != ('op', 'if_stmt'):
            problems.append('`if T(%d, ..)` did not execute through ag__.if_stmt' % k)
        if role == 'ifexp-test' and nxt != ('op', 'if_exp'):
            problems.append('`.. if T(%d, ..) else ..` did not execute through ag__.if_exp' % k)
        if role == 'not-operand' and nxt != ('op', 'not_'):
            problems.append('`not T(%d, ..)` did not execute through ag__.not_' % k)
        if role == 'for-iter' and nxt != ('op', 'for_stmt'):
            problems.append('`for .. in T(%d, ..)` did not execute through ag__.for_stmt' % k)
        if role == 'bool-first':
            j = i - 1
            while j >= 0 and log[j] == ('op', 'converted_call'):
                j -= 1        # calls evaluating the arguments of T / T's own wrapper
            if not (j >= 0 and log[j] in (('op', 'and_'), ('op', 'or_'))):
                problems.append('`T(%d, ..) and/or ..` did not execute through ag__.and_/or_' % k)
        if role == 'while-test' and not e[3]:
            problems.append('`while T(%d, ..)` test evaluated outside ag__.while_stmt' % k)
    try:
        surv = survivors(observe(ast.parse(code), output=True), bool({'BUILTIN_FUNCTIONS', 'ALL'} & set(feats)))
    except SyntaxError:
        surv = []
    for o in surv:
        problems.append('native %s (under %s.%s) in the generated code' % (o[0], o[2], o[3]))
    try:
        for nm in sorted(scope_names(ast.parse(code)) & identifiers(src)):
            problems.append('generated function-scope name %s is also an identifier of the user' % nm)
    except SyntaxError:
        pass
    if problems:
        return 'routing', {'problems': problems[:5], 'generated_code': code}
    if [e[1] for e in tl] != [e[1] for e in tr0.log] or got != want:
        if feats and got == want and sorted(e[1] for e in tl) == sorted(e[1] for e in tr0.log):
            # same executions in another order: the store lowering of Feature.LISTS evaluates the subscript
            # before the stored value (evaluation order is a C01 matter); counted, judged like an equal run
            impl.reordered += 1
            return 'ok', len(tl)
        return 'diverged', 'marker sequence / result differs from the original run (semantic matter, not judged here)'
    return 'ok', len(tl)


def runnable_features(impl):
    """The optional features under which generated code can be executed at all in this port (a feature whose
    trivial program already fails at run time -- NAME_SCOPES: "name scopes are not supported" -- is left to the
    static oracle)."""
    import malt
    mod = impl.load('def f(a):\n    return a + 1\n')
    out = []
    for ft in impl.converter.Feature:
        if ft.name == 'ALL':
            continue
        try:
            if malt.to_graph(mod.f, recursive=False, experimental_optional_features=(ft,))(1) == 2:
                out.append(ft.name)
        except Exception:   # noqa
            pass
    return out


# ------------------------------------------------------------------ table lookups (Python mirror, for probing)

def resolve_entries(entries, feats):
    def on(g):
        if g is None:
            return True
        used = g[0] in feats or 'ALL' in feats
        return used == g[1]
    out = {}
    for kind, g, allf, fields, rw, intro, _hide in entries:
        if on(g) and kind not in out:
            out[kind] = (allf, fields, rw, intro)
    return out


def gate_on(g, feats):
    return g is None or (g in feats) or ('ALL' in feats)


# ------------------------------------------------------------------ option sets

# when the translator failed: the kinds a feature-gated pass is assumed to rewrite
FALLBACK_TOUCHED = {'kinds': {'Assign', 'AugAssign', 'Subscript', 'List', 'Call', 'Assert'}, 'markers': {'Call.print'}}


def touched_by_feature(passes):
    """feature -> {'kinds': node classes that a pass (or table entry) gated by the feature may rewrite,
                   'markers': construct kinds whose own treatment is gated by the feature}  -- read off the
    extracted tables, so that the sweep follows the gating of the current source."""
    out = {}
    for pname, gate, entries in passes:
        for e in entries:
            kind, g, rw = e[0], e[1], e[4]
            if gate is not None and rw != 'Never':
                out.setdefault(gate, {'kinds': set(), 'markers': set()})['kinds'].add(kind.split('.')[0])
            if g is not None:
                out.setdefault(g[0], {'kinds': set(), 'markers': set()})['markers'].add(kind)
    return out


def marker_steps(p):
    """(class of ancestor, field, ancestor) for every strict ancestor of the planted construct(s) of a catalogue
    program."""
    if 'steps' in p:
        return p['steps']
    mk, mid = MARKER_KIND[p['marker']], MARKER_IDS[p['marker']]
    out = []

    def walk(n, path):
        if mid is not None and kind_of(n, None, set(), False) == mk and marker_id(n) == mid:
            out.extend(path)
        for f, c in children(n):
            walk(c, path + ((type(n).__name__, f, n),))
    walk(ast.parse(p['src']), ())
    p['steps'] = out
    return out


def _plain_value(n, f):
    """the value of an assignment to plain names: moved by no store lowering"""
    if isinstance(n, ast.Assign) and f == 'value':
        return all(isinstance(t, ast.Name) for t in n.targets)
    return isinstance(n, ast.AugAssign) and f == 'value' and isinstance(n.target, ast.Name)


def relevant_to(p, feature, touched):
    """Is the planted construct of program p treated differently, or does it sit below a node that may be
    rewritten, when `feature` is in use."""
    t = touched.get(feature)
    if t is None:
        return False
    if MARKER_KIND[p['marker']] in t['markers']:
        return True
    return any(k in t['kinds'] and not _plain_value(n, f) for k, f, n in marker_steps(p))


# ------------------------------------------------------------------ check

def check(run):
    tmp = vlib.ensure_dir(os.path.join(vlib.BUILD, 'tmp', str(os.getpid())))
    os.environ['TMPDIR'] = tmp
    import tempfile
    tempfile.tempdir = tmp
    try:
        _check(run, tmp)
    finally:
        shutil.rmtree(tmp, ignore_errors=True)


def _check(run, tmp):
    import warnings
    warnings.filterwarnings('ignore', category=SyntaxWarning)
    quick = run.tier == 'quick'
    run.rule = ('catalogue: every overloadable construct (call, method call, print, debugger entry, conditional '
                'expression, and, or, not; if, while, for, break, continue, return) planted in every syntactic '
                'position (49 statement-level expression positions incl. 19 inside local classes, 41 expression positions, '
                '16 block positions incl. methods of local classes; '
                'plus 29 operand positions of stores through subscripts / slices / augmented stores / list operations; '
                'exhaustive at depth 1-2, seeded sample of deeper nestings) x option sets {(), each feature that gates a '
                'pass or a table entry of the current source alone, ALL, the non-gating features together}: full sweep '
                'without options, under an option set the programs whose planted construct the feature concerns '
                '(read off the extracted tables) plus a fixed fraction of the rest; '
                'plus seeded random executable programs for the dynamic oracle (a second stream with stores and list '
                'operations under seeded option sets); distinct non-trivial = distinct '
                '(pass, parent kind, field, construct) observations of a real pass + distinct programs whose '
                'planted construct was reached')
    # 1. regenerate
    tie_msg = None
    try:
        passes, meta = generate()
    except c04_tables.Untranslatable as e:
        tie_msg = str(e)
        run.note(tie_msg)
        passes, meta = None, None
    # 2. proofs
    if tie_msg is None:
        vlib.standard_proof_step(run, ['Route/TraversalCheck.vo'])
    import time
    t_proof = time.time() - run.t0
    impl = Impl(tmp)
    failures = []      # property-level failures: dict(title, replay, classify)

    # ---- programs
    progs = catalogue(run.seed, run.tier)
    # option sets: none; each feature that gates a pass or a table entry of the CURRENT source, alone; ALL; and the
    # features that gate nothing, together.  Under a non-empty option set the full sweep covers the programs whose
    # planted construct the feature concerns (relevant_to, read off the extracted tables) plus a fixed fraction
    # of the others.
    all_features = [f.name for f in impl.converter.Feature if f.name != 'ALL']
    if meta is not None:
        gating = [f for f in meta['features'] if f in all_features]
        touched = touched_by_feature(passes)
    else:
        gating = ['ASSERT_STATEMENTS', 'BUILTIN_FUNCTIONS', 'LISTS']
        touched = {f: FALLBACK_TOUCHED for f in gating}
    others = tuple(f for f in all_features if f not in gating)
    feature_sets = [()] + [(f,) for f in gating] + [('ALL',)] + ([others] if others else [])
    run.extra['option_sets'] = [list(fs) for fs in feature_sets]

    def selected(p, feats):
        if not feats:
            return True
        if feats == ('BUILTIN_FUNCTIONS',) and p['idx'] % (17 if quick else 2) == 0:
            return True
        if p['idx'] % (29 if quick else 5) == 0:
            return True
        rel = any(relevant_to(p, f, touched) for f in (gating if 'ALL' in feats else feats))
        if rel and quick and 'ALL' in feats:
            return p['idx'] % 3 == 1      # ALL: a third of what the single features sweep
        return rel
    mods = []
    for i in range(0, len(progs), 200):
        chunk = progs[i:i + 200]
        src = '\n\n'.join(p['src'].replace('def f(', 'def f%d(' % (i + j), 1) for j, p in enumerate(chunk))
        mod = impl.load(src)
        for j, p in enumerate(chunk):
            p['identifiers'] = identifiers(p['src'])
            p['fn'] = getattr(mod, 'f%d' % (i + j))
            p['idx'] = i + j

    # ---- 3a + 4a: convert everything once per option set with the passes observed
    observations = {}     # (pass, parent kind, field, marker kind) -> set of bool (eliminated?)
    intro_seen = {}       # pass -> set of kinds whose count increased
    cases = []
    conv_errors = {}
    reached = 0
    for feats in feature_sets:
        fl = list(feats)
        for p in progs:
            if not selected(p, feats):
                continue
            sink = []
            try:
                if passes is not None and not p['name'].startswith('vocab:') and (
                        not quick or p['name'].count('/') <= (1 if feats in ((), ('BUILTIN_FUNCTIONS',)) else 0)
                        or p['idx'] % 4 == 0):
                    with impl.recording(passes, sink):
                        out = impl.convert_ast(p['fn'], fl)
                else:
                    out = impl.convert_ast(p['fn'], fl)
            except Exception as e:   # noqa
                conv_errors.setdefault('%s: %s' % (type(e).__name__, str(e).split('\n')[0][:80]), []).append(p['name'])
                continue
            run.count()
            builtin_on = 'BUILTIN_FUNCTIONS' in feats or 'ALL' in feats
            obs_out = observe(out, output=True)
            surv = survivors(obs_out, builtin_on)
            kinds = sorted(set(o[0] for o in surv))
            if not p['exempt']:
                reached += 1
                run.nontriv(('prog', p['name'], feats))
            # side condition of the "calls on the function scope are left alone" rule: the scope name is fresh
            # w.r.t. every identifier of the function, hidden ones (parameters of nested lambdas/defs,
            # comprehension targets, except-as names) included
            clash = sorted(scope_names(out) & p['identifiers'])
            if clash:
                failures.append({
                    'title': 'generated function-scope name %s is also an identifier of the user (%s)' % (
                        '/'.join(clash), p['name']),
                    'classify': None,
                    'replay': {'program': p['src'], 'optional_features': fl, 'context': p['name'],
                               'clashing_names': clash, 'generated_code': _unparse(impl, out)}})
            # static oracle
            if surv:
                known = all(o[0] == 'IfExp' and o[5] for o in surv)
                failures.append({
                    'title': 'native %s survives in the generated code (%s)' % ('/'.join(kinds), p['name']),
                    'classify': KNOWN_IFEXP if known else None,
                    'replay': {'program': p['src'], 'optional_features': fl, 'context': p['name'],
                               'surviving_native_constructs': [{'kind': o[0], 'parent': '%s.%s' % (o[2], o[3])} for o in surv],
                               'generated_code': _unparse(impl, out),
                               'command': 'PYTHONPATH=%s /venv/bin/python -c "import malt, m; print(malt.to_code(m.f))"   # m.py = program' % vlib.REPO}})
            # correspondence case
            try:
                fnode = ast.parse(p['src']).body[0]
                cases.append((len(cases), fl, export_tree(fnode), kinds, p, known if surv else None))
            except Exception as e:   # noqa
                failures.append({'title': 'exporter failed: %s' % e, 'classify': None, 'replay': {'program': p['src']}})
            # probing observations
            if passes is not None:
                _record_observations(passes, fl, sink, observations, intro_seen, p)
            if len(run.samples) < 3 and p['idx'] % 211 == 5:
                run.sample({'context': p['name'], 'program': p['src'], 'survivors': kinds})
    t_conv = time.time() - run.t0
    run.extra['programs'] = len(progs)
    run.extra['conversions'] = run.evaluations
    run.extra['programs_with_construct_in_non_exempt_position'] = reached
    run.extra['conversion_errors'] = {k: len(v) for k, v in conv_errors.items()}
    if conv_errors:
        run.note('conversion raised on %d catalogue programs (not judged by C04): %s' % (
            sum(len(v) for v in conv_errors.values()), '; '.join('%s x%d e.g. %s' % (k, len(v), v[0]) for k, v in list(conv_errors.items())[:4])))

    # ---- 3a: probed table == extracted table
    probe_bad = []
    if passes is not None:
        probe_bad = _compare_probes(passes, observations, intro_seen, run)

    # ---- 3b: model vs implementation in Coq
    corr_bad = None
    unguarded = set()
    if tie_msg is None and cases:
        corr_bad, bad_idx, unguarded = _coq_correspondence(cases, run)
        # consistency of the known-finding classifier with the guard of the theorem
        for c in cases:
            if c[5] is True and c[0] not in unguarded and corr_bad is None:
                corr_bad = ('classifier says known finding but the program is inside the guard of '
                            'routing_generated_partial: ' + c[4]['name'])

    t_corr = time.time() - run.t0
    run.extra['tie'] = {'translator': tie_msg or 'ok', 'probed_tables': probe_bad[:6] or 'agree',
                        'model_vs_implementation': corr_bad or 'agree'}
    # ---- 4b: dynamic oracle
    rnd = random.Random(run.seed * 7919 + 13)
    ndyn = 80 if quick else 1000
    stats = {'ok': 0, 'routing': 0, 'diverged': 0, 'error': 0}
    markers = 0
    div_example = None
    div_reasons = {}
    # second stream: programs with stores through subscripts and list operations, under seeded option sets
    # drawn from the features generated code can run under (every second one has LISTS)
    rnd2 = random.Random(run.seed * 104729 + 7)
    pool = runnable_features(impl)
    nstore = 30 if quick else 400
    run.extra['dynamic_option_pool'] = pool
    for i in range(ndyn + nstore):
        dfeats = ()
        if i < ndyn:
            src, roles = dyn_program(rnd)
        else:
            src, roles = dyn_program(rnd2, stores=True)
            dfeats = tuple(f for f in pool if rnd2.random() < 0.4)
            if i % 2 == 0 and 'LISTS' in pool and 'LISTS' not in dfeats:
                dfeats = tuple(sorted(dfeats + ('LISTS',)))
        try:
            status, detail = run_dynamic(impl, src, roles, feats=dfeats)
        except Exception as e:   # noqa
            status, detail = 'error', 'harness: %s %s' % (type(e).__name__, e)
        stats[status] += 1
        run.count()
        if status == 'ok':
            markers += detail
            run.nontriv(('dyn', i))
        elif status == 'routing':
            code = detail['generated_code']
            known = _only_known_ifexp(code)
            failures.append({'title': 'a user construct executed natively: ' + detail['problems'][0] + (
                                 ' (options %s)' % ', '.join(dfeats) if dfeats else ''),
                             'classify': KNOWN_IFEXP if known else None,
                             'replay': {'program': src, 'optional_features': list(dfeats), 'oracle': 'dynamic',
                                        'roles': {str(k): v for k, v in roles.items()},
                                        'call': 'f(T, g, cm, [1, 2], o) with T, o the tracer of tools/props/c04.py',
                                        'problems': detail['problems'], 'generated_code': code,
                                        'command': 'cd /verif && bin/check C04 --replay <this file>'}})
        else:
            div_reasons[str(detail)[:160]] = div_reasons.get(str(detail)[:160], 0) + 1
            if div_example is None:
                div_example = {'program': src, 'why': detail}
        if i == 3:
            run.sample({'dynamic_program': src})
    run.extra['dynamic'] = dict(stats, marker_executions_matched=markers, store_stream_programs=nstore,
                                store_operands_evaluated_in_another_order=impl.reordered)
    if stats['diverged'] or stats['error']:
        # the first example is kept in full (program text + reason), the reasons of all of them are counted
        run.extra['dynamic_divergences'] = {'reasons': div_reasons, 'first_example': div_example}
        run.note('dynamic oracle: %d runs diverged semantically / %d errored (outside C04, not judged; known root '
                 'cause: reads inside a local class body are invisible to liveness, build/c04_divergences.py); '
                 'reasons: %s; first example:\n%s\n-- %s' % (
                     stats['diverged'], stats['error'], json.dumps(div_reasons), div_example['program'],
                     div_example['why']))

    run.extra['phase_seconds'] = {'proofs': round(t_proof, 1), 'conversions': round(t_conv - t_proof, 1),
                                  'probe+coq': round(t_corr - t_conv, 1), 'dynamic': round(time.time() - run.t0 - t_corr, 1)}
    # ---- 5. verdict
    seen = set()
    reported_known = False
    nviol = 0
    for f in failures:
        if f['classify']:
            if not reported_known:
                reported_known = True
                if run.violation(f['title'], f['replay'], classify=f['classify']):
                    nviol += 1    # not listed: reported as violation
            continue
        key = re.sub(r'\(.*\)$', '', f['title'])
        if key in seen or nviol >= 8:
            continue
        seen.add(key)
        run.violation(f['title'], f['replay'])
        nviol += 1
    if not any(not f['classify'] for f in failures):
        searched = 'static oracle over %d conversions and dynamic oracle over %d programs found no failing input' % (
            run.extra['conversions'], ndyn + nstore)
        if tie_msg is not None:
            run.violation('translator no longer recognises the converter sources: ' + tie_msg,
                          {'broken_tie': tie_msg, 'searched': searched}, found_input=False)
        elif probe_bad:
            run.violation('extracted traversal table disagrees with the behaviour of the real passes',
                          {'broken_correspondence': probe_bad[:12], 'searched': searched}, found_input=False)
        elif corr_bad:
            run.violation('correspondence model/implementation broken', {'broken_correspondence': corr_bad,
                          'searched': searched}, found_input=False)
    run.assumptions += [
        'abstraction of a pass (Route/Traversal.v xform): a replaced node keeps its visited children under a wrapper '
        'kind and the kinds its templates may introduce become leaf children; validated by probing every '
        '(pass, kind, field, construct) against the real pass and by comparing surviving kinds on every program',
        'exempt positions (Route/Pipeline.v spec_exempt): with-items, comprehension clauses (documented); parameter '
        'declarations / annotations / type parameters (outside the C01 program class)',
        'sub-kinds of Call/UnaryOp/Return are assigned by the exporter from callee names / operators / position',
        'side condition of the Call.fscope rule (call_trees leaves calls on `<context name>.` alone): the context name '
        'is fresh w.r.t. every identifier of the function, hidden ones included; checked by the oracle on every '
        'conversion (scope names of the output vs identifiers of the input) and a scope-looking call under a user '
        'binding of that name is judged as a user call',
        'a node built by a converter with a non-list sequence in a list field (a tuple: entered by no traversal) is '
        'recognised syntactically at direct ast.<Kind>(...) constructions (translator, fail closed on values that are '
        'not recognisably lists) and modelled by a_hide / the "#opaque" pseudo-field; nodes built in other ways '
        '(setattr on an existing node, helpers outside the converter module) are seen only by the oracle',
    ]


def _unparse(impl, node):
    try:
        from malt.pyct import parser
        return parser.unparse(node, include_encoding_marker=False)
    except Exception as e:   # noqa
        return '<unparse failed: %s>' % e


def _only_known_ifexp(code):
    try:
        tree = ast.parse(code)
    except SyntaxError:
        return False
    surv = survivors(observe(tree, output=True), False)
    return bool(surv) and all(o[0] == 'IfExp' and o[5] for o in surv)


MARKER_KIND = {'Call.vocab': 'Call', 'Call': 'Call', 'Call.method': 'Call', 'IfExp': 'IfExp', 'BoolOp.and': 'BoolOp', 'BoolOp.or': 'BoolOp',
               'UnaryOp.Not': 'UnaryOp.Not', 'Call.print': 'Call.print', 'Call.debugger': 'Call.debugger',
               'If': 'If', 'While': 'While', 'For': 'For', 'Break': 'Break', 'Continue': 'Continue',
               'Return': 'Return', 'Return.none': 'Return'}
MARKER_IDS = {'Call.vocab': None, 'Call': 'c0', 'Call.method': 'c0', 'IfExp': 't0', 'BoolOp.and': 'b0', 'BoolOp.or': 'b0',
              'UnaryOp.Not': 'n0', 'Call.print': 'print', 'Call.debugger': 'breakpoint', 'If': 'i0', 'While': 'w0',
              'For': 'f0', 'Break': 'break', 'Continue': 'continue', 'Return': 'r0', 'Return.none': None}


def _record_observations(passes, feats, sink, observations, intro_seen, p):
    mkind = MARKER_KIND[p['marker']]
    mid = MARKER_IDS[p['marker']]
    for pname, before, after in sink:
        b = [o for o in before if o[0] == mkind and o[1] == mid]
        a = [o for o in after if o[0] == mkind and o[1] == mid]
        if len(b) == 1:
            o = b[0]
            observations.setdefault((pname, o[6], mkind, tuple(feats)), set()).add(len(a) == 0)
        # kinds that appeared: a (kind, marker) pair that was not there, or more unmarked instances of a kind
        cb, ca = {}, {}
        for o in before:
            cb[(o[0], o[1])] = cb.get((o[0], o[1]), 0) + 1
        for o in after:
            ca[(o[0], o[1])] = ca.get((o[0], o[1]), 0) + 1
        for (k, mid), n in ca.items():
            if (mid is None and n > cb.get((k, mid), 0)) or (mid is not None and (k, mid) not in cb):
                intro_seen.setdefault(pname, {}).setdefault(k, p['name'])


def _compare_probes(passes, observations, intro_seen, run):
    bad = []
    table = {}
    for pname, gate, entries in passes:
        table[pname] = (gate, entries)
    nobs = 0
    for (pname, path, mkind, feats), outcomes in sorted(observations.items(), key=repr):
        pk, pf = path[-1] if path else (None, None)
        gate, entries = table[pname]
        ent = resolve_entries(entries, feats)
        m = ent.get(mkind)
        if m is None or m[2] != 'Always':
            # the table does not claim this pass eliminates the construct: it must never disappear silently
            # unless the table says Sometimes
            if m is None and True in outcomes and mkind not in ('Return',):
                bad.append('%s eliminated a %s under %s.%s but the table has no entry for it' % (pname, mkind, pk, pf))
            continue
        if mkind in m[3]:
            continue      # the pass re-creates the construct from a template (break lowering re-emits the loop)
        visited = True
        for (sk, sf) in path:
            step = ent.get(sk)
            if step is not None and not (step[0] or sf in step[1]):
                visited = False
        nobs += 1
        run.nontriv(('obs', pname, pk, pf, mkind))
        if outcomes != {visited}:
            bad.append('%s: %s under %s.%s -- table says %s, real pass %s (options %s)' % (
                pname, mkind, pk, pf, 'traversed' if visited else 'not traversed',
                'eliminated it' if outcomes == {True} else 'left it' if outcomes == {False} else 'behaved both ways',
                list(feats)))
    order = [pn for pn, _, _ in passes]
    for pname, kinds in sorted(intro_seen.items()):
        # material hidden in annotations by an earlier pass (EXTRA_LOOP_TEST) surfaces in control_flow: the
        # introduced kinds of this and of the earlier passes are allowed
        allowed = set()
        for pn, _, entries in passes[:order.index(pname) + 1]:
            for e in entries:
                allowed |= set(e[5])
        for k, where in kinds.items():
            if k == 'Return':
                continue      # tail/early classification of a user return moves with ConditionalReturnRewriter
            if k not in allowed:
                bad.append('%s introduced a %s (program %s) that no template of the table introduces' % (pname, k, where))
    run.extra['probe_observations'] = nobs
    return bad


def _coq_correspondence(cases, run):
    shards = [cases[i:i + 250] for i in range(0, len(cases), 250)]
    hdr = ['From Coq Require Import List String Bool.', 'Import ListNotations.',
           'Require Import MV.Route.Traversal MV.Route.Pipeline MV.Generated.C04_gen MV.Route.TraversalCheck.',
           'Local Open Scope string_scope.']
    spec = 'Definition py_exempt : list (string * string) := [%s].\nDefinition py_natives : list string := [%s].' % (
        '; '.join('(%s, %s)' % (vlib.coq_str(a), vlib.coq_str(b)) for a, b in EXEMPT),
        '; '.join(vlib.coq_str(x) for x in NATIVES))

    def one(arg):
        si, shard = arg
        body = hdr + [spec, 'Definition cases : list case := [',
                      ';\n'.join('(%d, [%s], %s, [%s])' % (c[0], '; '.join(vlib.coq_str(x) for x in c[1]), c[2],
                                                           '; '.join(vlib.coq_str(x) for x in c[3])) for c in shard),
                      '].',
                      'Eval vm_compute in (failing cases, ill_formed cases, unguarded cases, '
                      'if pairs_eqb py_exempt spec_exempt && subset py_natives spec_natives && subset spec_natives py_natives then [] else [1]).']
        return vlib.coq_eval('C04', 'cases_%d' % si, '\n'.join(body), timeout=600)
    with ThreadPoolExecutor(max_workers=8) as ex:
        results = list(ex.map(one, enumerate(shards)))
    bad, ill, ung = [], [], set()
    for rc, out in results:
        m = re.search(r'=\s*\((\[[^\]]*\]|nil)\s*,\s*(\[[^\]]*\]|nil)\s*,\s*(\[[^\]]*\]|nil)\s*,\s*(\[[^\]]*\]|nil)\)', out)
        if rc != 0 or not m:
            return 'model evaluation failed: ' + out[-600:], [], set()
        nums = [[int(x) for x in re.findall(r'\d+', m.group(i))] for i in (1, 2, 3, 4)]
        bad += nums[0]
        ill += nums[1]
        ung |= set(nums[2])
        if nums[3]:
            return 'the Python copy of spec_exempt/spec_natives differs from Route/Pipeline.v', [], set()
    run.extra['traces_validated_against_impl'] = len(cases)
    run.extra['cases_outside_guard'] = len(ung)
    msg = None
    if ill:
        c = cases[ill[0]]
        msg = 'exported program is not well-formed for the model (wf/kf false): %s' % c[4]['name']
    elif bad:
        c = cases[bad[0]]
        msg = 'model and implementation disagree on the surviving kinds for %d programs, e.g. %s (implementation: %s) options %s' % (
            len(bad), c[4]['name'], c[3], c[1])
    return msg, bad, ung


def replay(path):
    doc = json.load(open(path))
    print(json.dumps(doc, indent=1))
    rp = doc.get('replay', {})
    if 'program' not in rp:
        return 0
    tmp = vlib.ensure_dir(os.path.join(vlib.BUILD, 'tmp', str(os.getpid())))
    os.environ['TMPDIR'] = tmp
    try:
        impl = Impl(tmp)
        if rp.get('oracle') == 'dynamic':
            status, detail = run_dynamic(impl, rp['program'], {int(k): v for k, v in rp.get('roles', {}).items()},
                                         feats=tuple(rp.get('optional_features', [])))
            print('dynamic oracle now:', status, detail['problems'] if status == 'routing' else detail)
            return 1 if status == 'routing' else 0
        mod = impl.load(rp['program'])
        out = impl.convert_ast(mod.f, rp.get('optional_features', []))
        surv = survivors(observe(out, output=True), bool({'BUILTIN_FUNCTIONS', 'ALL'} & set(rp.get('optional_features', []))))
        print('surviving native constructs now:', [(o[0], '%s.%s' % (o[2], o[3])) for o in surv])
        return 1 if surv else 0
    finally:
        shutil.rmtree(tmp, ignore_errors=True)
