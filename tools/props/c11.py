"""C11 -- generated names never capture, shadow or clash with user names (DESIGN.md 4/C11).

 G  coq/Generated/C11_gen.v: which sets activity.Scope.referenced unions (the reserved set every
    converter passes to the Namer) and every new_symbol call site with its reserved argument
 H  coq/Names/Namer.v: Namer.new_symbol (root/number splitting, search loop), scope chains
 theorems: freshness / pairwise distinctness / termination for any number of requests; with the
    generated reserved set no generated name equals a name the user's code reads OR writes
 tie: sequences of requests against the real Namer vs the model evaluated in Coq
 oracle: differential run (as C01) of programs whose identifiers are drawn from the converter's own
    vocabulary in every role, plus: names handed out by the real Namer during those conversions must
    be disjoint from the identifiers of the source and of its namespace
 oracle (visible names): ordinary programs that do NOT mention any helper name, converted inside a module that
    defines globals (and, for a third, closure variables) named like every helper: no name the converter
    introduced (new locals / cell variables / nested function names of the converted code object compared with
    the original's, and every name the Namer handed out) may be a key of the function's namespace
"""
import ast
import os
import random
import re

from lib import vlib, convrun
from gen import progs
from translate import c11_names
from props import c01

VOCAB = ['do_return', 'retval_', 'break_', 'continue_', 'get_state', 'set_state', 'if_body', 'else_body',
         'loop_body', 'loop_test', 'itr', 'fscope', 'extra_test', 'do_return_1', 'continue__1', 'x', 'lscope',
         'get_state_1', 'loop_body_2', 'break__1']

KNOWN_AG = 'user-name-equals-fixed-alias-ag__'
# shapes the random generator does not produce: names bound by except clauses, parameters of lambdas
TEMPLATES = [
    'def f(a, b, c):\n    try:\n        raise E0()\n    except E0 as {n}:\n        if D(2):\n            return T(3)\n    return T(4)\n',
    'def f(a, b, c):\n    for i in L(1):\n        try:\n            raise E1()\n        except E1 as {n}:\n            if D(3):\n                continue\n'
    '            if D(4):\n                break\n        T(5, i)\n    return T(6)\n',
    'def f(a, b, c):\n    x = T(1)\n    try:\n        if D(2):\n            raise E2()\n    except E2 as {n}:\n        x = T(3, x)\n    while D(4):\n'
    '        if D(5):\n            return T(6, x)\n        x = T(7, x)\n    return x\n',
    'def f(a, b, c):\n    {n} = T(1)\n    for i in L(2):\n        {n} = T(3, {n})\n    return T(4, {n})\n',
    'def f(a, b, c):\n    return T(1, [T(2, {n}) for {n} in L(3)])\n',
    'def f(a, b, c):\n    g = lambda {n}: T(1, {n})\n    if D(2):\n        return T(3, g(a))\n    return T(4, g(b))\n',
    'def f(a, b, c):\n    return T(1, sum(T(2, {n}) for {n} in L(3)))\n',
    'f = lambda {n}, b, c: T(1, {n}, b)\n',
    'f = lambda a, b, {n}=5: (T(1, {n}), T(2, a))\n',
]
TEMPLATE_NAMES = ['do_return', 'retval_', 'break_', 'continue_', 'lscope', 'fscope', 'lscope_1', 'get_state', 'loop_body', 'itr', 'vars_',
                  'set_state', 'if_body', 'loop_test']

GLOBALS_PRELUDE = '\n' + '\n'.join('%s = %d' % (n, 1001 + i) for i, n in enumerate(
    ['get_state', 'set_state', 'if_body', 'else_body', 'loop_body', 'loop_test', 'itr', 'do_return', 'retval_', 'fscope'])) + '\n'


# ---- visible-names stream: the second clause of the property (a helper never coincides with a name that is
# visible to the function, mentioned or not).  Its module defines globals named like every helper root; it is a
# module of its own, so the other streams keep running in a module without such globals (there they would make
# the Namer avoid exactly the names under test).
HELPER_ROOTS = ['break_', 'continue_', 'get_state', 'set_state', 'if_body', 'else_body', 'loop_body', 'loop_test',
                'extra_test', 'itr', 'vars_', 'lscope', 'fscope', 'do_return', 'retval_', 'ag__lam']
VIS_PLAIN_NAMES = ['x', 'y', 'z', 'w']


def helper_roots():
    """the static list plus every literal root of a new_symbol call site of this tree"""
    roots = list(HELPER_ROOTS)
    try:
        for r in re.findall(r"\"'(\w+)'\"", c11_names.translate(vlib.REPO)):
            if r not in roots:
                roots.append(r)
    except c11_names.Untranslatable:
        pass
    return roots


def vis_prelude(roots, n):
    return c01.PRELUDE + '\n' + '\n'.join('%s = %d' % (r, 2001 + k) for k, r in enumerate(roots)) + '\n' + \
        '\n'.join('ag__f%d = %d' % (i, 3001 + i) for i in range(n)) + '\n'


def vis_source(src, i, closure):
    """module text of program i of the visible-names module; closure = helper names that are (also) variables of
    an enclosing function, which the program keeps alive as closure variables without using them"""
    if not closure or not src.startswith('def f('):
        return src
    head, body = src.split('\n', 1)
    inner = head + '\n    keep_ = lambda: (%s,)\n' % ', '.join(closure) + body
    return 'def mk%d():\n' % i + ''.join('    %s = %d\n' % (c, 4001 + k) for k, c in enumerate(closure)) + \
        ''.join('    ' + l + '\n' for l in inner.rstrip('\n').split('\n')) + '    return f%d\n\n\nf%d = mk%d()\n' % (i, i, i)


def code_names(code, top=True):
    """names a code object binds: its locals, cell variables, the names of the functions nested in it, recursively"""
    s = set(code.co_varnames) | set(code.co_cellvars)
    if top:
        s.add(code.co_name)
    for k in code.co_consts:
        if hasattr(k, 'co_code'):
            s.add(k.co_name)
            s |= code_names(k, False)
    return set(n for n in s if n.isidentifier())


def visible_namespace(f):
    """(names visible to the code of f from outside, names of those that inspect_utils.getnamespace omits)"""
    from malt.pyct import inspect_utils
    ns = set(inspect_utils.getnamespace(f))
    own = set(f.__globals__)
    for nm, cell in zip(f.__code__.co_freevars, f.__closure__ or ()):
        try:
            cell.cell_contents
            own.add(nm)
        except ValueError:
            pass
    return ns | own | set(f.__code__.co_freevars), sorted(own - ns)


def vis_check(f, g, handed_names):
    """None, or the description of a helper name that coincides with a name visible to f"""
    ns, omitted = visible_namespace(f)
    if omitted:
        return 'inspect_utils.getnamespace omits the name %r that is visible to the function' % omitted[0]
    introduced = code_names(g.__code__) - code_names(f.__code__)
    clash = sorted(introduced & ns)
    if clash:
        return ('the converted function binds the new name %r although a module global / closure variable of that name is '
                'visible to the user function' % clash[0])
    clash = sorted(set(handed_names) & ns)
    if clash:
        return 'the Namer handed out %r although the namespace of the function has a variable of that name' % clash[0]
    return None


def generate():
    vlib.write_if_changed(os.path.join(vlib.COQ, 'Generated', 'C11_gen.v'), c11_names.translate(vlib.REPO))


def namer_cases(rnd, n):
    from malt.pyct import naming, qual_names
    roots = ['x', 'x_1', 'x_2', 'get_state', 'loop_body', 'continue_', 'a_b_3', 'do_return', 'y_07', 'z_', '_', '5', 'q_1_2']
    cases = []
    for i in range(n):
        ns = rnd.sample(roots + ['x_3', 'get_state_1', 'loop_body_1', 'do_return_1'], rnd.randint(0, 5))
        namer = naming.Namer(set(ns))
        reqs = []
        outs = []
        for _ in range(rnd.randint(1, 7)):
            root = rnd.choice(roots)
            res = []
            reserved = set()
            pool = roots + ['x_1', 'x_2', 'loop_body_1']
            for _ in range(rnd.randint(0, 4)):
                k = rnd.random()
                a, b = rnd.choice(pool), rnd.choice(pool)
                if k < 0.5:
                    reserved.add(qual_names.QN(a) if rnd.random() < 0.7 else a)
                    res.append('QSimple %s' % vlib.coq_str(a))
                elif k < 0.8:
                    reserved.add(qual_names.QN(qual_names.QN(a), attr=b))
                    res.append('QAttr (QSimple %s) %s' % (vlib.coq_str(a), vlib.coq_str(b)))
                else:
                    reserved.add(qual_names.QN(qual_names.QN(a), subscript=qual_names.QN(b)))
                    res.append('QSub (QSimple %s) (QSimple %s)' % (vlib.coq_str(a), vlib.coq_str(b)))
            outs.append(namer.new_symbol(root, reserved))
            reqs.append((root, res))
        cases.append((i, ns, reqs, outs))
    return cases


def coq_strs(xs):
    return '[' + '; '.join(vlib.coq_str(x) for x in xs) + ']'


def check(run):
    quick = run.tier == 'quick'
    run.rule = ('(a) seeded request sequences against malt.pyct.naming.Namer vs the Coq model; (b) seeded programs whose local '
                'variables, parameters and loop targets are drawn from the converter vocabulary (do_return, retval_, break_, '
                'continue_, get_state, loop_body, itr, fscope, ...), run original vs converted under decision vectors; '
                'non-trivial = distinct program using >= 2 vocabulary names and a loop or early return; (c) programs that '
                'mention no helper name, converted in a module whose globals (and closure variables) are named like every '
                'helper: names introduced by the conversion vs the keys of the namespace of the function')
    tie_ok = True
    tie_msg = ''
    try:
        generate()
    except c11_names.Untranslatable as e:
        tie_ok = False
        tie_msg = str(e)
        run.note(tie_msg)
    if tie_ok:
        vlib.standard_proof_step(run, ['Names/NamerProofs.vo'])
    rnd = random.Random(run.seed * 31337 + 11)
    # (a) namer correspondence
    cases = namer_cases(rnd, 300 if quick else 3000)
    lines = []
    for i, ns, reqs, outs in cases:
        rq = '[' + '; '.join('(%s, [%s])' % (vlib.coq_str(r), '; '.join(res)) for r, res in reqs) + ']'
        lines.append('(%d, %s, %s, %s)' % (i, coq_strs(ns), rq, coq_strs(outs)))
    corr_bad = None
    if tie_ok:
        bad = []
        for k in range(0, len(lines), 300):
            body = ['From Coq Require Import String List Arith Bool.', 'Import ListNotations.',
                    'Require Import MV.Names.Namer.', 'Local Open Scope string_scope.',
                    'Definition list_string_beq (a b : list string) : bool := andb (Nat.eqb (length a) (length b)) (forallb (fun p => String.eqb (fst p) (snd p)) (combine a b)).',
                    'Definition cases : list (nat * list string * list (string * list qn) * list string) := [',
                    ';\n'.join(lines[k:k + 300]), '].',
                    'Definition ok (c : nat * list string * list (string * list qn) * list string) : bool :=',
                    '  match c with (_, ns, reqs, outs) => match new_symbols ns [] reqs with Some (cs, _) => list_string_beq cs outs | None => false end end.',
                    'Eval vm_compute in map (fun c => match c with (i, _, _, _) => i end) (filter (fun c => negb (ok c)) cases).']
            rc, out = vlib.coq_eval('C11', 'namer_%d' % k, '\n'.join(body), timeout=600)
            r = vlib.parse_coq_list_of_nat(out) if rc == 0 else None
            if r is None:
                corr_bad = 'model evaluation failed: ' + out[-500:]
                break
            bad += r
        if bad:
            i = bad[0]
            corr_bad = 'Namer model and implementation disagree on request sequences %s, e.g. namespace %r requests %r -> %r' % (
                bad[:6], cases[i][1], cases[i][2], cases[i][3])
        run.count(len(cases))
        run.extra['namer_sequences'] = len(cases)
    # (b) programs over the converter vocabulary
    from malt.pyct import naming
    handed = []
    orig_new = naming.Namer.new_symbol

    def spy(self, name_root, reserved_locals):
        r = orig_new(self, name_root, reserved_locals)
        handed.append((r, set(self.global_namespace)))
        return r
    failures = []
    vis_failures = []
    nprog = 70 if quick else 700
    srcs = []
    skinds = []
    for it in range(nprog):
        names = rnd.sample(VOCAB, 4)
        opts = progs.Opts(loop_else=False, reads='safe', names=names, max_stmts=12, fresh_for_targets=rnd.random() < 0.7,
                          nested_def=True)
        if it % 3 == 0:
            # vocabulary names that exist only as module globals read inside nested functions: the enclosing
            # function never mentions them, yet a helper of that name defined there would capture the read
            opts.names = ['x', 'y', 'z', 'w']
            opts.nested_global_reads = ['get_state', 'set_state', 'if_body', 'else_body', 'loop_body', 'loop_test', 'itr',
                                        'do_return', 'retval_', 'fscope']
            opts.max_depth = 3
        skinds.append('nested_global_reads' if it % 3 == 0 else 'plain')
        src = progs.gen_function(rnd, opts)
        # parameters from the vocabulary as well
        ps = rnd.sample(VOCAB, 3)
        src = re.sub(r'\b([abc])\b', lambda m: ps['abc'.index(m.group(1))], src)
        srcs.append(src)
    cdir = os.path.join(vlib.ROOT, 'corpus', 'C11')
    csrcs, cvecs = [], []
    if os.path.isdir(cdir):
        for fnm in sorted(os.listdir(cdir)):
            if fnm.endswith('.py'):
                first, rest = open(os.path.join(cdir, fnm)).read().split('\n', 1)
                csrcs.append(rest)
                cvecs.append(eval(first.split(':', 1)[1]))
    tsrcs = [t.replace('{n}', n) for t in TEMPLATES for n in (TEMPLATE_NAMES if not quick else rnd.sample(TEMPLATE_NAMES, 5) + ['do_return', 'lscope', 'fscope', 'vars_'])]
    srcs = tsrcs + srcs
    allsrc = csrcs + srcs
    kinds = ['corpus'] * len(csrcs) + ['template'] * len(tsrcs) + skinds
    naming.Namer.new_symbol = spy
    try:
        # module globals named like generated symbols only for the programs that read them from nested functions:
        # elsewhere they would make the Namer avoid exactly the names under test
        uses_globals = [('nested_global_reads' in kind) for kind in kinds]
        modg = convrun.load_module([s_ if u else 'def f(a, b, c):\n    return 0\n' for s_, u in zip(allsrc, uses_globals)],
                                   c01.PRELUDE + GLOBALS_PRELUDE)
        modp = convrun.load_module([s_ if not u else 'def f(a, b, c):\n    return 0\n' for s_, u in zip(allsrc, uses_globals)],
                                   c01.PRELUDE)
        for i, src in enumerate(allsrc):
            mod = modg if uses_globals[i] else modp
            f = getattr(mod, 'f%d' % i)
            idents = set(n.id for n in ast.walk(ast.parse(src)) if isinstance(n, ast.Name)) | \
                set(a.arg for n in ast.walk(ast.parse(src)) if isinstance(n, ast.arguments) for a in n.args)
            used_vocab = idents & set(VOCAB)
            if len(used_vocab) >= 2 and re.search(r'\b(while|for|return)\b', src):
                run.nontriv(src)
            del handed[:]
            try:
                g = c01.convert(f, True, None)
            except Exception as e:  # noqa
                failures.append(('conversion failed with %s: %s' % (type(e).__name__, str(e)[:200]), src, None))
                continue
            clash = [(nm) for nm, ns in handed if nm in idents]
            if clash:
                failures.append(('the converter generated the helper name %r although the user function uses that identifier' % clash[0], src, None))
            for dv in ([cvecs[i]] if i < len(csrcs) else []) + c01.VECTORS[:6]:
                a = convrun.run_one(mod, f, dv, False)
                b = convrun.run_one(mod, g, dv, False)
                run.count()
                d = convrun.describe_diff(a, b)
                if d:
                    if c01.is_for_target_finding(src, a, b) and not (idents & {'ag__'}):
                        pass      # root cause C07, reported by C01/C07
                    elif 'ag__' in idents:
                        run.violation(d, {}, classify=KNOWN_AG)
                    else:
                        failures.append((d, src, dv))
                    break
            if len(run.samples) < 3 and i >= len(csrcs):
                run.sample({'program': src, 'names_generated': sorted(set(n for n, _ in handed))})
        run.extra['programs'] = len(allsrc)
        # (c) visible names
        roots = helper_roots()
        vsrcs = [t.replace('{n}', 'e1') for t in TEMPLATES]
        for it in range(24 if quick else 240):
            opts = progs.Opts(loop_else=False, reads='safe', names=list(VIS_PLAIN_NAMES), max_stmts=10 if it % 2 else 5,
                              fresh_for_targets=True, nested_def=it % 2 == 0)
            vsrcs.append(progs.gen_function(rnd, opts))
        vclos = [sorted(rnd.sample(roots, 4)) if (i % 3 == 1 and sv.startswith('def f(')) else None for i, sv in enumerate(vsrcs)]
        vprelude = vis_prelude(roots, len(vsrcs))
        modv = convrun.load_module([vis_source(sv, i, vclos[i]) for i, sv in enumerate(vsrcs)], vprelude)
        nvis = 0
        for i, sv in enumerate(vsrcs):
            f = getattr(modv, 'f%d' % i)
            del handed[:]
            try:
                g = c01.convert(f, True, None)
            except Exception as e:  # noqa
                vis_failures.append(('conversion failed with %s: %s' % (type(e).__name__, str(e)[:200]), sv, vclos[i]))
                continue
            run.count()
            nvis += 1
            if len(code_names(g.__code__) - code_names(f.__code__)) >= 3:
                run.nontriv('visible:' + sv)
            what = vis_check(f, g, [nm for nm, _ in handed])
            if what:
                vis_failures.append((what, sv, vclos[i]))
        run.extra['visible_name_programs'] = nvis
        run.extra['visible_name_roots'] = roots
    finally:
        naming.Namer.new_symbol = orig_new
        convrun.cleanup()
    seen = set()
    for what, src, dv in failures:
        key = re.sub(r'\d+', 'N', what)[:50]
        if key in seen:
            continue
        seen.add(key)
        run.violation('conversion changed the meaning of a user name / helper name clash: ' + what,
                      {'program': src, 'decisions': dv, 'recursive': True, 'features': 'None', 'prelude': c01.PRELUDE})
    # the smallest program of the visible-names stream that fails, per kind of failure
    for what, src, clos in sorted(vis_failures, key=lambda t: (len(t[1]), t[1])):
        key = 'visible:' + re.sub(r"\d+|'\w+'", 'N', what)[:60]
        if key in seen:
            continue
        seen.add(key)
        run.violation('a name introduced by the converter coincides with a name visible to the user function: ' + what,
                      {'kind': 'visible_names', 'program': src, 'closure': clos, 'roots': roots,
                       'how': 'the program is function f0 of a module that defines the globals named in roots (see replay())'})
    failures = failures + vis_failures
    if not failures and (not tie_ok or corr_bad):
        run.violation('tie between the Namer model and the code broke: ' + (tie_msg or corr_bad),
                      {'broken': tie_msg or corr_bad, 'searched': 'vocabulary programs: no failing input'}, found_input=False)
    run.assumptions += ['identifiers are compared as ASCII strings; Python str.isdigit on non-ASCII digits is not modelled',
                        'the fixed module alias ag__ is not produced by the Namer (known finding when a user variable has that name)']


def replay(path):
    import json
    doc = json.load(open(path))
    rp = doc.get('replay', {})
    if rp.get('kind') != 'visible_names':
        return c01.replay(path)
    from malt.pyct import naming
    handed = []
    orig_new = naming.Namer.new_symbol

    def spy(self, name_root, reserved_locals):
        r = orig_new(self, name_root, reserved_locals)
        handed.append(r)
        return r
    naming.Namer.new_symbol = spy
    try:
        text = vis_source(rp['program'], 0, rp.get('closure'))
        mod = convrun.load_module([text], vis_prelude(rp['roots'], 1))
        g = c01.convert(mod.f0, True, None)
        what = vis_check(mod.f0, g, handed)
        print(text)
        print('module globals / closure variables defined next to it:', ', '.join(rp['roots'] + ['ag__f0']))
        print('names introduced by the conversion:', sorted(code_names(g.__code__) - code_names(mod.f0.__code__)))
        print(what or 'no clash')
        return 1 if what else 0
    finally:
        naming.Namer.new_symbol = orig_new
        convrun.cleanup()
