"""C11 -- generated names never capture, shadow or clash with user names (DESIGN.md 4/C11).

 G  coq/Generated/C11_gen.v: which sets activity.Scope.referenced unions (the reserved set every
    converter passes to the Namer) and every new_symbol call site with its reserved argument
 H  coq/Names/Namer.v: Namer.new_symbol (root/number splitting, search loop), scope chains
 theorems: freshness / pairwise distinctness / termination for any number of requests; with the
    generated reserved set no generated name equals a name the user's code reads OR writes
 tie: sequences of requests against the real Namer vs the model evaluated in Coq
 oracle: differential run (as C01) of programs whose identifiers are drawn from the converter's own
    vocabulary in every role, plus: names handed out by the real Namer during those conversions must
    be disjoint from the identifiers of the source and of its namespace
 oracle (visible names): ordinary programs that do NOT mention any helper name, converted inside a module that
    defines globals (and, for a third, closure variables) named like every helper: no name the converter
    introduced (new locals / cell variables / nested function names of the converted code object compared with
    the original's, and every name the Namer handed out) may be a key of the function's namespace
 oracle (enclosing scopes): the converted entity is generated INSIDE wrapper functions (transpiler._wrap_into_factory:
    def outer(): def inner(ag__): def entity(...)); a name bound by a scope that lexically encloses the entity
    captures every read of that name which the user code resolves outside the function.  The wrapper vocabulary is
    DISCOVERED on the tree under test (names bound by the enclosing scopes of a probe conversion in a clean module,
    every root requested with an empty reserved set, the resolved roots of the translated call sites) and then used in
    every role: global read directly / in a nested def + comprehension / in a lambda / in a loop with early return /
    in a callee converted recursively / declared global and written; closure variable; local, parameter, loop target,
    except-as name, comprehension target, lambda parameter, nested function name.  Judged: conversion succeeds,
    original vs converted agree, no callee is silently left unconverted, and no scope enclosing the entity binds a
    name the function resolves outside itself (stream (c): nor a key of its namespace)
"""
import ast
import dis
import os
import random
import re
import symtable
import types

from lib import vlib, convrun
from gen import progs
from translate import c11_names
from props import c01

VOCAB = ['do_return', 'retval_', 'break_', 'continue_', 'get_state', 'set_state', 'if_body', 'else_body',
         'loop_body', 'loop_test', 'itr', 'fscope', 'extra_test', 'do_return_1', 'continue__1', 'x', 'lscope',
         'get_state_1', 'loop_body_2', 'break__1']

KNOWN_AG = 'user-name-equals-fixed-alias-ag__'
# shapes the random generator does not produce: names bound by except clauses, parameters of lambdas
TEMPLATES = [
    'def f(a, b, c):\n    try:\n        raise E0()\n    except E0 as {n}:\n        if D(2):\n            return T(3)\n    return T(4)\n',
    'def f(a, b, c):\n    for i in L(1):\n        try:\n            raise E1()\n        except E1 as {n}:\n            if D(3):\n                continue\n'
    '            if D(4):\n                break\n        T(5, i)\n    return T(6)\n',
    'def f(a, b, c):\n    x = T(1)\n    try:\n        if D(2):\n            raise E2()\n    except E2 as {n}:\n        x = T(3, x)\n    while D(4):\n'
    '        if D(5):\n            return T(6, x)\n        x = T(7, x)\n    return x\n',
    'def f(a, b, c):\n    {n} = T(1)\n    for i in L(2):\n        {n} = T(3, {n})\n    return T(4, {n})\n',
    'def f(a, b, c):\n    return T(1, [T(2, {n}) for {n} in L(3)])\n',
    'def f(a, b, c):\n    g = lambda {n}: T(1, {n})\n    if D(2):\n        return T(3, g(a))\n    return T(4, g(b))\n',
    'def f(a, b, c):\n    return T(1, sum(T(2, {n}) for {n} in L(3)))\n',
    'f = lambda {n}, b, c: T(1, {n}, b)\n',
    'f = lambda a, b, {n}=5: (T(1, {n}), T(2, a))\n',
]
TEMPLATE_NAMES = ['do_return', 'retval_', 'break_', 'continue_', 'lscope', 'fscope', 'lscope_1', 'get_state', 'loop_body', 'itr', 'vars_',
                  'set_state', 'if_body', 'loop_test']

GLOBALS_PRELUDE = '\n' + '\n'.join('%s = %d' % (n, 1001 + i) for i, n in enumerate(
    ['get_state', 'set_state', 'if_body', 'else_body', 'loop_body', 'loop_test', 'itr', 'do_return', 'retval_', 'fscope'])) + '\n'


# ---- visible-names stream: the second clause of the property (a helper never coincides with a name that is
# visible to the function, mentioned or not).  Its module defines globals named like every helper root; it is a
# module of its own, so the other streams keep running in a module without such globals (there they would make
# the Namer avoid exactly the names under test).
HELPER_ROOTS = ['break_', 'continue_', 'get_state', 'set_state', 'if_body', 'else_body', 'loop_body', 'loop_test',
                'extra_test', 'itr', 'vars_', 'lscope', 'fscope', 'do_return', 'retval_', 'ag__lam']
VIS_PLAIN_NAMES = ['x', 'y', 'z', 'w']


def helper_roots():
    """the static list plus every literal root of a new_symbol call site of this tree"""
    roots = list(HELPER_ROOTS)
    try:
        for r in re.findall(r"\"'(\w+)'\"", c11_names.translate(vlib.REPO)):
            if r not in roots:
                roots.append(r)
    except c11_names.Untranslatable:
        pass
    return roots


def vis_prelude(roots, n):
    return c01.PRELUDE + '\n' + '\n'.join('%s = %d' % (r, 2001 + k) for k, r in enumerate(roots)) + '\n' + \
        '\n'.join('ag__f%d = %d' % (i, 3001 + i) for i in range(n)) + '\n'


def vis_source(src, i, closure):
    """module text of program i of the visible-names module; closure = helper names that are (also) variables of
    an enclosing function, which the program keeps alive as closure variables without using them"""
    if not closure or not src.startswith('def f('):
        return src
    head, body = src.split('\n', 1)
    inner = head + '\n    keep_ = lambda: (%s,)\n' % ', '.join(closure) + body
    return 'def mk%d():\n' % i + ''.join('    %s = %d\n' % (c, 4001 + k) for k, c in enumerate(closure)) + \
        ''.join('    ' + l + '\n' for l in inner.rstrip('\n').split('\n')) + '    return f%d\n\n\nf%d = mk%d()\n' % (i, i, i)


def code_names(code, top=True):
    """names a code object binds: its locals, cell variables, the names of the functions nested in it, recursively"""
    s = set(code.co_varnames) | set(code.co_cellvars)
    if top:
        s.add(code.co_name)
    for k in code.co_consts:
        if hasattr(k, 'co_code'):
            s.add(k.co_name)
            s |= code_names(k, False)
    return set(n for n in s if n.isidentifier())


def visible_namespace(f):
    """(names visible to the code of f from outside, names of those that inspect_utils.getnamespace omits)"""
    from malt.pyct import inspect_utils
    ns = set(inspect_utils.getnamespace(f))
    own = set(f.__globals__)
    for nm, cell in zip(f.__code__.co_freevars, f.__closure__ or ()):
        try:
            cell.cell_contents
            own.add(nm)
        except ValueError:
            pass
    return ns | own | set(f.__code__.co_freevars), sorted(own - ns)


def vis_check(f, g, handed_names):
    """None, or the description of a helper name that coincides with a name visible to f"""
    ns, omitted = visible_namespace(f)
    if omitted:
        return 'inspect_utils.getnamespace omits the name %r that is visible to the function' % omitted[0]
    introduced = code_names(g.__code__) - code_names(f.__code__)
    clash = sorted(introduced & ns)
    if clash:
        return ('the converted function binds the new name %r although a module global / closure variable of that name is '
                'visible to the user function' % clash[0])
    clash = sorted(set(handed_names) & ns)
    if clash:
        return 'the Namer handed out %r although the namespace of the function has a variable of that name' % clash[0]
    wc = wrapper_clash(f, g, ns)
    if wc:
        return wc[1]
    return None


# ---- enclosing scopes: the wrappers the transpiler generates around the converted entity ---------------------
# read-only uses of {n} that are resolved OUTSIDE f: {n} is a module global (a function) or a variable of an
# enclosing function (closure role: the same text wrapped by enclose())
OUTSIDE_TEMPLATES = [
    ('read directly in both branches',
     'def f(a, b, c):\n    if D(1):\n        y = T(2, {n}(1))\n    else:\n        y = T(3, {n}())\n    return T(4, y)\n'),
    ('read two levels down (nested def + comprehension)',
     'def f(a, b, c):\n    def lev1(p):\n        return T(1, p, [T(2, {n}(k)) for k in L(3)])\n    if D(4):\n        y = lev1(a)\n    else:\n        y = T(5)\n'
     '    return T(6, y)\n'),
    ('read in a lambda called from a loop',
     'def f(a, b, c):\n    h = lambda q: T(1, {n}(q))\n    while D(2):\n        a = T(3, h(a))\n        if D(4):\n            break\n    return T(5, a)\n'),
    ('read in a for loop with an early return, and as a bare name',
     'def f(a, b, c):\n    for i in L(1):\n        if D(2):\n            return T(3, {n}(i))\n        c = T(4, c, i)\n    return T(5, c, {n} is None)\n'),
]
# {n} is a module global only
GLOBAL_TEMPLATES = [
    ('read by a callee that is converted recursively',
     'def f(a, b, c):\n    if D(1):\n        return T(2, RD_{n}(a))\n    return T(3, RD_{n}(b))\n'),
    ('declared global and written',
     'def f(a, b, c):\n    global {n}\n    if D(1):\n        {n} = T(2)\n    return T(3, {n} if isinstance({n}, int) else 0)\n'),
]
# {n} is bound inside f
INSIDE_TEMPLATES = [
    ('name of a nested function',
     'def f(a, b, c):\n    def {n}(p):\n        return T(1, p)\n    if D(2):\n        return T(3, {n}(a))\n    return T(4, {n}(b))\n'),
    ('parameter rewritten in a loop',
     'def f(a, {n}, c):\n    while D(1):\n        {n} = T(2, {n})\n        if D(3):\n            continue\n        a = T(4, a)\n    return T(5, {n}, a)\n'),
    ('for-loop target',
     'def f(a, b, c):\n    for {n} in L(1):\n        if D(2):\n            break\n        a = T(3, a, {n})\n    return T(4, a)\n'),
    ('assigned only',
     'def f(a, b, c):\n    for i in L(1):\n        {n} = T(2, i)\n        if D(3):\n            return T(4, i)\n    return T(5)\n'),
]


def rd_helper(n):
    """module-level function that reads the global n from inside a loop (converted when a converted f calls it)"""
    return 'def RD_%s(x):\n    while D(950):\n        x = T(951, x)\n    return T(952, x, %s(x))\n' % (n, n)


def global_def(n, k):
    return 'def %s(q=0):\n    return T(%d, q)\n' % (n, 960 + k)


def enclose(src, i, n, k):
    """program i with n as a variable of an enclosing function (n is a free variable of f)"""
    head, body = src.split('\n', 1)
    return 'def mk%d():\n    %s = lambda q=0: T(%d, q)\n' % (i, n, 980 + k) + \
        ''.join('    ' + l + '\n' for l in (head + '\n' + body).rstrip('\n').split('\n')) + \
        '    return f%d\n\n\nf%d = mk%d()\n' % (i, i, i)


def entity_chain(g):
    """code objects of the function scopes of the generated module that lexically enclose the converted entity g,
    outermost first, and the names bound at the top level of that module; (None, []) when g carries no module"""
    mod = getattr(g, 'ag_module', None)
    target = getattr(g, '__code__', None)
    if mod is None or target is None:
        return None, []

    def find(code, path):
        for k in code.co_consts:
            if isinstance(k, types.CodeType):
                if k is target or k == target:
                    return path + [code]
                r = find(k, path + [code])
                if r:
                    return r
        return None
    top = sorted(k for k in vars(mod) if not (k.startswith('__') and k.endswith('__')))
    for k in top:
        v = vars(mod)[k]
        if isinstance(v, types.FunctionType):
            r = find(v.__code__, [])
            if r:
                return r, top
    return None, top


def enclosing_bound(g):
    """{name: the wrapper scope that binds it} for the scopes that lexically enclose the converted entity"""
    chain, _ = entity_chain(g)
    out = {}
    for code in chain or []:
        for nm in list(code.co_varnames) + list(code.co_cellvars):
            out.setdefault(nm, code.co_name)
    return out


def entity_names(g):
    """the name(s) the innermost wrapper binds besides its parameters: the entity itself (derived from the user's own
    function name, e.g. ag__f / ag__lam)"""
    chain, _ = entity_chain(g)
    if not chain:
        return set()
    inner = chain[-1]
    nargs = inner.co_argcount + inner.co_kwonlyargcount
    return set(inner.co_varnames[nargs:]) | (set(inner.co_cellvars) - set(inner.co_varnames[:nargs]))


def resolved_outside(code):
    """names the code (and everything nested in it) resolves in the module globals / builtins"""
    s = set()
    for ins in dis.get_instructions(code):
        if ins.opname in ('LOAD_GLOBAL', 'LOAD_NAME', 'STORE_GLOBAL', 'DELETE_GLOBAL', 'STORE_NAME', 'DELETE_NAME'):
            s.add(ins.argval)
    for k in code.co_consts:
        if isinstance(k, types.CodeType):
            s |= resolved_outside(k)
    return s


def implicit_globals(src):
    """names that some function / lambda / comprehension of the source text resolves in the module globals WITHOUT a
    `global` declaration: the reads an enclosing binding would capture (a declared global is immune)"""
    out = set()

    def walk(tab, top):
        if not top and tab.get_type() == 'function':
            for sym in tab.get_symbols():
                if sym.is_global() and not sym.is_declared_global():
                    out.add(sym.get_name())
        for ch in tab.get_children():
            walk(ch, False)
    walk(symtable.symtable(src, '<program>', 'exec'), True)
    return out


def wrapper_clash(f, g, visible=(), src=None):
    """None, or (name, description): a scope that encloses the converted entity binds a name that the user function
    resolves outside itself (or, with `visible`, a name of its namespace).  The dummies that re-create the function's
    own closure variables are its own names.  With the source text, names the function only uses under a `global`
    declaration are not counted as captured."""
    bound = enclosing_bound(g)
    own = set(f.__code__.co_freevars)
    outside = resolved_outside(f.__code__)
    if src is not None:
        try:
            outside &= implicit_globals(src)
        except SyntaxError:
            pass
    for nm in sorted(bound):
        if nm in own:
            continue
        if nm in outside:
            return nm, ('the generated wrapper scope %r, which lexically encloses the converted code, binds %r: the function '
                        'reads that name as a global, so the read is captured' % (bound[nm], nm))
        if nm in visible:
            return nm, ('the generated wrapper scope %r, which lexically encloses the converted code, binds %r although a module '
                        'global / closure variable of that name is visible to the user function' % (bound[nm], nm))
    return None


def wrapper_vocabulary(requests):
    """Names of the scaffolding the transpiler puts around a converted entity ON THIS TREE, and the prefix of the name
    of the entity: (sorted names, prefix).  Sources: the scopes enclosing the entity of probe conversions in a clean
    module (numbers stripped), every root requested there with an EMPTY reserved set, the resolved roots of the
    translated new_symbol call sites that pass `()`.  The fixed alias (known finding) and the user's own names are
    not part of it."""
    names = set()
    prefix = ''
    probes = ['def f(a, b, c):\n    if D(1):\n        a = T(2, a)\n    return T(3, a)\n',
              'f = lambda a, b, c: T(1, a)\n']
    try:
        mod = convrun.load_module(probes, c01.PRELUDE)
        for i in range(len(probes)):
            f = getattr(mod, 'f%d' % i)
            del requests[:]
            try:
                g = c01.convert(f, True, None)
            except Exception:  # noqa
                continue
            own = set(f.__code__.co_varnames) | set(f.__code__.co_freevars) | {f.__code__.co_name, 'ag__'}
            enames = entity_names(g) | {g.__code__.co_name}
            for ename in sorted(enames):
                if f.__code__.co_name.isidentifier() and ename.endswith(f.__code__.co_name) and not prefix:
                    prefix = ename[:-len(f.__code__.co_name)]
            chain, top = entity_chain(g)
            for nm in list(enclosing_bound(g)) + list(top):
                if nm not in own and nm not in enames:
                    names.add(nm)
            for root, empty, res in requests:
                if empty and res not in enames and root not in own:
                    names.add(root)
    except Exception:  # noqa
        pass
    try:
        text = c11_names.translate(vlib.REPO)
        for root, flag in re.findall(r"\"malt/(?!converters)[^\"]*\", \"'(\w+)'\", (true|false)", text.split('receivers_gen')[-1]):
            names.add(root)
    except c11_names.Untranslatable:
        pass
    if not names:
        try:
            import inspect
            from malt.pyct import transpiler
            for pn, pv in inspect.signature(transpiler._PythonFnFactory.create).parameters.items():
                if pn.endswith('_name') and isinstance(pv.default, str):
                    names.add(pv.default)
        except Exception:  # noqa
            pass
    names = set(re.sub(r'_\d+$', '', n) for n in names if n.isidentifier())
    return sorted(names), prefix


def enclosing_programs(rnd, quick, wnames, prefix):
    """[(role, name, module ('G' = the name is a module global / 'P' = it is not), source builder)]: the wrapper
    vocabulary (with numbered variants, the name of the entity, and a few names of the body-level vocabulary for the
    roles the other streams do not have) in every role"""
    progs_ = []
    numbered = [n + '_1' for n in wnames]
    body = rnd.sample(['do_return', 'retval_', 'get_state', 'set_state', 'if_body', 'else_body', 'loop_body', 'loop_test',
                       'itr', 'fscope', 'break_', 'continue_', 'vars_', 'lscope'], 3 if quick else 14)
    for n in wnames + numbered + body + ['@entity']:
        full = n in wnames or not quick
        outs = OUTSIDE_TEMPLATES if full else rnd.sample(OUTSIDE_TEMPLATES, 2)
        for role, t in outs:
            progs_.append(('global ' + role, n, 'G', t, False))
        for role, t in (outs if full else outs[:1]):
            progs_.append(('closure variable ' + role, n, 'P', t, True))
        if n != '@entity':
            for role, t in GLOBAL_TEMPLATES:
                progs_.append(('global ' + role, n, 'G', t, False))
        if n in wnames or n in numbered:
            ins = [(r_, t_) for r_, t_ in INSIDE_TEMPLATES] + [('template %d' % k, t_) for k, t_ in enumerate(TEMPLATES)]
            for role, t in (ins if full else rnd.sample(ins, 4)):
                progs_.append(('local: ' + role, n, 'P', t, False))
    return progs_


def enc_source(template, spec, i, closure, prefix):
    """(source text of program i, the identifier under test)"""
    n = (prefix + 'f%d' % i) if spec == '@entity' else spec
    src = template.replace('{n}', n)
    return (enclose(src, i, n, 0) if closure else src), n


def enc_prelude(names):
    return c01.PRELUDE + '\n' + '\n'.join(global_def(n, k % 19) + '\n' + rd_helper(n) for k, n in enumerate(names)) + '\n'


def enc_judge(mod, f, src, idents, handed, requests, warned, vectors, extra_globals, run=None):
    """None, or (what, decisions) for one program of the enclosing-scopes stream"""
    del handed[:]
    del requests[:]
    del warned[:]
    try:
        g = c01.convert(f, True, None)
    except Exception as e:  # noqa
        return 'conversion failed with %s: %s' % (type(e).__name__, re.sub(r' at 0x[0-9a-f]+', '', str(e))[:200]), None
    wc = wrapper_clash(f, g, (), src)
    if wc:
        return wc[1], None
    # helpers of the body live INSIDE the function: they must differ from every identifier of it; the names bound by the
    # wrapper scopes live outside it, where a binding of the function shadows them and only the names it resolves
    # outside can be captured (wrapper_clash above)
    outer_names = set(enclosing_bound(g)) | set(entity_chain(g)[1])
    clash = [nm for nm, _ in handed if nm in idents and nm not in outer_names]
    if clash:
        return 'the converter generated the helper name %r although the user function uses that identifier' % clash[0], None
    for dv in vectors:
        a = convrun.run_one(mod, f, dv, False, extra_globals)
        b = convrun.run_one(mod, g, dv, False, extra_globals)
        if run is not None:
            run.count()
        d = convrun.describe_diff(a, b)
        if d:
            return d, dv
        left = [w for w in warned if 'could not transform' in w]
        if left:
            cause = [l for l in left[0].splitlines() if l.startswith('Cause')]
            return ('a function called by the converted code was silently left unconverted (%s; %s)' % (
                re.sub(r' at 0x[0-9a-f]+', '', left[0].splitlines()[0])[:120], cause[0][:120] if cause else 'no cause given')), dv
    return None


def generate():
    vlib.write_if_changed(os.path.join(vlib.COQ, 'Generated', 'C11_gen.v'), c11_names.translate(vlib.REPO))


def namer_cases(rnd, n):
    from malt.pyct import naming, qual_names
    roots = ['x', 'x_1', 'x_2', 'get_state', 'loop_body', 'continue_', 'a_b_3', 'do_return', 'y_07', 'z_', '_', '5', 'q_1_2']
    cases = []
    for i in range(n):
        ns = rnd.sample(roots + ['x_3', 'get_state_1', 'loop_body_1', 'do_return_1'], rnd.randint(0, 5))
        namer = naming.Namer(set(ns))
        reqs = []
        outs = []
        for _ in range(rnd.randint(1, 7)):
            root = rnd.choice(roots)
            res = []
            reserved = set()
            pool = roots + ['x_1', 'x_2', 'loop_body_1']
            for _ in range(rnd.randint(0, 4)):
                k = rnd.random()
                a, b = rnd.choice(pool), rnd.choice(pool)
                if k < 0.5:
                    reserved.add(qual_names.QN(a) if rnd.random() < 0.7 else a)
                    res.append('QSimple %s' % vlib.coq_str(a))
                elif k < 0.8:
                    reserved.add(qual_names.QN(qual_names.QN(a), attr=b))
                    res.append('QAttr (QSimple %s) %s' % (vlib.coq_str(a), vlib.coq_str(b)))
                else:
                    reserved.add(qual_names.QN(qual_names.QN(a), subscript=qual_names.QN(b)))
                    res.append('QSub (QSimple %s) (QSimple %s)' % (vlib.coq_str(a), vlib.coq_str(b)))
            outs.append(namer.new_symbol(root, reserved))
            reqs.append((root, res))
        cases.append((i, ns, reqs, outs))
    return cases


def wrapper_cases(rnd, n, wnames, start):
    """request sequences shaped like one conversion: the requests of the body (each with a reserved set) followed by the
    requests for the wrapper names with the EMPTY reserved set, against a namespace that may hold those very names"""
    from malt.pyct import naming, qual_names
    body = ['if_body', 'else_body', 'loop_body', 'get_state', 'set_state', 'do_return', 'retval_', 'fscope']
    pool = list(wnames) + [w + '_1' for w in wnames] + [w + '_2' for w in wnames] + body
    cases = []
    for i in range(n):
        ns = rnd.sample(pool, rnd.randint(0, min(5, len(pool))))
        namer = naming.Namer(set(ns))
        reqs, outs = [], []
        for _ in range(rnd.randint(0, 4)):
            root = rnd.choice(body + list(wnames))
            rs = rnd.sample(pool, rnd.randint(0, 3))
            outs.append(namer.new_symbol(root, set(qual_names.QN(a) for a in rs)))
            reqs.append((root, ['QSimple %s' % vlib.coq_str(a) for a in rs]))
        for w in list(wnames) + ([rnd.choice(pool)] if pool else []):
            outs.append(namer.new_symbol(w, ()))
            reqs.append((w, []))
        cases.append((start + i, ns, reqs, outs))
    return cases


def coq_strs(xs):
    return '[' + '; '.join(vlib.coq_str(x) for x in xs) + ']'


def check(run):
    quick = run.tier == 'quick'
    run.rule = ('(a) seeded request sequences against malt.pyct.naming.Namer vs the Coq model; (b) seeded programs whose local '
                'variables, parameters and loop targets are drawn from the converter vocabulary (do_return, retval_, break_, '
                'continue_, get_state, loop_body, itr, fscope, ...), run original vs converted under decision vectors; '
                'non-trivial = distinct program using >= 2 vocabulary names and a loop or early return; (c) programs that '
                'mention no helper name, converted in a module whose globals (and closure variables) are named like every '
                'helper: names introduced by the conversion vs the keys of the namespace of the function')
    tie_ok = True
    tie_msg = ''
    try:
        generate()
    except c11_names.Untranslatable as e:
        tie_ok = False
        tie_msg = str(e)
        run.note(tie_msg)
    if tie_ok:
        vlib.standard_proof_step(run, ['Names/NamerProofs.vo'])
    rnd = random.Random(run.seed * 31337 + 11)
    from malt.pyct import naming
    handed = []
    requests = []      # (root, the reserved set is empty, result)
    orig_new = naming.Namer.new_symbol

    def spy(self, name_root, reserved_locals):
        r = orig_new(self, name_root, reserved_locals)
        handed.append((r, set(self.global_namespace)))
        requests.append((name_root, not reserved_locals, r))
        return r
    # the wrapper vocabulary of this tree (own random streams: the draws of (a), (b) and (c) stay what they were)
    rnd_e = random.Random(run.seed * 7919 + 1110)
    naming.Namer.new_symbol = spy
    try:
        wnames, wprefix = wrapper_vocabulary(requests)
    finally:
        naming.Namer.new_symbol = orig_new
        convrun.cleanup()
    # (a) namer correspondence
    cases = namer_cases(rnd, 300 if quick else 3000)
    cases += wrapper_cases(rnd_e, 45 if quick else 450, wnames, len(cases))
    lines = []
    for i, ns, reqs, outs in cases:
        rq = '[' + '; '.join('(%s, [%s])' % (vlib.coq_str(r), '; '.join(res)) for r, res in reqs) + ']'
        lines.append('(%d, %s, %s, %s)' % (i, coq_strs(ns), rq, coq_strs(outs)))
    corr_bad = None
    if tie_ok:
        bad = []
        for k in range(0, len(lines), 400):
            body = ['From Coq Require Import String List Arith Bool.', 'Import ListNotations.',
                    'Require Import MV.Names.Namer.', 'Local Open Scope string_scope.',
                    'Definition list_string_beq (a b : list string) : bool := andb (Nat.eqb (length a) (length b)) (forallb (fun p => String.eqb (fst p) (snd p)) (combine a b)).',
                    'Definition cases : list (nat * list string * list (string * list qn) * list string) := [',
                    ';\n'.join(lines[k:k + 400]), '].',
                    'Definition ok (c : nat * list string * list (string * list qn) * list string) : bool :=',
                    '  match c with (_, ns, reqs, outs) => match new_symbols ns [] reqs with Some (cs, _) => list_string_beq cs outs | None => false end end.',
                    'Eval vm_compute in map (fun c => match c with (i, _, _, _) => i end) (filter (fun c => negb (ok c)) cases).']
            rc, out = vlib.coq_eval('C11', 'namer_%d' % k, '\n'.join(body), timeout=600)
            r = vlib.parse_coq_list_of_nat(out) if rc == 0 else None
            if r is None:
                corr_bad = 'model evaluation failed: ' + out[-500:]
                break
            bad += r
        if bad:
            i = bad[0]
            corr_bad = 'Namer model and implementation disagree on request sequences %s, e.g. namespace %r requests %r -> %r' % (
                bad[:6], cases[i][1], cases[i][2], cases[i][3])
        run.count(len(cases))
        run.extra['namer_sequences'] = len(cases)
    # (b) programs over the converter vocabulary
    failures = []
    enc_failures = []
    vis_failures = []
    nprog = 70 if quick else 700
    srcs = []
    skinds = []
    for it in range(nprog):
        names = rnd.sample(VOCAB, 4)
        opts = progs.Opts(loop_else=False, reads='safe', names=names, max_stmts=12, fresh_for_targets=rnd.random() < 0.7,
                          nested_def=True)
        if it % 3 == 0:
            # vocabulary names that exist only as module globals read inside nested functions: the enclosing
            # function never mentions them, yet a helper of that name defined there would capture the read
            opts.names = ['x', 'y', 'z', 'w']
            opts.nested_global_reads = ['get_state', 'set_state', 'if_body', 'else_body', 'loop_body', 'loop_test', 'itr',
                                        'do_return', 'retval_', 'fscope']
            opts.max_depth = 3
        skinds.append('nested_global_reads' if it % 3 == 0 else 'plain')
        src = progs.gen_function(rnd, opts)
        # parameters from the vocabulary as well
        ps = rnd.sample(VOCAB, 3)
        src = re.sub(r'\b([abc])\b', lambda m: ps['abc'.index(m.group(1))], src)
        srcs.append(src)
    cdir = os.path.join(vlib.ROOT, 'corpus', 'C11')
    csrcs, cvecs = [], []
    if os.path.isdir(cdir):
        for fnm in sorted(os.listdir(cdir)):
            if fnm.endswith('.py'):
                first, rest = open(os.path.join(cdir, fnm)).read().split('\n', 1)
                csrcs.append(rest)
                cvecs.append(eval(first.split(':', 1)[1]))
    tsrcs = [t.replace('{n}', n) for t in TEMPLATES for n in (TEMPLATE_NAMES if not quick else rnd.sample(TEMPLATE_NAMES, 5) + ['do_return', 'lscope', 'fscope', 'vars_'])]
    srcs = tsrcs + srcs
    allsrc = csrcs + srcs
    kinds = ['corpus'] * len(csrcs) + ['template'] * len(tsrcs) + skinds
    naming.Namer.new_symbol = spy
    try:
        # module globals named like generated symbols only for the programs that read them from nested functions:
        # elsewhere they would make the Namer avoid exactly the names under test
        uses_globals = [('nested_global_reads' in kind) for kind in kinds]
        modg = convrun.load_module([s_ if u else 'def f(a, b, c):\n    return 0\n' for s_, u in zip(allsrc, uses_globals)],
                                   c01.PRELUDE + GLOBALS_PRELUDE)
        modp = convrun.load_module([s_ if not u else 'def f(a, b, c):\n    return 0\n' for s_, u in zip(allsrc, uses_globals)],
                                   c01.PRELUDE)
        for i, src in enumerate(allsrc):
            mod = modg if uses_globals[i] else modp
            f = getattr(mod, 'f%d' % i)
            idents = set(n.id for n in ast.walk(ast.parse(src)) if isinstance(n, ast.Name)) | \
                set(a.arg for n in ast.walk(ast.parse(src)) if isinstance(n, ast.arguments) for a in n.args)
            used_vocab = idents & set(VOCAB)
            if len(used_vocab) >= 2 and re.search(r'\b(while|for|return)\b', src):
                run.nontriv(src)
            del handed[:]
            try:
                g = c01.convert(f, True, None)
            except Exception as e:  # noqa
                failures.append(('conversion failed with %s: %s' % (type(e).__name__, str(e)[:200]), src, None))
                continue
            clash = [(nm) for nm, ns in handed if nm in idents]
            if clash:
                failures.append(('the converter generated the helper name %r although the user function uses that identifier' % clash[0], src, None))
            wc = wrapper_clash(f, g, (), src)
            if wc and wc[0] != 'ag__':
                failures.append((wc[1], src, None))
            for dv in ([cvecs[i]] if i < len(csrcs) else []) + c01.VECTORS[:6]:
                a = convrun.run_one(mod, f, dv, False)
                b = convrun.run_one(mod, g, dv, False)
                run.count()
                d = convrun.describe_diff(a, b)
                if d:
                    if c01.is_for_target_finding(src, a, b) and not (idents & {'ag__'}):
                        pass      # root cause C07, reported by C01/C07
                    elif 'ag__' in idents:
                        run.violation(d, {}, classify=KNOWN_AG)
                    else:
                        failures.append((d, src, dv))
                    break
            if len(run.samples) < 3 and i >= len(csrcs):
                run.sample({'program': src, 'names_generated': sorted(set(n for n, _ in handed))})
        run.extra['programs'] = len(allsrc)
        # (c) visible names
        roots = helper_roots()
        roots += [w for w in wnames if w not in roots]
        vsrcs = [t.replace('{n}', 'e1') for t in TEMPLATES]
        for it in range(24 if quick else 240):
            opts = progs.Opts(loop_else=False, reads='safe', names=list(VIS_PLAIN_NAMES), max_stmts=10 if it % 2 else 5,
                              fresh_for_targets=True, nested_def=it % 2 == 0)
            vsrcs.append(progs.gen_function(rnd, opts))
        vclos = [sorted(rnd.sample(roots, 4)) if (i % 3 == 1 and sv.startswith('def f(')) else None for i, sv in enumerate(vsrcs)]
        vprelude = vis_prelude(roots, len(vsrcs))
        modv = convrun.load_module([vis_source(sv, i, vclos[i]) for i, sv in enumerate(vsrcs)], vprelude)
        nvis = 0
        for i, sv in enumerate(vsrcs):
            f = getattr(modv, 'f%d' % i)
            del handed[:]
            try:
                g = c01.convert(f, True, None)
            except Exception as e:  # noqa
                vis_failures.append(('conversion failed with %s: %s' % (type(e).__name__, str(e)[:200]), sv, vclos[i]))
                continue
            run.count()
            nvis += 1
            if len(code_names(g.__code__) - code_names(f.__code__)) >= 3:
                run.nontriv('visible:' + sv)
            what = vis_check(f, g, [nm for nm, _ in handed])
            if what:
                vis_failures.append((what, sv, vclos[i]))
        run.extra['visible_name_programs'] = nvis
        run.extra['visible_name_roots'] = roots
        # (d) enclosing scopes: the wrapper vocabulary of this tree in every role
        from malt.utils import ag_logging
        warned = []
        orig_warning = ag_logging.warning
        ag_logging.warning = lambda msg, *a, **k: warned.append((msg % a) if a else str(msg))
        try:
            eprogs = enclosing_programs(rnd_e, quick, wnames, wprefix)
            for kind in ('G', 'P'):
                part = [e for e in eprogs if e[2] == kind]
                built = [enc_source(t, spec, i, clos, wprefix) for i, (_, spec, _, t, clos) in enumerate(part)]
                gnames = sorted(set(n for _, n in built)) if kind == 'G' else []
                prelude = enc_prelude(gnames) if kind == 'G' else c01.PRELUDE
                mode = convrun.load_module([src for src, _ in built], prelude)
                initial = dict((n, getattr(mode, n)) for n in gnames)
                for i, ((role, spec, _, t, clos), (src, n)) in enumerate(zip(part, built)):
                    f = getattr(mode, 'f%d' % i)
                    tree = ast.parse(src)
                    idents = set(x.id for x in ast.walk(tree) if isinstance(x, ast.Name)) | \
                        set(a.arg for x in ast.walk(tree) if isinstance(x, ast.arguments) for a in x.args)
                    r = enc_judge(mode, f, src, idents, handed, requests, warned, c01.VECTORS[:5], initial, run)
                    run.nontriv('enclosing:' + src)
                    if r:
                        enc_failures.append((r[0], role, spec, t, clos, [n] if kind == 'G' else [], r[1], src))
            run.extra['enclosing_scope_programs'] = len(eprogs)
            run.extra['wrapper_vocabulary'] = wnames
        finally:
            ag_logging.warning = orig_warning
    finally:
        naming.Namer.new_symbol = orig_new
        convrun.cleanup()
    seen = set()
    for what, src, dv in failures:
        key = re.sub(r'\d+', 'N', what)[:50]
        if key in seen:
            continue
        seen.add(key)
        run.violation('conversion changed the meaning of a user name / helper name clash: ' + what,
                      {'program': src, 'decisions': dv, 'recursive': True, 'features': 'None', 'prelude': c01.PRELUDE})
    # the smallest program of the visible-names stream that fails, per kind of failure
    for what, src, clos in sorted(vis_failures, key=lambda t: (len(t[1]), t[1])):
        key = 'visible:' + re.sub(r"\d+|'\w+'", 'N', what)[:60]
        if key in seen:
            continue
        seen.add(key)
        run.violation('a name introduced by the converter coincides with a name visible to the user function: ' + what,
                      {'kind': 'visible_names', 'program': src, 'closure': clos, 'roots': roots,
                       'how': 'the program is function f0 of a module that defines the globals named in roots (see replay())'})
    for what, role, spec, t, clos, gnames, dv, src in sorted(enc_failures, key=lambda e: (len(e[7]), e[7])):
        key = 'enclosing:' + re.sub(r"\d+|'\w+'", 'N', what)[:60]
        if key in seen:
            continue
        seen.add(key)
        run.violation('a name of the generated wrapper scopes captures / clashes with a user name (%s): %s' % (role, what),
                      {'kind': 'enclosing_scopes', 'role': role, 'name': spec, 'template': t, 'closure': clos, 'globals': gnames,
                       'entity_prefix': wprefix, 'decisions': dv, 'program': src,
                       'how': 'function f0 of a module that defines each name of `globals` as a function (see replay())'})
    failures = failures + vis_failures + enc_failures
    if not failures and (not tie_ok or corr_bad):
        run.violation('tie between the Namer model and the code broke: ' + (tie_msg or corr_bad),
                      {'broken': tie_msg or corr_bad, 'searched': 'vocabulary programs: no failing input'}, found_input=False)
    run.assumptions += ['identifiers are compared as ASCII strings; Python str.isdigit on non-ASCII digits is not modelled',
                        'the fixed module alias ag__ is not produced by the Namer (known finding when a user variable has that name)']


def replay(path):
    import json
    doc = json.load(open(path))
    rp = doc.get('replay', {})
    if rp.get('kind') == 'enclosing_scopes':
        return replay_enclosing(rp)
    if rp.get('kind') != 'visible_names':
        return c01.replay(path)
    from malt.pyct import naming
    handed = []
    orig_new = naming.Namer.new_symbol

    def spy(self, name_root, reserved_locals):
        r = orig_new(self, name_root, reserved_locals)
        handed.append(r)
        return r
    naming.Namer.new_symbol = spy
    try:
        text = vis_source(rp['program'], 0, rp.get('closure'))
        mod = convrun.load_module([text], vis_prelude(rp['roots'], 1))
        g = c01.convert(mod.f0, True, None)
        what = vis_check(mod.f0, g, handed)
        print(text)
        print('module globals / closure variables defined next to it:', ', '.join(rp['roots'] + ['ag__f0']))
        print('names introduced by the conversion:', sorted(code_names(g.__code__) - code_names(mod.f0.__code__)))
        print(what or 'no clash')
        return 1 if what else 0
    finally:
        naming.Namer.new_symbol = orig_new
        convrun.cleanup()


def replay_enclosing(rp):
    from malt.pyct import naming
    from malt.utils import ag_logging
    handed, requests, warned = [], [], []
    orig_new = naming.Namer.new_symbol
    orig_warning = ag_logging.warning

    def spy(self, name_root, reserved_locals):
        r = orig_new(self, name_root, reserved_locals)
        handed.append((r, None))
        requests.append((name_root, not reserved_locals, r))
        return r
    naming.Namer.new_symbol = spy
    ag_logging.warning = lambda msg, *a, **k: warned.append((msg % a) if a else str(msg))
    try:
        src, n = enc_source(rp['template'], rp['name'], 0, rp.get('closure'), rp.get('entity_prefix', ''))
        gnames = [n] if rp.get('globals') else []
        prelude = enc_prelude(gnames) if gnames else c01.PRELUDE
        mod = convrun.load_module([src], prelude)
        initial = dict((x, getattr(mod, x)) for x in gnames)
        tree = ast.parse(src)
        idents = set(x.id for x in ast.walk(tree) if isinstance(x, ast.Name)) | \
            set(a.arg for x in ast.walk(tree) if isinstance(x, ast.arguments) for a in x.args)
        print('# role of the name %r: %s' % (n, rp.get('role')))
        if gnames:
            print(global_def(n, 0) + '\n' + rd_helper(n))
        print(src.replace('def f(', 'def f0(', 1))
        vectors = [rp['decisions']] if rp.get('decisions') is not None else c01.VECTORS[:5]
        r = enc_judge(mod, mod.f0, src, idents, handed, requests, warned, vectors, initial)
        print(r[0] if r else 'conversion succeeded, original and converted agree, no enclosing scope binds a user name')
        return 1 if r else 0
    finally:
        naming.Namer.new_symbol = orig_new
        ag_logging.warning = orig_warning
        convrun.cleanup()
