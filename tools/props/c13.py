"""C13 -- call wrapper: transparent, obeys the conversion policy, falls back safely (DESIGN.md 4/C13).

 1. regenerate coq/Generated/C13_gen.v from malt/impl/api.py, malt/impl/conversion.py,
    malt/core/config.py, malt/core/config_lib.py (tools/translate/c13_policy.py, fail closed)
 2. re-check the obligations in coq/Properties/C13
 3. correspondence (model evaluated in Coq, inputs measured on the real code with the real helpers):
      CPolicy  the situation of a real converted_call  vs  what the instrumented call was seen to do
      CDirect  nests of functools.partial called directly (CPython = the S side of partial_unwrap)
      CUnwrap  the same nests through converted_call
      CRule    module names through the real Rule objects
      CUnsup / CAllow   is_unsupported / is_allowlisted on real objects
 4. property-level oracle on the real code: converted_call(f, args, kwargs, ...) vs f(*args, **kwargs)
    (result / exception, effect log, invocation count, binding), converted-or-not against the documented
    policy per callable kind (do the instrumented operators fire inside the callee), a fault injected at
    every stage of the conversion pipeline (fallback + warning + remembered; strict mode re-raises),
    end-to-end through generated code.
"""
import contextlib
import functools
import importlib.util
import inspect
import io
import itertools
import json
import math
import operator
import os
import random
import re
import shutil
import sys
import types

from lib import vlib
from translate import c13_policy

CORPUS_FILE = os.path.join(vlib.ROOT, 'corpus', 'C13', 'callables.py')
KF_SELF = 'function-with-self-attribute'
KF_CALL = 'static-or-class-call-dunder'
KF_EQ = 'hashable-target-with-raising-eq'


def generate():
    text = c13_policy.translate(vlib.REPO)
    vlib.write_if_changed(os.path.join(vlib.COQ, 'Generated', 'C13_gen.v'), text)


# =========================================================================================
# the corpus: fresh modules executed from a real file
# =========================================================================================
class Env(object):
    """One set of fresh corpus modules: U (user module), A (allow-listed name), N (near miss)."""
    counter = 0

    def __init__(self, tmpdir):
        Env.counter += 1
        n = Env.counter
        self.names = []
        sys.path_importer_cache.clear()
        spec = importlib.util.spec_from_file_location('c13_corpus_src', CORPUS_FILE)
        src_mod = importlib.util.module_from_spec(spec)
        spec.loader.exec_module(src_mod)
        self.path = os.path.join(tmpdir, 'c13_callables_%d.py' % n)
        with open(self.path, 'w') as f:
            f.write(src_mod.SOURCE)
        self.U = self._load('c13_user_%d' % n)
        self.A = self._load('pandas.c13corpus_%d' % n)
        self.N = self._load('numpyx_c13_%d' % n)

    def _load(self, name):
        mod = types.ModuleType(name)
        mod.__file__ = self.path
        sys.modules[name] = mod
        self.names.append(name)
        with open(self.path) as f:
            code = compile(f.read(), self.path, 'exec')
        exec(code, mod.__dict__)
        return mod

    def logs(self):
        return [list(self.U.LOG), list(self.A.LOG), list(self.N.LOG)]

    def clear_logs(self):
        for m in (self.U, self.A, self.N):
            del m.LOG[:]
            try:
                m.cached.cache_clear()
            except Exception:   # noqa
                pass

    def close(self):
        for n in self.names:
            sys.modules.pop(n, None)

    def namespace(self):
        from malt.impl import api
        return {'U': self.U, 'A': self.A, 'N': self.N, 'functools': functools, 'math': math,
                'operator': operator, 're': re, 'api': api, 'io': io, 'mkpartial': mkpartial,
                'collections': __import__('collections'), 'copy': __import__('copy'),
                'decimal': __import__('decimal'), 'np': __import__('numpy') if have_numpy() else None}


def mkpartial(f, *a, **k):
    """a partial that CPython will not flatten into an enclosing partial"""
    p = functools.partial(f, *a, **k)
    p.c13_tag = 1
    return p


XY = [((1,), None), ((1,), {}), ((3,), {'y': 5}), ((-2, 4), None), ((2,), {'y': 1, 'w': 9}), ((0,), {'y': 7})]
XY_NOKW = [((1,), None), ((1,), {}), ((3,), {'y': 5}), ((-2, 4), None)]

# (expression over the Env namespace, class, argument shapes)
#   classes: conv      converted when recursion is on and the context is not disabled
#            never     never converted, no warning
#            allow     allow-listed: converted only when user_requested
#            fails     reaches conversion, conversion fails naturally -> fallback + warning
#            kf-self / kf-call   known findings (binding), kept in a separate stream
ENTRIES = [
    ('U.plain', 'conv', XY + [((1, 2, 3, 4), {'k': 0})]),
    ('U.kwonly', 'conv', [((1,), None), ((1,), {'y': 5}), ((-1,), {'z': 1, 'y': 0})]),
    ('U.lam', 'conv', XY),
    ('U.closure_maker(10)', 'conv', XY),
    ('U.decorated', 'conv', XY),
    ('U.K(3).meth', 'conv', XY),
    ('U.K.meth', 'conv', [((('K', 4), 1), None), ((('K', 4), 2), {'y': 5})]),
    ('U.K(3).cmeth', 'conv', XY),
    ('U.K.cmeth', 'conv', XY),
    ('U.Sub.cmeth', 'conv', XY_NOKW),
    ('U.Sub(2).meth', 'conv', XY),
    ('U.K.smeth', 'conv', XY),
    ('U.K(3).smeth', 'conv', XY),
    ('U.K(3)', 'conv', XY),
    ('U.Stack().push', 'conv', XY),
    ('U.Stack([1]).push', 'conv', XY_NOKW),
    ('U.Falsy().meth', 'conv', XY + [((1, 2, 3), None)]),
    ('U.EmptyRegistry.make', 'conv', XY),
    ('U.EmptyRegistry().make', 'conv', XY_NOKW),
    ('functools.partial(U.Stack().push, 1)', 'conv', [((), None), ((), {'y': 5})]),
    ('U.Unhashable()', 'conv-nocache', XY),
    ('U.IntCallable(2)', 'conv-nocache', XY),
    ('U.IntCallable(1)', 'conv-nocache', XY_NOKW),
    ('U.IntCallable(8)', 'conv-nocache', XY_NOKW),
    ('U.IntCallable(5)', 'conv-nocache', XY_NOKW),
    ('U.IntCallable(0)', 'conv-nocache', XY_NOKW),
    ('U.AlwaysEq()', 'conv', XY),
    ('U.Elementwise()', 'conv-nocache', XY),
    ('U.RaisingEq()', 'conv-nocache', XY_NOKW),
    ('U.Slotted()', 'conv-nocache', XY_NOKW),
    ('U.WithMeta', 'conv', [((1,), None), ((1, 2), {'q': 3}), ((), None), ((), {})]),
    ('U.NTSub(1, 2).total', 'conv', [((1,), None), ((0,), {})]),
    ('N.plain', 'conv', XY),
    ('N.K(3).meth', 'conv', XY_NOKW),
    ('functools.partial(U.plain, 1)', 'conv', [((), None), ((), {'y': 5}), ((7,), {'w': 2}), ((), {})]),
    ('functools.partial(U.plain, y=5)', 'conv', [((1,), None), ((1,), {'y': 6}), ((-1,), {'w': 2})]),
    ('mkpartial(mkpartial(U.plain, 1, y=10, z=11), z=20, w=1)', 'conv', [((3,), {'z': 30}), ((), None), ((), {}), ((4, 5), {'y': 6, 'q': 7})]),
    ('functools.partial(U.K(3).meth, 1)', 'conv', [((), None), ((), {'y': 5})]),
    ('functools.partial(U.K(3), y=4)', 'conv', [((1,), None), ((1,), {'y': 5})]),
    ('functools.partial(U.K, 2)', 'never', [((), None), ((), {'b': 1})]),
    ('functools.partial(len)', 'never', [(([1, 2, 3],), None)]),
    ('U.gen', 'gen', XY),
    ('U.cached', 'never', XY_NOKW),
    ('U.K', 'never', [((), None), ((3,), None), ((), {'a': 4, 'b': 1}), ((0,), {})]),
    ('U.NT', 'never', [((1,), None), ((1, 5), None), ((), {'x': 1, 'y': 3})]),
    ('U.NTSub', 'never', [((1,), None), ((1, 5), {})]),
    ('U.execd', 'never', XY),
    ('U.evald', 'never', XY_NOKW),
    ('U.Case().helper', 'allow', XY_NOKW),
    ('api.do_not_convert(U.plain)', 'never', XY),
    ('api.do_not_convert(U.K(3).meth)', 'never', XY_NOKW),
    ('api.convert(recursive=True)(U.plain)', 'artifact', XY),
    ('api.call_with_unspecified_conversion_status(U.plain)', 'artifact', XY_NOKW),
    ('len', 'never', [(([1, 2, 3],), None), (('abc',), {})]),
    ('abs', 'never', [((-3,), None)]),
    ('int', 'never', [(('12',), None), (('ff',), {'base': 16}), ((), None), ((3.7,), {})]),
    ('float', 'never', [(('1.5',), None), ((), None)]),
    ('range', 'never', [((3,), None), ((1, 7, 2), {})]),
    ('sorted', 'never', [(([3, 1, 2],), None), (([3, 1, 2],), {'reverse': True}), ((['b', 'A'],), {'key': str.lower})]),
    ('zip', 'never', [(([1, 2], 'ab'), None), ((), None)]),
    ('map', 'never', [((str, [1, 2]), None)]),
    ('filter', 'never', [((None, [0, 1, 2]), None)]),
    ('any', 'never', [(([0, 1],), None)]),
    ('all', 'never', [(([0, 1],), {})]),
    ('enumerate', 'never', [((['a', 'b'],), None), ((['a', 'b'], 3), None), ((['a'],), {'start': 2})]),
    ('max', 'never', [((1, 5, 2), None), (([],), {'default': 7}), ((['aa', 'b'],), {'key': len})]),
    ('sum', 'never', [(([1, 2],), None), (([1, 2], 10), {})]),
    ('isinstance', 'never', [((1, int), None)]),
    ('getattr', 'never', [(('x', 'upper'), None), ((1, 'nope', 5), {})]),
    ('dict', 'never', [((), {'a': 1}), (([('a', 1)],), {'b': 2}), ((), None)]),
    ('list', 'never', [(('ab',), None), ((), {})]),
    ('tuple', 'never', [(([1, 2],), None)]),
    ('str', 'never', [((5,), None), ((b'a',), {'encoding': 'ascii'})]),
    ('repr', 'never', [(('a',), None)]),
    ('divmod', 'never', [((7, 2), None)]),
    ('math.hypot', 'never', [((3, 4), None), ((3, 4), {})]),
    # native callables that merely share the NAME of an overloaded builtin: they must be called as they are
    ('decimal.Context(prec=2).abs', 'never', [((('D', '-1.23456'),), None), ((('D', '-7.891'),), {})]),
    ('operator.abs', 'never', [((-3,), None)]),
    ('np.array([0, 2]).any', 'never', [((), None), ((), {}), ((), {'axis': 0})]),
    ('np.array([[0, 2], [3, 0]]).all', 'never', [((), None), ((), {'axis': 1}), ((0,), {})]),
    ('np.float64(0.0).any', 'never', [((), None)]),
    ('np.int64(3).all', 'never', [((), {})]),
    ('operator.add', 'never', [((1, 2), None)]),
    ('operator.itemgetter(1)', 'never', [(('abc',), None), (([1, 2],), {})]),
    ('str.upper', 'never', [(('ab',), None)]),
    ('"ab".upper', 'never', [((), None), ((), {})]),
    ('[3, 1].index', 'never', [((1,), None)]),
    ('dict.fromkeys', 'never', [(('ab',), None), (('ab', 0), {})]),
    ('(3).__add__', 'never', [((4,), None)]),
    ('re.sub', 'never', [(('a', 'b', 'aXa'), None), (('a', 'b', 'aXa'), {'count': 1})]),
    ('re.compile("a+").findall', 'never', [(('caab',), None)]),
    ('collections.OrderedDict', 'never', [((), None), (([('a', 1)],), {})]),
    ('copy.deepcopy', 'never', [(([1, [2]],), None)]),
    ('A.plain', 'allow', XY),
    ('A.lam', 'allow', XY_NOKW),
    ('A.K(3).meth', 'allow', XY),
    ('A.K(3)', 'allow', XY_NOKW),
    ('A.K.smeth', 'allow', XY_NOKW),
    ('functools.partial(A.plain, 1)', 'allow', [((), None), ((), {'y': 5})]),
    ('type("Custom", (A.K,), {})(2).meth', 'allow', XY_NOKW),
    ('A.gen', 'gen', XY_NOKW),
    ('U.for_else', 'fails', XY_NOKW),
    ('U.raises', 'conv', [((1,), None), ((0,), {}), ((2,), {'y': 1})]),
    ('U.with_self_attr', 'kf-self', XY_NOKW),
    ('U.StaticCall()', 'kf-call', XY_NOKW),
    ('U.ClassCall()', 'kf-call', XY_NOKW),
    ('5', 'uncallable', [((), None), ((1,), {})]),
]


def fix_args(env, args):
    """('K', n) placeholders -> instances (unbound method calls need a receiver); ('D', s) -> Decimal(s)"""
    import decimal

    def one(a):
        if isinstance(a, (tuple, list)) and len(a) == 2 and a[0] == 'K':
            return env.U.K(a[1])
        if isinstance(a, (tuple, list)) and len(a) == 2 and a[0] == 'D':
            return decimal.Decimal(a[1])
        return a
    return tuple(one(a) for a in args)


def have_numpy():
    try:
        import numpy   # noqa
        return True
    except Exception:   # noqa
        return False


# =========================================================================================
# instrumentation
# =========================================================================================
class Instr(object):
    """Records what converted_call does, by wrapping module attributes (no hook in /repo)."""

    def __init__(self, stub_frame_builtins=False):
        self.ev = []
        self.saved = []
        self.stub = stub_frame_builtins

    def _patch(self, obj, name, new):
        self.saved.append((obj, name, getattr(obj, name)))
        setattr(obj, name, new)

    def __enter__(self):
        from malt.impl import api, conversion
        from malt.operators import py_builtins
        from malt.utils import ag_logging
        ev = self.ev
        o_cu, o_fb, o_ca, o_cc = api._call_unconverted, api._fall_back_unconverted, api._convert_actual, api.converted_call
        self.orig_cc = o_cc

        def cu(f, args, kwargs, options, update_cache=True):
            ev.append(('cu', f, args, kwargs, update_cache))
            return o_cu(f, args, kwargs, options, update_cache)

        def fb(f, args, kwargs, options, exc):
            ev.append(('fb', f, exc))
            return o_fb(f, args, kwargs, options, exc)

        def ca(entity, program_ctx):
            ev.append(('convert', entity))
            try:
                conv = o_ca(entity, program_ctx)
            except Exception as e:   # noqa
                ev.append(('convert_raised', e))
                raise

            @functools.wraps(conv)
            def spy(*a, **k):
                ev.append(('converted_invoked', a, k))
                return conv(*a, **k)
            spy.__dict__.update(conv.__dict__)
            return spy

        def cc(f, args, kwargs, caller_fn_scope=None, options=None):
            ev.append(('reenter', f, args, kwargs))
            return o_cc(f, args, kwargs, caller_fn_scope=caller_fn_scope, options=options)
        self._patch(api, '_call_unconverted', cu)
        self._patch(api, '_fall_back_unconverted', fb)
        self._patch(api, '_convert_actual', ca)
        self._patch(api, 'converted_call', cc)
        o_cache = conversion.cache_allowlisted

        def cache(entity, options):
            ev.append(('cache', entity))
            return o_cache(entity, options)
        self._patch(conversion, 'cache_allowlisted', cache)
        o_ov = py_builtins.overload_of

        def ov(f):
            ev.append(('overload', f))
            return o_ov(f)
        self._patch(py_builtins, 'overload_of', ov)
        for nm, tag in (('eval_in_original_context', 'FEval'), ('super_in_original_context', 'FSuper'),
                        ('globals_in_original_context', 'FGlobals'), ('locals_in_original_context', 'FLocals')):
            orig = getattr(py_builtins, nm)

            def fr(*a, _orig=orig, _tag=tag):
                ev.append(('frame', _tag))
                if self.stub:
                    return ('frame-builtin', _tag)
                return _orig(*a)
            self._patch(py_builtins, nm, fr)
        o_warn = ag_logging.warning

        def warn(msg, *a, **k):
            ev.append(('warn', msg % a if a else msg))
        self._patch(ag_logging, 'warning', warn)
        return self

    def __exit__(self, *exc):
        for obj, name, old in reversed(self.saved):
            setattr(obj, name, old)
        return False


class OpCounter(object):
    """Counts the conditional operators firing in converted code (observation point of the property)."""

    def __enter__(self):
        from malt.impl import api
        self.ag = api._TRANSPILER.get_extra_locals()['ag__']
        self.n = 0
        self.saved = {}
        for nm in ('if_stmt', 'if_exp', 'for_stmt', 'while_stmt'):
            orig = getattr(self.ag, nm)
            self.saved[nm] = orig

            def w(*a, _orig=orig, **k):
                self.n += 1
                return _orig(*a, **k)
            setattr(self.ag, nm, w)
        return self

    def __exit__(self, *exc):
        for nm, orig in self.saved.items():
            setattr(self.ag, nm, orig)
        return False


@contextlib.contextmanager
def strict_mode(on):
    old = os.environ.get('AUTOGRAPH_STRICT_CONVERSION')
    if on:
        os.environ['AUTOGRAPH_STRICT_CONVERSION'] = '1'
    else:
        os.environ.pop('AUTOGRAPH_STRICT_CONVERSION', None)
    try:
        yield
    finally:
        if old is None:
            os.environ.pop('AUTOGRAPH_STRICT_CONVERSION', None)
        else:
            os.environ['AUTOGRAPH_STRICT_CONVERSION'] = old


def ctx_of(name):
    from malt.core import ag_ctx
    if name == 'default':
        return contextlib.nullcontext()
    return ag_ctx.ControlStatusCtx(status=getattr(ag_ctx.Status, name))


def mkopts(user_requested, internal):
    from malt.core import converter
    return converter.ConversionOptions(recursive=internal, user_requested=user_requested,
                                       internal_convert_user_code=internal, optional_features=None)


def canon(v):
    """canonical, address-free form of a result"""
    if isinstance(v, types.GeneratorType) or isinstance(v, (zip, map, filter, enumerate, range)):
        return ('iter', [canon(x) for x in v])
    if isinstance(v, (list, tuple)):
        return (type(v).__name__, [canon(x) for x in v])
    if isinstance(v, dict):
        return ('dict', [(canon(k), canon(x)) for k, x in v.items()])
    if isinstance(v, (int, float, str, bytes, bool, type(None))):
        return v
    if isinstance(v, re.Pattern):
        return ('pattern', v.pattern)
    if type(v).__module__ == 'numpy' and hasattr(v, 'tolist'):
        return ('numpy', type(v).__name__, canon(v.tolist()))
    r = repr(v)
    return ('obj', type(v).__name__, re.sub(r' at 0x[0-9a-f]+', '', r))


def outcome_of(thunk):
    try:
        return ('ok', canon(thunk()))
    except Exception as e:   # noqa
        msg = re.sub(r' at 0x[0-9a-f]+', '', repr(e.args))
        msg = msg.replace('outer_factory.<locals>.inner_factory.<locals>.ag__', '')
        return ('exc', type(e).__name__, msg[:300])


# =========================================================================================
# measuring the situation with the real helper functions  /  reading the events
# =========================================================================================
def coq_b(b):
    return 'true' if b else 'false'


def measure(f, args, kwargs, options, scope, strict):
    from malt.impl import api, conversion
    from malt.core import ag_ctx
    from malt.pyct import inspect_utils
    opts_none = options is None
    scope_none = scope is None
    eff = options if options is not None else (scope.callopts if scope is not None else None)
    d = {}
    d['in_cache'] = conversion.is_in_allowlist_cache(f, eff) if eff is not None else False
    d['ctx_disabled'] = ag_ctx.control_status_ctx().status == ag_ctx.Status.DISABLED
    d['artifact'] = api.is_autograph_artifact(f)
    d['partial'] = isinstance(f, functools.partial)
    if inspect_utils.isbuiltin(f):
        b = 'BEval' if f is eval else 'BSuper' if f is super else 'BGlobals' if f is globals else \
            'BLocals' if f is locals else 'BOther'
    else:
        b = 'NotBuiltin'
    d['builtin'] = b
    d['kwargs'] = 'KwNone' if kwargs is None else ('KwNonEmpty' if kwargs else 'KwEmpty')
    d['measure_error'] = None
    with Quiet():
        # the real chain evaluates these lazily; a predicate that raises on this target is reported by the
        # oracle (through converted_call itself) when it is actually reached, not here
        try:
            d['unsupported'] = bool(conversion.is_unsupported(f))
        except Exception as e:   # noqa
            d['unsupported'] = False
            d['measure_error'] = 'is_unsupported raised %r' % (e,)
        try:
            d['allowlisted'] = bool(conversion.is_allowlisted(f))
        except Exception as e:   # noqa
            d['allowlisted'] = False
            d['measure_error'] = 'is_allowlisted raised %r' % (e,)
    d['user_requested'] = bool(eff.user_requested) if eff is not None else False
    d['internal'] = bool(eff.internal_convert_user_code) if eff is not None else False
    target = f
    if inspect.ismethod(f):
        try:
            truthy = bool(f.__self__)
        except Exception:   # noqa
            truthy = True
        kind = 'KBoundMethod' if truthy else 'KBoundMethodFalsy'
    elif inspect.isfunction(f):
        kind = 'KFunctionSelfAttr' if getattr(f, '__self__', None) is not None else 'KFunction'
    elif hasattr(f, '__class__') and hasattr(f.__class__, '__call__'):
        raw = inspect.getattr_static(type(f), '__call__', None)
        kind = 'KCallableStatic' if isinstance(raw, staticmethod) else 'KCallableObj'
        target = f.__class__.__call__
    else:
        kind = 'KNoCall'
    d['kind'] = kind
    if not hasattr(target, '__code__'):
        code = 'NoCode'
    elif not hasattr(target.__code__, 'co_filename'):
        code = 'CodeNoFilename'
    elif target.__code__.co_filename == '<string>':
        code = 'CodeString'
    else:
        code = 'CodeFile'
    d['code'] = code
    d['strict'] = strict
    d['inspect_supported'] = bool(ag_ctx.INSPECT_SOURCE_SUPPORTED)
    d['opts_none'], d['scope_none'] = opts_none, scope_none
    return d


def situation_term(d, fault):
    return ('mk_situation %s %s %s %s %s %s %s %s %s %s %s %s %s %s %s %s %s' % (
        coq_b(d['opts_none']), coq_b(d['scope_none']), coq_b(d['in_cache']), coq_b(d['ctx_disabled']),
        coq_b(d['artifact']), coq_b(d['partial']), d['builtin'], d['kwargs'], coq_b(d['unsupported']),
        coq_b(d['user_requested']), coq_b(d['allowlisted']), coq_b(d['internal']), d['kind'], d['code'],
        fault, coq_b(d['strict']), coq_b(d['inspect_supported'])))


class Quiet(object):
    def __enter__(self):
        from malt.utils import ag_logging
        self.m = ag_logging
        self.old = ag_logging.warning
        ag_logging.warning = lambda *a, **k: None

    def __exit__(self, *e):
        self.m.warning = self.old
        return False


def fault_of(ev, injected=None):
    from malt.pyct import errors
    if injected is not None:
        return {'InaccessibleSourceCodeError': 'FInaccessible', 'UnsupportedLanguageElementError': 'FUnsupportedLang'}.get(injected, 'FOther')
    for e in ev:
        if e[0] == 'convert_raised' or (e[0] == 'fb' and not isinstance(e[2], NotImplementedError)):
            x = e[1] if e[0] == 'convert_raised' else e[2]
            if isinstance(x, errors.InaccessibleSourceCodeError):
                return 'FInaccessible'
            if isinstance(x, errors.UnsupportedLanguageElementError):
                return 'FUnsupportedLang'
            return 'FOther'
    return 'NoFault'


def first_level(ev):
    """the events of the outermost converted_call only (callees may call converted_call again)"""
    out = []
    for i, e in enumerate(ev):
        if e[0] == 'reenter':
            if not out:
                out.append(e)
            break
        out.append(e)
        if e[0] in ('converted_invoked', 'overload', 'frame'):
            break
        if e[0] == 'cu':
            if i + 1 < len(ev) and ev[i + 1][0] == 'cache':
                out.append(ev[i + 1])
            break
    return out


def same_tuple(a, b):
    return len(a) == len(b) and all(x is y or x == y for x, y in zip(a, b))


def observed_term(f, args, ev, raised, injected=None):
    """events of ONE level of converted_call -> Coq `observed` term (or None + reason)"""
    if ev and ev[0][0] == 'reenter':
        return 'ObsUnwrap', None
    kinds = [e[0] for e in ev]
    if 'frame' in kinds:
        return 'ObsFrame %s' % [e for e in ev if e[0] == 'frame'][0][1], None
    cu = [e for e in ev if e[0] == 'cu']
    conv = [e for e in ev if e[0] == 'convert']
    inv = [e for e in ev if e[0] == 'converted_invoked']
    ov = [e for e in ev if e[0] == 'overload']
    cache = any(e[0] == 'cache' and e[1] is f for e in ev)
    warned = 'warn' in kinds
    attempted = bool(conv) or 'fb' in kinds
    if not ev and raised is not None and injected is not None and raised[0] == injected:
        return 'ObsReraise', None
    if not ev and raised is not None and raised[0] == 'ValueError':
        return 'ObsError', None
    if attempted and not inv and not cu and raised is not None:
        return 'ObsReraise', None
    if 'fb' in kinds and not cu and raised is not None:
        return 'ObsReraise', None
    if ov and not cu and not conv:
        return 'ObsInvoke WOverload PArgs %s %s false' % (coq_b(cache), coq_b(warned)), None
    if cu and not inv:
        c = cu[0]
        if c[1] is not f or not same_tuple(c[2], args):
            return None, '_call_unconverted received another callable / other arguments'
        return 'ObsInvoke WTarget PArgs %s %s %s' % (coq_b(cache), coq_b(warned), coq_b(attempted)), None
    if conv and inv and not cu:
        ent = conv[0][1]
        a = inv[0][1]
        if ent is f:
            mode = 'TSelf'
        elif ent is getattr(type(f), '__call__', None) or \
                (inspect.ismethod(ent) and ent == getattr(type(f), '__call__', None)):
            mode = 'TClassCall'
        else:
            return None, 'converted an entity that is neither f nor type(f).__call__'
        selfv = getattr(f, '__self__', None)
        if len(a) == len(args) and same_tuple(a, args):
            pos = 'PArgs'
        elif len(a) == len(args) + 1 and a[0] is f and same_tuple(a[1:], args):
            pos = 'PFArgs'
        elif len(a) == len(args) + 1 and selfv is not None and (a[0] is selfv) and same_tuple(a[1:], args):
            pos = 'PSelfArgs'
        else:
            return None, 'converted function received unexpected positional arguments'
        return 'ObsInvoke (WConverted %s) %s %s %s true' % (mode, pos, coq_b(cache), coq_b(warned)), None
    return None, 'unrecognised event sequence %r' % kinds


# =========================================================================================
# fault injection points: every stage of the conversion pipeline
# =========================================================================================
def pipeline_stages():
    from malt.pyct import parser, inspect_utils, origin_info, naming, cfg, qual_names, loader, transpiler
    from malt.pyct.static_analysis import activity, reaching_definitions
    from malt.core import unsupported_features_checker, converter
    from malt.converters import (functions, directives, break_statements, continue_statements,
                                 return_statements, call_trees, control_flow, conditional_expressions,
                                 logical_expressions, variables)
    st = [
        ('source lookup: inspect_utils.getimmediatesource', inspect_utils, 'getimmediatesource'),
        ('parse: parser.parse_entity', parser, 'parse_entity'),
        ('parse: parser.parse', parser, 'parse'),
        ('origin info: origin_info.resolve_entity', origin_info, 'resolve_entity'),
        ('namespace: inspect_utils.getnamespace', inspect_utils, 'getnamespace'),
        ('namer: naming.Namer', naming, 'Namer'),
        ('program context: converter.ProgramContext', converter, 'ProgramContext'),
        ('unsupported-feature check: unsupported_features_checker.verify', unsupported_features_checker, 'verify'),
        ('analysis: cfg.build', cfg, 'build'),
        ('analysis: qual_names.resolve', qual_names, 'resolve'),
        ('analysis: activity.resolve', activity, 'resolve'),
        ('analysis: reaching_definitions.resolve', reaching_definitions, 'resolve'),
    ]
    for m in (functions, directives, break_statements, continue_statements, return_statements, call_trees,
              control_flow, conditional_expressions, logical_expressions, variables):
        st.append(('converter: %s.transform' % m.__name__.split('.')[-1], m, 'transform'))
    st.append(('code loading: loader.load_ast', loader, 'load_ast'))
    st.append(('code loading: _PythonFnFactory.instantiate', transpiler._PythonFnFactory, 'instantiate'))
    return st


class InjectedError(Exception):
    pass


def fault_exceptions():
    from malt.pyct import errors
    return [('ValueError', lambda: ValueError('injected fault')),
            ('InaccessibleSourceCodeError', lambda: errors.InaccessibleSourceCodeError('injected fault')),
            ('UnsupportedLanguageElementError', lambda: errors.UnsupportedLanguageElementError('injected fault')),
            ('KeyError', lambda: KeyError('injected fault')),
            ('AssertionError', lambda: AssertionError('injected fault')),
            ('TypeError', lambda: TypeError('injected fault')),
            ('InjectedError', lambda: InjectedError('injected fault')),
            ('RecursionError', lambda: RecursionError('injected fault'))]


@contextlib.contextmanager
def inject(stage, mk_exc):
    name, obj, attr = stage
    old = getattr(obj, attr)
    hits = []

    def boom(*a, **k):
        hits.append(1)
        raise mk_exc()
    setattr(obj, attr, boom)
    try:
        yield hits
    finally:
        setattr(obj, attr, old)


# =========================================================================================
# one oracle/correspondence case of converted_call
# =========================================================================================
def expected_converted(klass, ur, internal, ctxname):
    """documented policy per callable class -> should the callee's operators fire? (None = not judged)"""
    if ctxname == 'DISABLED':
        return False if klass != 'artifact' else None
    if klass in ('conv', 'conv-nocache'):
        return internal
    if klass == 'allow':
        return internal and ur
    if klass in ('never', 'fails', 'uncallable', 'gen'):
        return False
    return None


def run_call_case(env, spec, out, fobj=None):
    """spec: dict(expr, klass, args, kwargs, ur, internal, ctx, strict, optmode, fault=None)
       appends correspondence cases to out['cases'] and failures to out['failures']."""
    from malt.impl import api, conversion
    ns = env.namespace()
    f = fobj if fobj is not None else eval(spec['expr'], ns)
    f0 = eval(spec['expr'], ns)      # a second, equal object for the direct call (receivers may be stateful)
    args = fix_args(env, spec['args'])
    kwargs = spec['kwargs']
    opts = mkopts(spec['ur'], spec['internal'])
    options, scope = opts, None
    if spec.get('optmode') == 'scope':
        options, scope = None, types.SimpleNamespace(callopts=opts, name='fscope')
    elif spec.get('optmode') == 'none':
        options, scope = None, None
    fails = []

    def direct():
        if kwargs is not None:
            return f0(*args, **dict(kwargs))
        return f0(*args)
    env.clear_logs()
    with Quiet():
        want = outcome_of(direct)
    want_log = env.logs()
    env.clear_logs()
    stage = spec.get('fault')
    with strict_mode(spec['strict']), ctx_of(spec['ctx']), Instr(stub_frame_builtins=True) as ins, OpCounter() as ops:
        d = measure(f, args, kwargs, options, scope, spec['strict'])
        env.clear_logs()      # effects of the measurement itself (e.g. a target's __eq__) are not the wrapper's
        kw_in = None if kwargs is None else dict(kwargs)
        if stage is not None:
            stages = dict((s[0], s) for s in pipeline_stages())
            excs = dict(fault_exceptions())
            with inject(stages[stage[0]], excs[stage[1]]) as hits:
                got = outcome_of(lambda: ins.orig_cc(f, args, kw_in, caller_fn_scope=scope, options=options))
        else:
            hits = None
            got = outcome_of(lambda: ins.orig_cc(f, args, kw_in, caller_fn_scope=scope, options=options))
        ev = list(ins.ev)
        fired = ops.n
        inner_f = f
        while isinstance(inner_f, functools.partial):
            inner_f = inner_f.func
        cached_after = conversion.is_in_allowlist_cache(inner_f, opts)
    got_log = env.logs()
    klass = spec['klass']
    # ---------------- correspondence case (first level of the call only)
    first = first_level(ev)
    raised = got[1:] if got[0] == 'exc' else None
    injected = stage[1] if (stage is not None and hits) else None
    fault = fault_of(first, injected)
    obs, why = observed_term(f, args, first, raised, injected)
    if d.get('measure_error'):
        pass            # situation not measurable on this target; the oracle below judges the call itself
    elif obs is None:
        fails.append(('instrumentation: ' + why, None))
    else:
        out['cases'].append((situation_term(d, fault), obs, spec))
    # ---------------- property-level oracle
    reraise_expected = (spec['strict'] and fault != 'NoFault') or spec.get('optmode') == 'none'
    if klass == 'uncallable' and spec['strict'] and got[0] == 'exc' and got[1] == 'NotImplementedError':
        reraise_expected = True
    if reraise_expected:
        if got[0] != 'exc':
            fails.append(('an error was expected to propagate (strict mode / no options) but the call returned', None))
        if any(l for l in got_log):
            fails.append(('target was invoked although the conversion error propagated', None))
    else:
        if got != want:
            fails.append(('result differs from the direct call: direct %r, through converted_call %r' % (want, got),
                          KF_SELF if klass == 'kf-self' else KF_CALL if klass == 'kf-call' else None))
        elif got_log != want_log:
            fails.append(('effects / invocation count / binding differ: direct log %r, wrapped log %r' % (want_log, got_log),
                          KF_SELF if klass == 'kf-self' else KF_CALL if klass == 'kf-call' else None))
        if kwargs is not None and kw_in != kwargs:
            fails.append(('the caller\'s kwargs dict was mutated: %r -> %r' % (kwargs, kw_in), None))
        exp = expected_converted(klass, spec['ur'], spec['internal'], spec['ctx'])
        if (stage is not None and hits) or spec.get('after_fallback'):
            exp = False      # remembered as not-to-convert
        # in a history the verdict must be the policy's whatever was remembered for OTHER options
        if exp is True and fired == 0 and want[0] == 'ok' and (d['in_cache'] is False or 'history' in spec):
            fails.append(('policy: target should have been converted (operators never fired in the callee)', None))
        if exp is False and fired > 0:
            fails.append(('policy: target must not be converted but %d conditional operator(s) fired in converted code' % fired, None))
        warns = [e for e in ev if e[0] == 'warn']
        if stage is not None and hits:
            if not warns:
                fails.append(('fallback after a fault at stage %s happened without a warning' % stage[0], None))
            if klass != 'conv-nocache' and not cached_after:
                fails.append(('the failed conversion was not remembered in the allow-list cache', None))
        if klass == 'fails' and exp is False and spec['internal'] and spec['ctx'] != 'DISABLED' \
                and not d['in_cache'] and not (d['allowlisted'] and not spec['ur']):
            if not warns:
                fails.append(('natural conversion failure fell back without a warning', None))
            if not cached_after:
                fails.append(('natural conversion failure was not remembered', None))
        if klass == 'never' and warns and not d['in_cache']:
            fails.append(('a warning was printed for a target that is documented as silently not converted: %r' % (warns[0][1][:120],), None))
        if spec['ctx'] == 'DISABLED' and cached_after and not d['in_cache']:
            fails.append(('a call under a DISABLED context was remembered in the allow-list cache (would suppress conversion later)', None))
    st = out.setdefault('stats', {'converted_calls': 0, 'fallbacks': 0, 'reraised': 0, 'unwrapped_partials': 0, 'not_converted': 0})
    st['converted_calls'] += 1 if fired > 0 else 0
    st['not_converted'] += 1 if fired == 0 else 0
    st['fallbacks'] += 1 if any(e[0] == 'fb' for e in ev) else 0
    st['reraised'] += 1 if reraise_expected and got[0] == 'exc' else 0
    st['unwrapped_partials'] += 1 if any(e[0] == 'reenter' for e in first) else 0
    for what, kf in fails:
        out['failures'].append((what, kf, spec))
    return d, ev, got, want


def spec_key(spec):
    return (spec['expr'], repr(spec['args']), repr(spec['kwargs']), spec['ur'], spec['internal'], spec['ctx'],
            spec['strict'], spec.get('optmode'), repr(spec.get('fault')))


def replay_cmd(spec):
    return 'cd /verif && bin/check C13 --replay <this file>   (re-runs exactly this call; spec below)'


# =========================================================================================
# partial nests
# =========================================================================================
def gen_nest(rnd):
    """-> (python builder description, coq term) of a nest over base `rec`"""
    depth = rnd.randint(0, 5)
    keys = ['y', 'z', 'w', 'k']
    levels = []
    for _ in range(depth):
        a = [rnd.randint(0, 9) for _ in range(rnd.choice([0, 0, 1, 2]))]
        ks = rnd.sample(keys, rnd.choice([0, 1, 2, 3]))
        k = [(x, rnd.randint(10, 99)) for x in ks]
        levels.append((a, k))
    return levels


def nest_term(levels):
    t = 'Base 0'
    for a, k in levels:
        t = 'Partial (%s) [%s] (Some [%s])' % (t, '; '.join(map(str, a)), '; '.join('(%s, %d)' % (vlib.coq_str(x), v) for x, v in k))
    return t


def kw_term(kw):
    return '[%s]' % '; '.join('(%s, %d)' % (vlib.coq_str(x), v) for x, v in kw)


def okw_term(kw):
    return 'None' if kw is None else 'Some %s' % kw_term(list(kw.items()))


# =========================================================================================
# check
# =========================================================================================
def check(run):
    run.rule = ('callable kinds (functions, lambdas, closures, decorated, bound/unbound/class/static methods, callable objects, '
                'unhashable / slotted callables, metaclass __call__, classes, namedtuples, functools.partial nests with overlapping '
                'keywords, builtins and overloads, C functions, lru_cache, generators, exec/eval-defined, TestCase methods, '
                'do_not_convert / convert wrappers, members of allow-listed and near-miss module names) x argument shapes '
                '(kwargs None / {} / non-empty) x options (user_requested x recursive, options from caller scope, none) x context '
                '(default, ENABLED, DISABLED, UNSPECIFIED) x strict mode x a fault injected at each of the pipeline stages x 8 exception '
                'kinds; distinct non-trivial = distinct (callable, arguments, options, context, strict, fault) tuples evaluated')
    tmp = vlib.ensure_dir(os.path.join(vlib.BUILD, 'tmp', 'c13-%d' % os.getpid()))
    old_tmp = os.environ.get('TMPDIR')
    os.environ['TMPDIR'] = tmp
    import tempfile
    tempfile.tempdir = None
    try:
        _check(run, tmp)
    finally:
        if old_tmp is None:
            os.environ.pop('TMPDIR', None)
        else:
            os.environ['TMPDIR'] = old_tmp
        tempfile.tempdir = None
        shutil.rmtree(tmp, ignore_errors=True)


def _check(run, tmp):
    thorough = run.tier == 'thorough'
    from malt.impl import api
    api._TRANSPILER.get_extra_locals()     # build ag__ before anything is patched (it copies api's namespace)
    rnd = random.Random(run.seed)
    tie_msg = None
    try:
        generate()
    except c13_policy.Untranslatable as e:
        tie_msg = str(e)
        run.note(tie_msg)
    if tie_msg is None:
        vlib.standard_proof_step(run, ['Policy/PolicyCheck.vo'])
    out = {'cases': [], 'failures': []}
    other_cases = []      # Coq case terms of the other kinds, with a description
    # ---------------------------------------------------------------- calls
    configs = []
    for ur, internal in itertools.product([False, True], repeat=2):
        for ctx in ('default', 'DISABLED', 'UNSPECIFIED', 'ENABLED'):
            if ctx in ('UNSPECIFIED', 'ENABLED') and not thorough and (ur, internal) != (False, True):
                continue
            configs.append(dict(ur=ur, internal=internal, ctx=ctx, strict=False, optmode='given'))
    configs.append(dict(ur=False, internal=True, ctx='default', strict=True, optmode='given'))
    configs.append(dict(ur=False, internal=True, ctx='default', strict=False, optmode='scope'))
    configs.append(dict(ur=True, internal=True, ctx='default', strict=False, optmode='none'))
    ncalls = 0
    for cfg in configs:
        env = Env(tmp)
        try:
            for expr, klass, shapes in ENTRIES:
                if expr.startswith('np.') and not have_numpy():
                    continue
                sh = list(shapes)
                if not thorough and cfg != configs[0] and len(sh) > 3:
                    sh = rnd.sample(sh, 3)
                if cfg['optmode'] == 'none':
                    sh = sh[:1]
                for args, kwargs in sh:
                    spec = dict(cfg, expr=expr, klass=klass, args=args, kwargs=kwargs)
                    try:
                        run_call_case(env, spec, out)
                    except Exception as e:   # noqa
                        import traceback
                        out['failures'].append(('harness error: %s' % traceback.format_exc()[-600:], None, spec))
                    ncalls += 1
                    run.count()
                    run.nontriv(spec_key(spec))
                    # second call on the same objects: remembered decisions (cache hits) are exercised too
        finally:
            env.close()
    # ---------------------------------------------------------------- sequences: a transient reason must not stick
    for expr, first_cfg in itertools.product(['U.plain', 'U.K(3).meth', 'U.K(3)', 'functools.partial(U.plain, 1)'],
                                             [dict(ctx='DISABLED', internal=True), dict(ctx='default', internal=False)]):
        env = Env(tmp)
        try:
            a = ((1,), None) if 'partial' not in expr else ((), None)
            s1 = dict(ur=False, internal=first_cfg['internal'], ctx=first_cfg['ctx'], strict=False, optmode='given',
                      expr=expr, klass='conv', args=a[0], kwargs=a[1])
            s2 = dict(s1, ctx='default', internal=True, sequence_after=dict(first_cfg))
            run_call_case(env, s1, out)
            run_call_case(env, s2, out)     # same code objects, same module: must be converted now
            run.count(2)
            run.nontriv(('seq', expr, repr(first_cfg)))
        finally:
            env.close()
    # ---------------------------------------------------------------- histories: the decision for (f, options) is the
    # policy's decision whatever requests came before on the SAME target object
    hist_targets = [('A.plain', 'allow', ((1,), None)), ('A.K(3).meth', 'allow', ((2,), {'y': 5})), ('A.K(3)', 'allow', ((1,), {})),
                    ('U.Case().helper', 'allow', ((1,), None)), ('U.plain', 'conv', ((1,), {'y': 5})),
                    ('U.K(3).meth', 'conv', ((1,), None)), ('U.lam', 'conv', ((3,), None)),
                    ('api.do_not_convert(U.plain)', 'never', ((1,), None)), ('U.cached', 'never', ((1,), None)),
                    ('functools.partial(A.plain, 1)', 'allow', ((), {'y': 5}))]
    opt_points = [(False, True), (True, True), (False, False), (True, False)]      # (user_requested, recursive)
    seqs = []
    for a in opt_points:
        for b in opt_points:
            if a != b and sum(x != y for x, y in zip(a, b)) == 1:
                seqs.append([a, b])
    seqs += [[(False, True), (False, False), (True, True)], [(False, False), (False, True), (True, True)],
             [(True, False), (False, True), (True, True)], [(False, True), (True, True), (False, True)]]
    for (expr, klass, (hargs, hkw)) in hist_targets:
        chosen = seqs if thorough else [seqs[i] for i in range(len(seqs)) if (i + run.seed) % 2 == 0 or i < 2 or i >= 8]
        for seq in chosen:
            env = Env(tmp)
            try:
                fobj = eval(expr, env.namespace())
                hist = []
                for (ur, internal) in seq:
                    spec = dict(ur=ur, internal=internal, ctx='default', strict=False, optmode='given', expr=expr,
                                klass=klass, args=hargs, kwargs=hkw, history=list(hist))
                    try:
                        run_call_case(env, spec, out, fobj=fobj)
                    except Exception:   # noqa
                        import traceback
                        out['failures'].append(('harness error: %s' % traceback.format_exc()[-600:], None, spec))
                    hist.append(dict(ur=ur, internal=internal))
                    run.count()
                run.nontriv(('history', expr, repr(seq)))
            finally:
                env.close()
    # ---------------------------------------------------------------- the allow-list cache is keyed by option EQUALITY over all
    # attributes: a verdict stored for o1 is found for o2 iff o1 and o2 agree on every attribute
    from malt.core import converter as _conv
    from malt.impl import conversion as _cv
    env = Env(tmp)
    try:
        feats = [None, _conv.Feature.LISTS]
        grid = [(r, u, i, ft) for r in (False, True) for u in (False, True) for i in (False, True) for ft in feats]
        mk = lambda g: _conv.ConversionOptions(recursive=g[0], user_requested=g[1], internal_convert_user_code=g[2], optional_features=g[3])
        for g1 in grid:
            fn = env.U.closure_maker(len(grid))      # a fresh function object per stored verdict
            _cv.cache_allowlisted(fn, mk(g1))
            for g2 in grid:
                hit = _cv.is_in_allowlist_cache(fn, mk(g2))
                run.count()
                if hit != (g1 == g2):
                    out['failures'].append((
                        'allow-list cache: a verdict stored under options %r is %s under options %r (attributes: recursive, '
                        'user_requested, internal_convert_user_code, optional_features)' % (g1, 'found' if hit else 'NOT found', g2),
                        None, dict(expr='U.closure_maker(16)', stored_under=repr(g1), looked_up_under=repr(g2), cache_key_probe=True)))
    finally:
        env.close()
    # ---------------------------------------------------------------- the same hashable object with a raising __eq__, twice
    env = Env(tmp)
    try:
        from malt.impl import api as _api
        o = env.U.RaisingEqHashable()
        opts_ = mkopts(False, False)
        with Quiet():
            r1 = outcome_of(lambda: _api.converted_call(o, (1,), None, options=opts_))
            r2 = outcome_of(lambda: _api.converted_call(o, (1,), None, options=opts_))
        want_ = outcome_of(lambda: o(1))
        run.count(2)
        if r1 != want_ or r2 != want_:
            out['failures'].append(('second call of the same hashable target whose __eq__ raises: direct %r, first %r, second %r'
                                    % (want_, r1, r2), KF_EQ, dict(expr='U.RaisingEqHashable()', twice=True, args=(1,), kwargs=None)))
    finally:
        env.close()
    # ---------------------------------------------------------------- faults
    stages = pipeline_stages()
    excs = fault_exceptions()
    targets = [('U.plain', 'conv', ((1,), {'y': 5})), ('U.K(3).meth', 'conv', ((2,), None)),
               ('U.K(3)', 'conv', ((1,), {})), ('U.lam', 'conv', ((1,), None)),
               ('functools.partial(U.plain, 1)', 'conv', ((), {'y': 5})), ('U.Unhashable()', 'conv-nocache', ((1,), None)),
               ('U.K.cmeth', 'conv', ((1,), {'y': 3})), ('U.WithMeta', 'conv', ((1,), None)),
               ('U.Falsy().meth', 'conv', ((1,), None))]
    nfault = 0
    for si, stage in enumerate(stages):
        ex_choice = excs if thorough else [excs[(si + run.seed) % len(excs)], excs[(si * 3 + 1 + run.seed) % len(excs)]]
        tg_choice = targets if thorough else [targets[(si + run.seed) % len(targets)], targets[(si * 5 + 3) % len(targets)]]
        for (exn, _), (expr, klass, (args, kwargs)) in itertools.product(ex_choice, tg_choice):
            for strict in ((False, True) if (thorough or (si + len(exn)) % 3 == 0) else (False,)):
                env = Env(tmp)
                try:
                    spec = dict(ur=False, internal=True, ctx='default', strict=strict, optmode='given', expr=expr,
                                klass=klass, args=args, kwargs=kwargs, fault=(stage[0], exn))
                    d, ev, got, want = run_call_case(env, spec, out)
                    # remembered: the same target again, fault removed -> no new conversion attempt
                    if not strict and klass != 'conv-nocache' and any(e[0] == 'fb' for e in ev):
                        spec2 = dict(spec, fault=None, after_fallback=True)
                        n_before = len(out['failures'])
                        ns = env.namespace()
                        # the *same* function objects: re-evaluate only the outer expression
                        d2, ev2, got2, want2 = run_call_case(env, spec2, out)
                        tgt_attempt = [e for e in ev2 if e[0] == 'convert']
                        if expr in ('U.plain', 'U.lam', 'U.K.cmeth', 'U.WithMeta') and tgt_attempt:
                            out['failures'].append(('failure not remembered: a second call attempted the conversion again', None, spec2))
                    nfault += 1
                    run.count()
                    run.nontriv(spec_key(spec))
                except Exception as e:   # noqa
                    import traceback
                    out['failures'].append(('harness error: %s' % traceback.format_exc()[-600:], None,
                                            dict(expr=expr, fault=(stage[0], exn))))
                finally:
                    env.close()
    # ---------------------------------------------------------------- end to end through generated code
    e2e_failures = run_e2e(run, tmp, rnd, thorough)
    # ---------------------------------------------------------------- partial nests
    partial_failures = run_partials(run, tmp, rnd, thorough, other_cases)
    # ---------------------------------------------------------------- rules, is_unsupported, is_allowlisted
    pred_failures = run_predicates(run, tmp, rnd, thorough, other_cases)
    run.extra['call_statistics'] = out.get('stats')
    run.extra['calls'] = ncalls
    run.extra['fault_injections'] = nfault
    run.extra['pipeline_stages'] = [s[0] for s in stages]
    # ---------------------------------------------------------------- model vs implementation in Coq
    corr_bad = None
    if tie_msg is None:
        terms = []
        index = []
        for sit, obs, spec in out['cases']:
            terms.append('CPolicy %d (%s) (%s)' % (len(terms), sit, obs))
            index.append(('call', spec, sit, obs))
        for t, desc in other_cases:
            terms.append(t.replace('@ID@', str(len(terms))))
            index.append(('other', desc, t, None))
        bad = eval_cases(terms)
        if isinstance(bad, str):
            corr_bad = bad
        else:
            run.extra['traces_validated_against_impl'] = len(terms)
            if bad:
                k = index[bad[0]]
                corr_bad = 'model and implementation disagree on %d case(s); first: %s' % (len(bad), json.dumps(k[1], default=str)[:600])
                run.extra['first_disagreement'] = {'case': json.dumps(k[1], default=str), 'situation_or_term': k[2], 'observed': k[3]}
    # ---------------------------------------------------------------- verdict
    failures = out['failures'] + e2e_failures + partial_failures + pred_failures
    groups = {}
    order = []
    for what, kf, spec in failures:
        key = (re.sub(r"[0-9]+", "N", re.sub(r"'[^']*'|\"[^\"]*\"|\([^()]*\)", "_", what))[:60], kf)
        if key not in groups:
            groups[key] = []
            order.append(key)
        groups[key].append((what, spec))
    for key in order[:10]:
        what, spec = groups[key][0]
        run.violation(what[:200], {'what': what, 'case': spec, 'how': replay_cmd(spec),
                                   'same_failure_on': [g[1] for g in groups[key][1:9]],
                                   'occurrences': len(groups[key]),
                                   'python': 'PYTHONPATH=%s /venv/bin/python; see tools/props/c13.py run_call_case' % vlib.REPO},
                      classify=key[1])
    real = [f for f in failures if f[1] is None or f[1] not in [k['id'] for k in run.known]]
    if not real:
        searched = ('oracle over %d calls, %d fault injections, partial nests, rules found no failing input' % (ncalls, nfault))
        if tie_msg is not None:
            run.violation('translator no longer recognises the source: ' + tie_msg,
                          {'broken_tie': tie_msg, 'searched': searched}, found_input=False)
        elif corr_bad:
            run.violation('correspondence model/implementation broken', {'broken_correspondence': corr_bad,
                          'detail': run.extra.get('first_disagreement'), 'searched': searched}, found_input=False)
    run.sample({'call': 'converted_call(U.K(3).meth, (3,), {"y": 5}, options=ConversionOptions(recursive=True, optional_features=None))'})
    for sit, obs, spec in out['cases'][:400:97]:
        run.sample({'call': spec['expr'], 'args': repr(spec['args']), 'kwargs': repr(spec['kwargs']), 'situation': sit, 'observed': obs})
    run.assumptions += [
        'atoms of the decision chain are measured on real objects by the real helper functions (is_unsupported, is_allowlisted, '
        'isbuiltin, is_autograph_artifact, ...); their own decision lists are generated and proved against the documentation, '
        'their leaf tests (inspect.*, sys.modules scans) are CPython',
        'builtin overloads are taken to stand for the builtins (that is C14); eval/super/globals/locals in the caller frame belong to C14',
        'the call form f(*a) vs f(*a, **{}) is not observable from Python; the model is only required to choose an executable form that keeps the keywords',
        'what runs inside a converted callee (semantic preservation of the conversion itself) is C01; here only that the one call is made with the same binding',
    ]


def eval_cases(terms):
    hdr = ['From Coq Require Import List String Ascii Bool Arith.', 'Import ListNotations.',
           'Require Import MV.Policy.PolicySyntax MV.Policy.Policy MV.Policy.Spec MV.Generated.C13_gen MV.Policy.PolicyCheck.',
           'Local Open Scope string_scope.']
    bad = []
    shard = 400
    from concurrent.futures import ThreadPoolExecutor

    def one(i):
        chunk = terms[i:i + shard]
        body = hdr + ['Definition cases : list case := [', ';\n'.join(chunk), '].', 'Eval vm_compute in failing cases.']
        rc, outp = vlib.coq_eval('C13', 'cases_%d' % (i // shard), '\n'.join(body), timeout=300)
        r = vlib.parse_coq_list_of_nat(outp)
        if rc != 0 or r is None:
            return 'model evaluation failed: ' + outp[-800:]
        return r
    with ThreadPoolExecutor(max_workers=8) as ex:
        res = list(ex.map(one, range(0, len(terms), shard)))
    for r in res:
        if isinstance(r, str):
            return r
        bad += r
    return sorted(bad)


# ---------------------------------------------------------------- end to end
def run_e2e(run, tmp, rnd, thorough):
    from malt.impl import api
    fails = []
    env = Env(tmp)
    try:
        ns = env.namespace()
        for recursive in (True, False):
            conv_call_it = api.convert(recursive=recursive)(env.U.call_it)
            conv_call_star = api.convert(recursive=recursive)(env.U.call_star)
            for expr, klass, shapes in ENTRIES:
                if klass in ('kf-self', 'kf-call', 'uncallable', 'artifact') or (expr.startswith('np.') and not have_numpy()):
                    continue
                sh = shapes if thorough else shapes[:2]
                for args, kwargs in sh:
                    mk = lambda: eval(expr, ns)      # a fresh, equal callable per call (receivers may be stateful)
                    a = fix_args(env, args)
                    spec = dict(e2e=True, recursive=recursive, expr=expr, klass=klass, args=args, kwargs=kwargs)
                    env.clear_logs()
                    with Quiet():
                        want = outcome_of(lambda: env.U.call_it(mk(), a, kwargs))
                    wl = env.logs()
                    env.clear_logs()
                    with Quiet(), OpCounter() as ops:
                        got = outcome_of(lambda: conv_call_it(mk(), a, None if kwargs is None else dict(kwargs)))
                    gl = env.logs()
                    run.count()
                    run.nontriv(('e2e', recursive, expr, repr(args), repr(kwargs)))
                    if got[:2] != want[:2] if want[0] == 'exc' else got != want:
                        fails.append(('end-to-end: generated code calling %s gives %r, original gives %r' % (expr, got, want), None, spec))
                    elif gl != wl:
                        fails.append(('end-to-end: effects differ for %s: %r vs %r' % (expr, gl, wl), None, spec))
                    # call_it itself fires exactly one conditional operator (if k is None)
                    inner = ops.n - 1
                    if klass == 'conv' and want[0] == 'ok':
                        if recursive and inner <= 0:
                            fails.append(('end-to-end: recursive mode did not convert the callee %s' % expr, None, spec))
                        if not recursive and inner > 0:
                            fails.append(('end-to-end: non-recursive mode converted the callee %s' % expr, None, spec))
                    if klass == 'never' and inner > 0:
                        fails.append(('end-to-end: callee %s must not be converted but operators fired' % expr, None, spec))
                    if kwargs is not None:
                        env.clear_logs()
                        with Quiet():
                            want = outcome_of(lambda: env.U.call_star(mk(), a, kwargs))
                            got = outcome_of(lambda: conv_call_star(mk(), a, dict(kwargs)))
                        if got[:2] != want[:2] if want[0] == 'exc' else got != want:
                            fails.append(('end-to-end (star-args): %s gives %r, original %r' % (expr, got, want), None, spec))
        # frame builtins through a real caller scope (smoke; depth is C14's)
        for name, a in (('use_eval', (3,)), ('use_locals_globals', (4,))):
            fn = getattr(env.U, name)
            want = outcome_of(lambda: fn(*a))
            got = outcome_of(lambda: api.convert(recursive=True)(fn)(*a))
            run.count()
            if got != want:
                fails.append(('end-to-end: %s%r gives %r converted, %r original' % (name, a, got, want), None, dict(e2e=True, expr='U.' + name)))
        d = env.U.Derived2()
        want = outcome_of(lambda: d.who(1))
        got = outcome_of(lambda: api.convert(recursive=True)(env.U.Derived2.who)(d, 1))
        run.count()
        if got != want:
            fails.append(('end-to-end: super() call gives %r converted, %r original' % (got, want), None, dict(e2e=True, expr='U.Derived2().who')))
    finally:
        env.close()
    return fails


# ---------------------------------------------------------------- partial nests
def run_partials(run, tmp, rnd, thorough, other_cases):
    from malt.impl import api, conversion
    fails = []
    n = 400 if thorough else 120
    env = Env(tmp)
    try:
        rec_log = []

        def rec(*a, **k):
            rec_log.append((a, list(k.items())))
            if a:
                return ('rec', len(a))
            return ('rec',)
        opts = mkopts(False, True)
        for i in range(n):
            levels = gen_nest(rnd)
            obj = rec
            objs = []
            for a, k in levels:
                obj = mkpartial(obj, *a, **dict(k))
                objs.append(obj)
            cargs = tuple(rnd.randint(0, 9) for _ in range(rnd.choice([0, 1, 2])))
            ckw = rnd.choice([None, {}, None]) if rnd.random() < 0.4 else \
                dict((x, rnd.randint(100, 199)) for x in rnd.sample(['y', 'z', 'w', 'k', 'q'], rnd.choice([1, 2, 3])))
            # CPython, directly
            del rec_log[:]
            r1 = obj(*cargs, **(ckw or {}))
            direct = rec_log[-1]
            t = nest_term(levels)
            other_cases.append(('CDirect @ID@ (%s) [%s] %s 0 [%s] %s' % (
                t, '; '.join(map(str, cargs)), kw_term(list((ckw or {}).items())),
                '; '.join(map(str, direct[0])), kw_term(direct[1])),
                {'partial_nest': levels, 'args': cargs, 'kwargs': ckw, 'direct_binding': direct}))
            # through converted_call; some levels stop the unwrapping (artifact / cached)
            stops = []
            for dpt, o in enumerate(objs, 1):
                if rnd.random() < 0.15:
                    if rnd.random() < 0.5:
                        o.autograph_info__ = None
                    else:
                        conversion.cache_allowlisted(o, opts)
                    stops.append(dpt)
            del rec_log[:]
            with Quiet(), Instr() as ins:
                got = outcome_of(lambda: ins.orig_cc(obj, cargs, None if ckw is None else dict(ckw), options=opts))
                ev = list(ins.ev)
            re_ev = [e for e in ev if e[0] == 'reenter']
            if re_ev:
                fa, fk = re_ev[-1][2], re_ev[-1][3]
            else:
                fa, fk = cargs, ckw
            edepth = len(levels) - len(re_ev)
            other_cases.append(('CUnwrap @ID@ (%s) [%s] (%s) [%s] %d [%s] (%s)' % (
                t, '; '.join(map(str, cargs)), okw_term(ckw), '; '.join(map(str, stops)), edepth,
                '; '.join(map(str, fa)), okw_term(fk)),
                {'partial_nest': levels, 'args': cargs, 'kwargs': ckw, 'stops_at_depths': stops,
                 'observed_depth': edepth, 'observed_args': fa, 'observed_kwargs': fk}))
            run.count(2)
            run.nontriv(('partial', repr(levels), cargs, repr(ckw), tuple(stops)))
            # oracle: same result, one invocation, same binding
            wrapped = rec_log[:]
            if got != ('ok', canon(r1)) or len(wrapped) != 1 or wrapped[0] != direct:
                fails.append(('partial nest: direct call binds %r (result %r), converted_call binds %r (result %r)' % (
                    direct, r1, wrapped, got), None,
                    {'partial_nest': levels, 'args': cargs, 'kwargs': ckw, 'stops_at_depths': stops}))
            for a, k in levels:
                pass
            # stored keywords of the partial objects must not be mutated
            for o, (a, k) in zip(objs, levels):
                if o.keywords != dict(k) or tuple(o.args) != tuple(a):
                    fails.append(('partial object mutated by converted_call: %r' % (o,), None, {'partial_nest': levels}))
    finally:
        env.close()
    return fails


# ---------------------------------------------------------------- rules, is_unsupported, is_allowlisted
def run_predicates(run, tmp, rnd, thorough, other_cases):
    from malt.impl import conversion
    from malt.core import config
    from malt.pyct import inspect_utils
    import unittest
    fails = []
    prefixes = [r._prefix for r in config.CONVERSION_RULES]
    names = set(['', 'x', '.', 'malt', 'maltese', 'malt.', '.malt', 'numpyx', 'numpy.x.y', 'tensorflow.python.training.experimental',
                 'tensorflow.python.training.experimental.loss', 'tensorflow.python.training.experimentalx', 'tensorflow.python.training',
                 'absl', 'absl.logging', 'absl.loggingx', 'absl.logging.x', 'tensorflow_datasets', 'tensorflow_datasets.core.x', 'c13_user'])
    for p in prefixes:
        names.update([p, p + '.x', p + 'x', p[:-1], p + '.', 'x.' + p, p.upper(), p + '..', p + '.a.b'])
    alphabet = 'abt.x_'
    for _ in range(200 if thorough else 40):
        names.add(''.join(rnd.choice(alphabet) for _ in range(rnd.randint(0, 8))))
        p = rnd.choice(prefixes)
        cut = rnd.randint(0, len(p))
        names.add(p[:cut] + rnd.choice(['', '.', 'x', '.y']) + p[cut:] * rnd.choice([0, 1]))
    for name in sorted(names):
        mod = types.SimpleNamespace(__name__=name)
        act = 'RNone'
        for rule in config.CONVERSION_RULES:
            a = rule.get_action(mod)
            if a == config.Action.CONVERT:
                act = 'RConvert'
                break
            if a == config.Action.DO_NOT_CONVERT:
                act = 'RDoNotConvert'
                break
        other_cases.append(('CRule @ID@ %s %s' % (vlib.coq_str(name), act), {'module_name': name, 'real_rules_say': act}))
        run.count()
        run.nontriv(('rule', name))
        # oracle: exact-or-dotted, first rule wins; is_allowlisted on a plain function of a module of that name agrees
        want = 'RNone'
        for rule in config.CONVERSION_RULES:
            p = rule._prefix
            if name == p or name.startswith(p + '.'):
                want = 'RConvert' if isinstance(rule, config.Convert) else 'RDoNotConvert'
                break
        if want != act:
            fails.append(('rule matching for module name %r gives %s, the documented exact-or-dotted first match gives %s' % (name, act, want),
                          None, {'module_name': name}))
        if name and name not in sys.modules:
            m = types.ModuleType(name)
            sys.modules[name] = m
            try:
                fn = types.FunctionType(compile('def probe(x):\n    return x\n', '<c13-probe>', 'exec').co_consts[0], {'__name__': name})
                fn.__module__ = name
                got = conversion.is_allowlisted(fn)
            finally:
                sys.modules.pop(name, None)
            if got != (act == 'RDoNotConvert'):
                fails.append(('is_allowlisted(function of module %r) = %r but the rules say %s' % (name, got, act), None, {'module_name': name}))
    # ---- py_builtins.overload_of: chosen by identity with a listed builtin, never by name
    from malt.operators import py_builtins
    import builtins as _builtins
    import decimal
    named = {'abs': [decimal.Context(prec=2).abs, operator.abs]}
    if have_numpy():
        import numpy as np
        named.setdefault('any', []).extend([np.array([0, 2]).any, np.float64(0.0).any])
        named.setdefault('all', []).extend([np.array([0, 2]).all, np.int64(3).all])
    for k in sorted(set(py_builtins.BUILTIN_FUNCTIONS_MAP) | set(b.__name__ for b in py_builtins.SUPPORTED_BUILTINS)):
        objs = list(named.get(k, []))
        if hasattr(_builtins, k):
            objs.append(getattr(_builtins, k))
        pyfn = types.FunctionType(compile('def %s(*a):\n    return a\n' % k, '<c13-named>', 'exec').co_consts[0], {})
        objs += [pyfn, types.SimpleNamespace(__name__=k)]
        for x in objs:
            in_sup = any(x is b for b in py_builtins.SUPPORTED_BUILTINS)
            in_map = getattr(x, '__name__', None) in py_builtins.BUILTIN_FUNCTIONS_MAP
            desc = {'overload_of': '%s %r (__name__ = %r)' % (type(x).__name__, x, k)}
            try:
                r = py_builtins.overload_of(x)
            except Exception as e:   # noqa
                fails.append(('overload_of(%r) raised %r' % (x, e), None, desc))
                continue
            mapped = r is not x
            other_cases.append(('COverload @ID@ (mk_ov %s %s) %s' % (coq_b(in_sup), coq_b(in_map), coq_b(mapped)),
                                dict(desc, in_supported=in_sup, name_in_map=in_map, mapped=mapped)))
            run.count()
            run.nontriv(('overload', k, type(x).__name__))
            if mapped != in_sup:
                fails.append(('overload_of replaces %r (a %s that is %sone of SUPPORTED_BUILTINS) by %r'
                              % (x, type(x).__name__, '' if in_sup else 'NOT ', r), None, desc))
            elif mapped and r is not py_builtins.BUILTIN_FUNCTIONS_MAP[k]:
                fails.append(('overload_of(%r) gives %r, not the overload registered under %r' % (x, r, k), None, desc))
    # ---- is_unsupported / is_allowlisted on real objects, with a stand-in `wrapt`
    env = Env(tmp)
    fake_wrapt = types.ModuleType('wrapt')

    class FunctionWrapper(object):
        def __init__(self, f):
            self.f = f

        def __call__(self, *a, **k):
            return self.f(*a, **k)

    class BoundFunctionWrapper(FunctionWrapper):
        pass
    fake_wrapt.FunctionWrapper = FunctionWrapper
    fake_wrapt.BoundFunctionWrapper = type('BoundFunctionWrapper', (object,), {'__call__': lambda self, *a: None})
    had_wrapt = sys.modules.get('wrapt')
    sys.modules['wrapt'] = fake_wrapt
    try:
        ns = env.namespace()
        ns['wrapt'] = fake_wrapt
        exprs = [e for e, _, _ in ENTRIES] + [
            'wrapt.FunctionWrapper(U.plain)', 'wrapt.BoundFunctionWrapper()', 'collections.namedtuple', 'copy.copy', 're.compile',
            'U.NT', 'U.NTSub', 'U.K', 'U.Case().helper', 'U.Case', 'A.K', 'A.NT', 'A.Case().helper', 'U.gen', 'A.gen', 'U.K(1).__call__',
            'functools.partial', 'functools.partial(A.K(1))', 'type("C2", (A.K,), {"meth": lambda self, x: x})(1).meth',
            'type("C3", (A.K,), {})(1).cmeth', 'type("C4", (A.NT,), {})', 'object()', 'U', 'None', 'U.NTSub(1).total', 'U.WithMeta', 'U.Meta',
            'collections.OrderedDict().get', 'inspect_getsource']
        ns['inspect_getsource'] = inspect.getsource
        std_mods = ('collections', 'pdb', 'copy', 'inspect', 're')
        for expr in exprs:
            try:
                o = eval(expr, ns)
            except Exception:   # noqa
                continue
            with Quiet():
                try:
                    u = dict(
                        wf=conversion._is_known_loaded_type(o, 'wrapt', 'FunctionWrapper'),
                        wb=conversion._is_known_loaded_type(o, 'wrapt', 'BoundFunctionWrapper'),
                        lru=conversion._is_known_loaded_type(o, 'functools', '_lru_cache_wrapper'),
                        ctor=inspect_utils.isconstructor(o),
                        std=any(conversion._is_of_known_loaded_module(o, m) for m in std_mods),
                        plug=hasattr(o, '__module__') and hasattr(o.__module__, '_IS_TENSORFLOW_PLUGIN'))
                    eu = bool(conversion.is_unsupported(o))
                except Exception as e:   # noqa
                    fails.append(('is_unsupported(%s) raised %r' % (expr, e), None, {'expr': expr}))
                    continue
            other_cases.append(('CUnsup @ID@ (mk_unsup %s %s %s %s %s %s) %s' % (
                coq_b(u['wf']), coq_b(u['wb']), coq_b(u['lru']), coq_b(u['ctor']), coq_b(u['std']), coq_b(u['plug']), coq_b(eu)),
                {'is_unsupported': expr, 'atoms': u, 'real': eu}))
            run.count()
            for cco, ants in ((True, False), (False, True), (True, True)):
                with Quiet():
                    try:
                        w, ea = measure_allow(o, cco, ants)
                    except Exception as e:   # noqa
                        fails.append(('is_allowlisted(%s, %r, %r) raised %r' % (expr, cco, ants, e), None, {'expr': expr}))
                        continue
                other_cases.append(('CAllow @ID@ (%s) %s' % (w, coq_b(ea)), {'is_allowlisted': expr, 'check_call_override': cco,
                                                                        'allow_namedtuple_subclass': ants, 'atoms': w, 'real': ea}))
                run.count()
                run.nontriv(('allow', expr, cco, ants))
    finally:
        if had_wrapt is None:
            sys.modules.pop('wrapt', None)
        else:
            sys.modules['wrapt'] = had_wrapt
        env.close()
    return fails


def measure_allow(o, cco, ants):
    from malt.impl import conversion
    from malt.core import config
    from malt.pyct import inspect_utils
    import unittest
    m = functools if isinstance(o, functools.partial) else inspect.getmodule(o)
    named = hasattr(m, '__name__')
    rule = 'RNone'
    if named:
        for r in config.CONVERSION_RULES:
            a = r.get_action(m)
            if a == config.Action.CONVERT:
                rule = 'RConvert'
                break
            if a == config.Action.DO_NOT_CONVERT:
                rule = 'RDoNotConvert'
                break
    has_code = hasattr(o, '__code__')
    is_gen = bool(has_code and inspect.isgeneratorfunction(o))
    is_class = inspect.isclass(o)
    has_call = hasattr(o, '__call__')
    differs = bool(has_call and type(o) != type(o.__call__))
    call_allowed = bool(cco and not is_class and has_call and differs and conversion.is_allowlisted(o.__call__))
    is_method = inspect.ismethod(o)
    owner = inspect_utils.getmethodclass(o) if is_method else None
    owner_found = owner is not None
    owner_tc = bool(owner_found and issubclass(owner, unittest.TestCase))
    owner_allowed = False
    if owner_found and not owner_tc:
        owner_allowed = bool(conversion.is_allowlisted(inspect_utils.getdefiningclass(o, owner), check_call_override=False,
                                                       allow_namedtuple_subclass=True))
    nt = inspect_utils.isnamedtuple(o)
    base_nt = bool(nt and any(inspect_utils.isnamedtuple(b) for b in o.__bases__))
    ea = bool(conversion.is_allowlisted(o, check_call_override=cco, allow_namedtuple_subclass=ants))
    w = 'mk_allow %s %s %s %s %s %s %s %s %s %s %s %s %s %s %s %s' % (
        coq_b(named), rule, coq_b(has_code), coq_b(is_gen), coq_b(cco), coq_b(is_class), coq_b(has_call), coq_b(differs),
        coq_b(call_allowed), coq_b(is_method), coq_b(owner_found), coq_b(owner_tc), coq_b(owner_allowed), coq_b(nt),
        coq_b(ants), coq_b(base_nt))
    return w, ea


# =========================================================================================
# replay
# =========================================================================================
def replay(path):
    doc = json.load(open(path))
    print(json.dumps(doc, indent=1)[:3000])
    spec = doc.get('replay', {}).get('case')
    if not isinstance(spec, dict) or 'expr' not in spec or 'args' not in spec or spec.get('e2e'):
        return 0
    tmp = vlib.ensure_dir(os.path.join(vlib.BUILD, 'tmp', 'c13-replay-%d' % os.getpid()))
    os.environ['TMPDIR'] = tmp
    try:
        from malt.impl import api
        api._TRANSPILER.get_extra_locals()
        env = Env(tmp)
        out = {'cases': [], 'failures': []}
        spec['args'] = tuple(tuple(a) if isinstance(a, list) else a for a in spec['args'])
        if spec.get('fault'):
            spec['fault'] = tuple(spec['fault'])
        fobj = None
        if spec.get('history') is not None:
            fobj = eval(spec['expr'], env.namespace())
            for h in spec['history']:
                print('history step       :', h)
                run_call_case(env, dict(spec, history=[], **h), {'cases': [], 'failures': []}, fobj=fobj)
        d, ev, got, want = run_call_case(env, spec, out, fobj=fobj)
        print('direct call        :', want)
        print('through the wrapper:', got)
        print('events             :', [e[0] for e in ev])
        for what, kf, _ in out['failures']:
            print('FAIL:', what, '[%s]' % kf if kf else '')
        env.close()
        return 1 if out['failures'] else 0
    finally:
        shutil.rmtree(tmp, ignore_errors=True)
