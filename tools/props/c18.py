"""C18 -- A-normal-form transformation preserves evaluation order and yields ANF.

 1. regenerate coq/Generated/C18_gen.v (dispatch table of AnfTransformer.visit_*, fail closed)
 2. re-check the obligations in coq/Properties/C18
 3. correspondence: generated programs x configurations (default + random edge patterns):
    anf.transform output (or rejection) and the Python mirror of the order guard vs the Coq
    model evaluated by vm_compute
 4. property-level oracle on the real code: original vs compiled anf.transform output, run
    with operands whose every operation is a logged event (result, event order, exceptions),
    shape of the output (every position the configuration names holds a name/literal,
    temporaries assigned once), lazy constructs rejected or left untouched -- including the type expressions
    of except clauses (try stream: clauses whose types are calls / attribute loads yielding real exception
    classes / operations / tuples, bodies that raise; an accepted try statement keeps every clause type and
    gets nothing hoisted in front of it on their behalf; Coq: 4th part of lazy_rejected); hygiene stream: variables of
    the program spelled like the identifiers the transformer itself uses (template placeholders, its own
    variables; harvested from the tree under test) -- same judgement, plus: renaming the variables of the
    input commutes with anf.transform (Coq: anf_renaming_invariant)
"""
import ast
import copy
import json
import os
import random
import re
import warnings
from concurrent.futures import ThreadPoolExecutor

from lib import vlib
from translate import c18_export as X
from translate import c18_gen as G
from translate import c18_runtime as RT
from translate import c18_table as T

KNOWN = {
    'anf-sibling-order', 'anf-assign-target-order', 'anf-dict-order', 'anf-slice-hoisted',
    'anf-target-hoisted', 'anf-operator-hoisted', 'anf-boolop-test-double-truth', 'anf-gensym-user-name-collision', 'anf-name-read-before-walrus', 'anf-pending-lost', 'anf-starred-unpack-order',
}


def generate():
    text = T.translate(vlib.REPO)
    vlib.write_if_changed(os.path.join(vlib.COQ, 'Generated', 'C18_gen.v'), text)


# ---------------------------------------------------------------------------------- implementation
def _ctx():
    from malt.pyct import transformer
    ei = transformer.EntityInfo(name='fn', source_code=None, source_file=None, future_features=(), namespace=None)
    return transformer.Context(ei, None, None)


def run_impl(src, config, tree=None):
    """-> ('ok', FunctionDef, hoisted names) | ('err', exception type name, message).
    tree: the very object to transform (a tree that went through earlier calls), src = its text"""
    from malt.pyct.common_transformers import anf
    node = tree if tree is not None else ast.parse(src).body[0]
    before = {id(n) for n in ast.walk(node) if isinstance(n, ast.stmt)}     # `node` stays alive: ids are not reused
    try:
        out = anf.transform(node, _ctx(), config)
    except (ValueError, AssertionError) as e:
        return ('err', type(e).__name__, str(e)[:120])
    except Exception as e:   # noqa
        return ('crash', type(e).__name__, str(e)[:200])
    # the statements the transformer created (the original statement objects are reused in place)
    hoisted = [n.targets[0].id for n in ast.walk(out) if isinstance(n, ast.Assign) and id(n) not in before
               and len(n.targets) == 1 and isinstance(n.targets[0], ast.Name)]
    return ('ok', out, hoisted)


def unparse(node):
    try:
        n = copy.deepcopy(node)
        ast.fix_missing_locations(n)
        return ast.unparse(n)
    except Exception as e:   # noqa
        return '<unparse failed: %s>' % e


# ---------------------------------------------------------------------------------- oracle
LAZY_TYPES = (ast.BoolOp, ast.IfExp, ast.Lambda, ast.ListComp, ast.SetComp, ast.DictComp, ast.GeneratorExp)


def tmp_names(node):
    return [n.id for n in ast.walk(node) if isinstance(n, ast.Name) and X.TMP_RE.match(n.id)]


def user_names(orig):
    return {n.id for n in ast.walk(orig) if isinstance(n, ast.Name)} | {a.arg for a in ast.walk(orig) if isinstance(a, ast.arg)}


def hoisted_user_collision(orig, out):
    """a hoisted `tmp_k = ...` whose name is a variable of the program it was applied to"""
    def count(tree):
        c = {}
        for n in ast.walk(tree):
            if isinstance(n, ast.Assign) and len(n.targets) == 1 and isinstance(n.targets[0], ast.Name):
                c[n.targets[0].id] = c.get(n.targets[0].id, 0) + 1
        return c
    co, ct = count(orig), count(out)
    return sorted(x for x in user_names(orig) if X.TMP_RE.match(x) and ct.get(x, 0) > co.get(x, 0))


def shape_failures(orig, out, config, hoisted):
    """Property text, output-shape part: judged on the output of the real transformer.
    -> list of (what, detail)"""
    from malt.pyct.common_transformers import anf
    bad = []
    # temporaries: each introduced by exactly one hoisted statement, pairwise distinct,
    # distinct from every name of the program
    dup = sorted(x for x in set(hoisted) if hoisted.count(x) > 1)
    if dup:
        bad.append(('a temporary is assigned by two hoisted statements', dup[0]))
    clash = sorted(set(hoisted) & user_names(orig))
    if clash:
        bad.append(('a temporary has the name of a variable of the program', clash[0]))
    # every position the configuration asks to be named holds a name or literal afterwards
    t = G.SpecConfig(config, anf)       # the documented reading of the configuration, not the implementation's
    strict = (ast.Call, ast.BinOp, ast.UnaryOp, ast.Compare, ast.Attribute, ast.Subscript, ast.Dict, ast.Set,
              ast.Return, ast.Raise)

    def positions(n):
        for f in n._fields:
            v = getattr(n, f, None)
            for c in (v if isinstance(v, list) else [v]):
                if isinstance(c, ast.Starred):
                    c = c.value
                if isinstance(c, ast.keyword):
                    c = c.value
                if isinstance(c, ast.expr):
                    yield f, c
    for n in ast.walk(out):
        if isinstance(n, strict) or (isinstance(n, (ast.Tuple, ast.List)) and isinstance(n.ctx, ast.Load)):
            if isinstance(getattr(n, 'ctx', None), (ast.Store, ast.Del)) and False:
                continue
            for f, c in positions(n):
                if isinstance(c, ast.Slice) or G.spec_trivial(c):
                    continue
                if isinstance(c, ast.Tuple) and any(isinstance(x, ast.Slice) for x in c.elts):
                    continue      # the index tuple of an extended slice cannot stand alone
                if isinstance(getattr(c, 'ctx', None), (ast.Store, ast.Del)):
                    continue
                if t.should(n, f, c):
                    bad.append(('a position the configuration asks to be named still holds a compound expression',
                                '%s.%s = %s' % (type(n).__name__, f, unparse(c))))
        elif isinstance(n, (ast.If, ast.For, ast.With)):
            cs = [('test', n.test)] if isinstance(n, ast.If) else [('iter', n.iter)] if isinstance(n, ast.For) \
                else [('items', it.context_expr) for it in n.items]
            for f, c in cs:
                if not G.spec_trivial(c) and t.should(n, f, c):
                    bad.append(('a statement header the configuration asks to be named still holds a compound expression',
                                '%s.%s = %s' % (type(n).__name__, f, unparse(c))))
    return bad[:3]


def pending_lost(out):
    """the output reads a temporary that no statement of it defines"""
    assigned = {n.targets[0].id for n in ast.walk(out) if isinstance(n, ast.Assign) and len(n.targets) == 1
                and isinstance(n.targets[0], ast.Name)}
    return bool(set(tmp_names(out)) - assigned)


def classify(orig, out, config, what, detail=None):
    """Narrow classifiers of the known findings.  -> finding id or None"""
    from malt.pyct.common_transformers import anf
    if what == 'hygiene':
        return None        # no known finding depends on how a variable is spelled (gensym-shaped names are not in the pool)
    # a slice extracted into an assignment (`tmp = 1:2`): does not compile
    if out is not None:
        for n in ast.walk(out):
            if isinstance(n, ast.Assign) and any(isinstance(x, ast.Slice) for x in ast.walk(n.value)
                                                 ) and not isinstance(n.value, ast.Subscript):
                top = n.value
                if isinstance(top, ast.Slice) or (isinstance(top, ast.Tuple) and any(isinstance(e, ast.Slice) for e in top.elts)):
                    return 'anf-slice-hoisted'
        # `with cm as a.b` / `as a[i]` / `as (a, b)`: the target was extracted as if it were read
        oi = [it for w in ast.walk(orig) if isinstance(w, ast.With) for it in w.items]
        ni = [it for w in ast.walk(out) if isinstance(w, ast.With) for it in w.items]
        if len(oi) == len(ni):
            for a, b in zip(oi, ni):
                if a.optional_vars is not None and not isinstance(a.optional_vars, ast.Name) and \
                        isinstance(b.optional_vars, ast.Name) and X.TMP_RE.match(b.optional_vars.id):
                    return 'anf-target-hoisted'
        # `del (a, b[i])`: an element of a parenthesised del target extracted as if it were read
        od = [t for d in ast.walk(orig) if isinstance(d, ast.Delete) for t in d.targets if isinstance(t, (ast.Tuple, ast.List))]
        nd = [t for d in ast.walk(out) if isinstance(d, ast.Delete) for t in d.targets if isinstance(t, (ast.Tuple, ast.List))]
        if len(od) == len(nd):
            for a, b in zip(od, nd):
                if len(a.elts) == len(b.elts) and any(not isinstance(x, ast.Name) and isinstance(y, ast.Name) and X.TMP_RE.match(y.id)
                                                      for x, y in zip(a.elts, b.elts)):
                    return 'anf-target-hoisted'
        # an operator token extracted into an assignment (`tmp = @`): MatMult / And / Or are missing
        # from _is_trivial; reachable only with patterns whose child slot is ANY
        for n in ast.walk(out):
            if isinstance(n, ast.Assign) and isinstance(n.value, (ast.operator, ast.boolop, ast.unaryop, ast.cmpop)):
                return 'anf-operator-hoisted'
        # statements the transformer has no visitor for (annotated assignment, decorators, def defaults,
        # except-clause types, match subjects...) leave their hoisted statements pending: lost or misplaced
        if pending_lost(out):
            return 'anf-pending-lost'
    # DummyGensym does not look at the program: a variable / parameter named tmp_1NNN (also: the
    # temporaries of an earlier ANF pass) is reused as a temporary
    if out is not None and what in ('gensym', 'order') and hoisted_user_collision(orig, out):
        return 'anf-gensym-user-name-collision'
    # `if a and b:` -> `tmp = a and b; if tmp:` tests the truth of the deciding operand twice
    if what == 'order' and isinstance(detail, dict) and any(
            isinstance(n, ast.If) and isinstance(n.test, ast.BoolOp) for n in ast.walk(orig)):
        o, t_ = detail['original'], detail['transformed']
        eo, et = o['events'], t_['events']
        i = 0
        while i < len(eo) and i < len(et) and eo[i] == et[i]:
            i += 1
        # first divergence = the transformed code repeats the truth test it has just made
        if 0 < i < len(et) and et[i].startswith('bool(') and et[i] == et[i - 1]:
            return 'anf-boolop-test-double-truth'
    m = G.Mirror(G.SpecConfig(config, anf).should, G.spec_trivial)
    for s in orig.body:
        m.stmt(s)
    for r in ('anf-assign-target-order', 'anf-dict-order', 'anf-starred-unpack-order', 'anf-sibling-order'):
        if r in m.reasons and what == 'order':
            return r
    if what == 'order' and G.assign_target_walrus(orig):
        return 'anf-assign-target-order'
    # `y + (y := a())`: the read of y stays in place, the hoisted assignment expression runs before it
    if what == 'order' and G.read_before_walrus(orig):
        return 'anf-name-read-before-walrus'
    return None


def mirror(orig, config):
    from malt.pyct.common_transformers import anf
    m = G.Mirror(G.SpecConfig(config, anf).should, G.spec_trivial)
    for s in orig.body:
        m.stmt(s)
    return m


def lazy_positions(node, config):
    """lazy constructs of the original out of which the configuration would hoist something -- at ANY depth
    below them (the reference reading of configuration and triviality, computed by the mirror)"""
    from malt.pyct.common_transformers import anf
    t = G.SpecConfig(config, anf)
    out = []
    for n in ast.walk(node):
        if isinstance(n, (ast.ListComp, ast.SetComp, ast.DictComp, ast.GeneratorExp)):
            out.append(n)
        elif isinstance(n, ast.Compare) and len(n.ops) > 1:
            out.append(n)
        elif isinstance(n, (ast.BoolOp, ast.IfExp, ast.Lambda)):
            if G.Mirror(t.should, G.spec_trivial).expr(n)[1]:
                out.append(n)
        elif isinstance(n, ast.While):
            if G.Mirror(t.should, G.spec_trivial).expr(n.test)[1] or \
                    (not G.spec_trivial(n.test) and t.should(n, 'test', n.test)):
                out.append(n)
        elif isinstance(n, ast.ExceptHandler) and n.type is not None:
            # the type of an except clause is evaluated only while an exception propagates, after the body and
            # after the clauses before it: nothing below it can be hoisted to a statement position
            if G.Mirror(t.should, G.spec_trivial).expr(n.type)[1]:
                out.append(n.type)
    return out


def try_statements(fn):
    """the try statements of a function in source order (hoisted statements never are try statements and
    blocks keep their order, so the k-th one of the output is the k-th one of the input)"""
    out = []

    def walk(n):
        if isinstance(n, ast.Try):
            out.append(n)
        for c in ast.iter_child_nodes(n):
            walk(c)
    walk(fn)
    return out


EXCEPT_WHAT = ('the type expression of an except clause was rewritten: (part of) it is now evaluated at a statement position '
               '(unconditionally, before the body) instead of while an exception propagates out of the body -- the laziness of '
               'except clauses is not preserved, the try statement should have been rejected or left untouched')


def except_type_failures(orig, out):
    """Property text, `constructs whose laziness it cannot preserve are rejected rather than transformed`, judged
    on the output: every except clause of an accepted function still has the type expression it had."""
    to, tn = try_statements(orig), try_statements(out)
    if len(to) != len(tn):
        return [('lazy', 'the try statements of the function are not the ones of the input', '%d -> %d' % (len(to), len(tn)))]
    for a, b in zip(to, tn):
        if len(a.handlers) != len(b.handlers):
            return [('lazy', 'the except clauses of a try statement are not the ones of the input', unparse(b))]
        for ha, hb in zip(a.handlers, b.handlers):
            if (ha.type is None) != (hb.type is None) or (ha.type is not None and plain_dump(ha.type) != plain_dump(hb.type)):
                return [('lazy', EXCEPT_WHAT, {'except_type': unparse(ha.type) if ha.type is not None else None,
                                               'after_transform': unparse(hb.type) if hb.type is not None else None})]
    return []


HYGIENE_WHAT = ('the output of anf.transform depends on how a variable of the program is spelled: renaming variables of the '
                'input (to identifiers the transformer uses itself, e.g. the placeholder names of its code templates) '
                'does not commute with the transformation')


def plain_dump(node):
    """ast.dump over the fields of the node classes only (malt's annotations add per-instance fields that
    hold qualified-name objects of the text they were computed on)"""
    if isinstance(node, ast.AST):
        return '%s(%s)' % (type(node).__name__, ', '.join('%s=%s' % (f, plain_dump(getattr(node, f, None)))
                                                          for f in type(node)._fields))
    if isinstance(node, list):
        return '[%s]' % ', '.join(plain_dump(x) for x in node)
    return repr(node)


def hygiene_failures(src, config, res, renamed_from):
    """src = rename(base, mapping), mapping injective onto names foreign to base: anf.transform(src) must be
    rename(anf.transform(base)) -- accepted / rejected alike.  -> list of failures"""
    base, mapping = renamed_from
    rb = run_impl(base, config)
    if rb[0] != res[0]:
        return [('hygiene', HYGIENE_WHAT, {'renamed_from': base, 'mapping': mapping,
                                           'outcome_before_renaming': rb[0] if rb[0] == 'ok' else list(rb),
                                           'outcome_after_renaming': res[0] if res[0] == 'ok' else list(res)})]
    if rb[0] != 'ok':
        return []
    want = G.rename_vars(rb[1], mapping)
    if plain_dump(want) != plain_dump(res[1]):
        return [('hygiene', HYGIENE_WHAT, {'renamed_from': base, 'mapping': mapping,
                                           'transformed_before_renaming': unparse(rb[1]),
                                           'expected_after_renaming': unparse(want), 'observed': unparse(res[1])})]
    return []


def oracle(src, config, seed, tree=None, renamed_from=None):
    """Judges the property text on the real code for one program and configuration.
    -> (status, failures) ; status in accepted/rejected ; failures = list of (kind, what, detail)
    tree: transform this object (whose text is src) instead of a freshly parsed one
    renamed_from: (base program, {old variable: new variable}) when src is a renaming of another program"""
    orig = ast.parse(src).body[0]
    res = run_impl(src, config, tree)
    fails = []
    if renamed_from is not None:
        fails += hygiene_failures(src, config, res, renamed_from)
    if res[0] == 'crash':
        return 'crashed', fails + [('crash', 'anf.transform raised %s: %s' % (res[1], res[2]), '')], None
    lazies = lazy_positions(orig, config)
    if res[0] == 'err':
        return 'rejected', fails, None
    out, hoisted = res[1], res[2]
    for n in ast.walk(orig):
        if isinstance(n, (ast.ListComp, ast.SetComp, ast.DictComp, ast.GeneratorExp)) or \
                (isinstance(n, ast.Compare) and len(n.ops) > 1):
            fails.append(('lazy', 'a function containing a comprehension / chained comparison was accepted instead of rejected',
                          unparse(n)))
            break
    if lazies:
        # accepted although something has to be hoisted out of a lazy construct (its operands would then be
        # evaluated unconditionally): the property asks for an error
        fails.append(('lazy', 'a lazy construct out of which the configuration hoists something was accepted instead of rejected',
                      unparse(lazies[0])))
    fails += except_type_failures(orig, out)
    for what, detail in shape_failures(orig, out, config, hoisted):
        fails.append(('gensym' if 'temporary' in what else 'shape', what, detail))
    # execution: same result, same events in the same order
    try:
        o1 = copy.deepcopy(out)
        ast.fix_missing_locations(o1)
        code_t = compile(ast.Module(body=[o1], type_ignores=[]), '<anf>', 'exec')
    except Exception as e:   # noqa
        fails.append(('compile', 'the output of anf.transform does not compile: %s: %s' % (type(e).__name__, str(e)[:100]), ''))
        return 'accepted', fails, out
    code_o = compile(src, '<orig>', 'exec')
    for raising in (False, True):
        r1 = RT.run(code_o, 'fn', G.PARAMS, seed, raising)
        r2 = RT.run(code_t, 'fn', G.PARAMS, seed, raising)
        if r1 != r2:
            same_events = sorted(r1[1]) == sorted(r2[1])
            fails.append(('order' if (same_events or True) else 'result',
                          'original and transformed function differ (raising events %s)' % ('on' if raising else 'off'),
                          {'original': {'outcome': r1[0], 'events': r1[1][:40]},
                           'transformed': {'outcome': r2[0], 'events': r2[1][:40]}}))
            break
    return 'accepted', fails, out


def oracle_history(src, cfg_a, insert, cfg_b, seed):
    """The property over histories of calls on ONE tree object: transform(tree, A); optionally a later pass
    inserts statements; transform(tree, B).  The last call is judged like any call: against the text the
    tree had when it was made, and against configuration B.
    -> (status, failures, out, text before the last call) ; status 'skipped' if the first call does not
    produce a usable program"""
    from malt.pyct.common_transformers import anf
    node = ast.parse(src).body[0]
    try:
        out1 = anf.transform(node, _ctx(), cfg_a)
    except Exception:   # noqa
        return 'skipped', [], None, None
    if not isinstance(out1, ast.FunctionDef):
        return 'skipped', [], None, None
    if insert:
        new = ast.parse(insert).body
        out1.body[0:0] = new
    try:
        ast.fix_missing_locations(out1)
        src2 = ast.unparse(out1) + '\n'
        compile(src2, '<history>', 'exec')
    except Exception:   # noqa
        return 'skipped', [], None, None
    status, fails, out2 = oracle(src2, cfg_b, seed, tree=out1)
    return status, fails, out2, src2


INSERTS = ['x = f(a(1), b.m[c])', 'y = g(h(o)).val\nz = -p(q)', 'x = [q for q in a(1)]', None, None]


# ---------------------------------------------------------------------------------- check
def _programs(run):
    rnd = random.Random(run.seed * 7919 + 18)
    from malt.pyct.common_transformers import anf
    thorough = (run.tier == 'thorough')
    n_model, n_wide, n_lazy = (2400, 1500, 600) if thorough else (700, 400, 200)
    n_gensym = 500 if thorough else 150
    progs = []
    corpus = os.path.join(vlib.ROOT, 'corpus', 'C18')
    if os.path.isdir(corpus):
        for fn in sorted(os.listdir(corpus)):
            if fn.endswith('.py'):
                progs.append(('corpus', open(os.path.join(corpus, fn)).read(), None, 'default'))
    # fixed stream: one field slot at a time, for every AST field name nested in another one, with ANY
    # parent/child, LEAVE in front of the default rules and REPLACE alone, on a program that has a
    # compound operand under value / values / args / elts / keys / targets / body / test positions
    fixed_src = ('def fn(%s):\n  x.m = y[c] = g(a(1)).m[b(2)]\n  if f(*p, k0={h(3): o(4)}) and q:\n'
                 '    return [d(5), (e(6), 7)]\n  return (lambda: z) if x else g(a(8))[b(9)]\n' % ', '.join(G.PARAMS))
    fixed_src2 = 'def fn(%s):\n  return g(a(1))[b(2)].val\n' % ', '.join(G.PARAMS)
    dflt = [(anf.ASTEdgePattern(anf.ANY, anf.ANY, (ast.Constant, ast.Name)), anf.LEAVE),
            (anf.ASTEdgePattern(anf.ANY, anf.ANY, ast.expr), anf.REPLACE)]
    dflt_d = ('(anf.ASTEdgePattern(anf.ANY, anf.ANY, (ast.Constant, ast.Name)), anf.LEAVE), '
              '(anf.ASTEdgePattern(anf.ANY, anf.ANY, ast.expr), anf.REPLACE)')
    for f in G.NESTED_FIELDS:
        for src in (fixed_src, fixed_src2):
            progs.append(('fixed', src, [(anf.ASTEdgePattern(anf.ANY, f, anf.ANY), anf.LEAVE)] + dflt,
                          '[(anf.ASTEdgePattern(anf.ANY, %r, anf.ANY), anf.LEAVE), %s]' % (f, dflt_d)))
            progs.append(('fixed', src, [(anf.ASTEdgePattern(anf.ANY, f, anf.ANY), anf.REPLACE)],
                          '[(anf.ASTEdgePattern(anf.ANY, %r, anf.ANY), anf.REPLACE)]' % f))
    for i in range(n_model):
        g = G.Gen(rnd, 'model', lazy=0.0, maxdepth=rnd.choice([1, 2, 2, 3]), walrus=0.06)
        cfg, cd = G.gen_config(rnd, anf)
        progs.append(('model', g.program(depth=rnd.choice([0, 1, 2])), cfg, cd))
    for i in range(n_wide):
        g = G.Gen(rnd, 'wide', lazy=0.02, maxdepth=rnd.choice([1, 2, 3]), walrus=0.05)
        cfg, cd = G.gen_config(rnd, anf)
        progs.append(('wide', g.program(depth=rnd.choice([0, 1, 2])), cfg, cd))
    for i in range(n_gensym):
        # variables / parameters named like generated temporaries, in every role
        g = G.Gen(rnd, 'model', lazy=0.0, maxdepth=rnd.choice([1, 2, 2, 3]), walrus=0.06)
        cfg, cd = G.gen_config(rnd, anf)
        progs.append(('gensym', G.rename_to_gensym(g.program(depth=rnd.choice([0, 1, 2])), rnd), cfg, cd))
    # lazy constructs with operands nested 2-3 deep x configurations that name only positions below strict nodes
    dsel = G.depth_selective_configs(anf)
    for body in G.DEEP_LAZY_PROGRAMS:
        for cfg, cd in dsel + [(None, 'default')]:
            progs.append(('fixed', 'def fn(%s):\n  %s\n' % (', '.join(G.PARAMS), body), cfg, cd))
    for i in range(n_lazy):
        g = G.Gen(rnd, 'model', lazy=0.25, maxdepth=rnd.choice([2, 3]))
        cfg, cd = dsel[rnd.randrange(len(dsel))] if rnd.random() < 0.5 else G.gen_config(rnd, anf)
        progs.append(('lazy', g.program(nstmts=rnd.randint(1, 2), depth=rnd.choice([0, 1])), cfg, cd))
    # try statements: the type expressions of except clauses are lazy positions (evaluated only while an exception
    # propagates, after the body, clause by clause).  Fixed shapes x (default, depth-selective and try-naming
    # configurations), then random programs in which most compound statements are try statements with 1-3 clauses
    # whose types are names, attribute loads (real exception classes), calls, operations with operands, tuples.
    trnd = random.Random(run.seed * 2750159 + 18)
    tcfgs = G.try_configs(anf)
    for body in G.TRY_PROGRAMS:
        for cfg, cd in [(None, 'default')] + tcfgs + dsel:
            progs.append(('try', 'def fn(%s):\n  %s\n' % (', '.join(G.PARAMS), body), cfg, cd))
    for i in range(900 if thorough else 260):
        g = G.Gen(trnd, 'model' if trnd.random() < 0.7 else 'wide', lazy=0.0, maxdepth=trnd.choice([1, 2, 2, 3]),
                  tryp=trnd.choice([0.5, 0.8]))
        j = trnd.random()
        cfg, cd = tcfgs[trnd.randrange(len(tcfgs))] if j < 0.15 else dsel[trnd.randrange(len(dsel))] if j < 0.3 \
            else G.gen_config(trnd, anf, handlers=True)
        progs.append(('try', g.program(depth=trnd.choice([1, 2, 2])), cfg, cd))
    # hygiene: variables spelled like the identifiers the transformer uses itself.  Every template placeholder
    # of the anchor files, in every role (fixed shapes) and in random programs where it is read inside a hoisted
    # operand; all placeholders at once; then random programs x random configurations with 1-4 variables renamed
    # to placeholders or to any other identifier of the implementation.
    hrnd = random.Random(run.seed * 15485863 + 18)
    place, other = G.internal_names(vlib.REPO)
    run.extra['hygiene_names'] = {'placeholders': place, 'other_identifiers': len(other)}
    n_each, n_hyg = (8, 500) if thorough else (3, 120)

    def add(base, mapping, cfg, cd):
        src = G.rename_vars(base, mapping)
        if src not in HYGIENE:
            HYGIENE[src] = (base, mapping)
            progs.append(('hygiene', src, cfg, cd))

    def operand_program(g):
        for _ in range(30):
            base = g.program(depth=hrnd.choice([0, 1, 2]))
            names = G.operand_names(base)
            if names:
                return base, names
        return base, G.PARAMS[:1]
    for nm in place[:24]:
        for body in G.HYGIENE_TEMPLATES:
            add('def fn(%s):\n  %s\n' % (', '.join(G.PARAMS), body.replace('V', 'y')), {'y': nm}, None, 'default')
        for _ in range(n_each):
            base, names = operand_program(G.Gen(hrnd, 'model', lazy=0.0, maxdepth=hrnd.choice([2, 3])))
            add(base, {hrnd.choice(names): nm}, None, 'default')
    for _ in range(n_hyg):
        g = G.Gen(hrnd, hrnd.choice(['model', 'model', 'wide']), lazy=0.0, maxdepth=hrnd.choice([1, 2, 2, 3]), walrus=0.04)
        base, names = operand_program(g)
        used = sorted({n.id for n in ast.walk(ast.parse(base)) if isinstance(n, ast.Name) and n.id in G.PARAMS})
        hrnd.shuffle(names)
        olds = names[:hrnd.randint(1, 3)]
        olds += [x for x in hrnd.sample(used, min(len(used), hrnd.randint(0, 2))) if x not in olds]
        pool = [x for x in (place if hrnd.random() < 0.5 and place else other)]
        if len(pool) < len(olds):
            pool = place + other
        if len(pool) < len(olds):
            continue
        cfg, cd = G.gen_config(hrnd, anf)
        add(base, dict(zip(olds, hrnd.sample(pool, len(olds)))), cfg, cd)
    return progs


HYGIENE = {}      # renamed program text -> (base program, mapping)


def _replay_doc(src, cd, kind, what, detail, out, oseed=0):
    doc = {'oracle_seed': oseed, 'program': src, 'config': cd, 'failure_kind': kind, 'what': what, 'detail': detail,
           'transformed': unparse(out) if out is not None else None,
           'replay': 'cd /verif && bin/check C18 --replay <this file>'}
    if src in HYGIENE:
        doc['renamed_from'] = {'program': HYGIENE[src][0], 'mapping': HYGIENE[src][1]}
    return doc


def check(run):
    run.rule = ('seeded programs (expression depth <= 3, 1-4 statements, if/for/while/with/try nesting <= 2) with a logged '
                'operation in every operand position x configuration (45% default, else 0-3 random edge patterns + optional '
                'default tail); streams: model fragment, wide (slices, ** entries, tuple targets, del, try, several with items), '
                'lazy (BoolOp/IfExp/lambda/comprehension/chained comparison), try (try statements with 1-3 except clauses whose type '
                'expressions are names, attribute loads yielding real exception classes, calls, operations, tuples; bodies that '
                'raise; x default / depth-selective / try-naming / random configurations), hygiene (variables renamed to the template '
                'placeholder names and other identifiers of anf.py / templates.py / transformer.py of the tree under test, '
                'every placeholder in every role); distinct non-trivial = distinct '
                '(program, configuration) pairs the transformer accepted and changed')
    os.environ['TMPDIR'] = vlib.ensure_dir(os.path.join(vlib.BUILD, 'tmp', str(os.getpid())))
    try:
        _check(run)
    finally:
        import shutil
        shutil.rmtree(os.environ['TMPDIR'], ignore_errors=True)


def _check(run):
    warnings.filterwarnings('ignore', category=SyntaxWarning)
    tie_msg = None
    try:
        generate()
    except T.Untranslatable as e:
        tie_msg = str(e)
        run.note(tie_msg)
    if tie_msg is None:
        vlib.standard_proof_step(run, ['Anf/AnfCheck.vo'])
    from malt.pyct.common_transformers import anf
    progs = _programs(run)
    cases = []
    failures = []      # (kind, what, doc, classification)
    stats = {'accepted': 0, 'rejected': 0, 'crashed': 0, 'guard_holds': 0, 'in_model': 0, 'changed': 0}
    idx = -1
    while idx + 1 < len(progs):
        idx += 1
        stream, src, cfg, cd = progs[idx]
        run.count()
        orig = ast.parse(src).body[0]
        status, fails, out = oracle(src, cfg, run.seed + idx, renamed_from=HYGIENE.get(src) if stream == 'hygiene' else None)
        stats[status] += 1
        m = mirror(orig, cfg)
        if status == 'accepted':
            if m.coq_guard:
                stats['guard_holds'] += 1
            if ast.dump(out) != ast.dump(orig):
                stats['changed'] += 1
                run.nontriv(str(idx))
        if status == 'accepted' and cfg is not None and not fails and stream in ('model', 'gensym', 'fixed') \
                and idx % 2 == 0 and ast.dump(out) != ast.dump(orig):   # (the hygiene stream is not fed back)
            # two-pass application: the output of this configuration is fed to the default configuration
            progs.append(('twopass', unparse(out) + '\n', None, 'default (second pass; input = output of %s)' % cd))
        for kind, what, detail in fails:
            cl = classify(orig, out, cfg, kind, detail)
            failures.append((kind, what, _replay_doc(src, cd, kind, what, detail, out, run.seed + idx), cl))
        if idx % 97 == 0:
            run.sample({'stream': stream, 'program': src, 'config': cd, 'status': status,
                        'transformed': unparse(out) if out is not None else None})
        # case for the model
        try:
            if any(X.TMP_RE.match(n.id) for n in ast.walk(orig) if isinstance(n, ast.Name)):
                raise X.Untranslatable('gensym-shaped user name')
            if cfg is not None and any(a is anf.REPLACE and (pt is anf.ANY or pt.child is anf.ANY) for pt, a in cfg) and \
                    any(isinstance(n, (ast.MatMult, ast.BoolOp, ast.Lambda)) for n in ast.walk(orig)):
                raise X.Untranslatable('operator tokens exposed to the configuration')
            p = X.export_block(orig.body)
            c = X.export_config(cfg, anf)
            if status == 'accepted' and pending_lost(out):
                # known finding anf-pending-lost (reported above): the output reads a temporary no statement
                # defines -- not the transformer the model describes (the model rejects)
                raise X.Untranslatable('pending statements lost')
            if status == 'accepted':
                e = '(Some %s)' % X.export_block(out.body, tmps=True)
            elif status == 'rejected':
                e = 'None'
            else:
                raise X.Untranslatable('crash')
            cases.append((idx, '(%d, %s, %s, %s, %s)' % (idx, c, p, e, vlib.coq_bool(m.coq_guard))))
            stats['in_model'] += 1
        except X.Untranslatable:
            pass
    run.extra['streams'] = stats
    # 3. model vs implementation in Coq
    corr_bad = None
    if tie_msg is None and cases:
        shards = [cases[i:i + 150] for i in range(0, len(cases), 150)]

        def one(k):
            body = ['From Coq Require Import List String Bool.', 'Import ListNotations.',
                    'Require Import MV.Anf.Anf MV.Anf.AnfCheck.', 'Local Open Scope string_scope.',
                    'Definition cases : list case := [', ';\n'.join(c for _, c in shards[k]), '].',
                    'Eval vm_compute in failing cases.']
            rc, out_ = vlib.coq_eval('C18', 'cases%d' % k, '\n'.join(body), timeout=900)
            bad = vlib.parse_coq_list_of_nat(out_)
            if rc != 0 or bad is None:
                return None, out_[-600:]
            return bad, ''
        with ThreadPoolExecutor(max_workers=6) as ex:
            res = list(ex.map(one, range(len(shards))))
        bad_all = []
        for bad, log in res:
            if bad is None:
                corr_bad = 'model evaluation failed: ' + log
            else:
                bad_all += bad
        run.extra['traces_validated_against_impl'] = len(cases)
        if bad_all and not corr_bad:
            i0 = bad_all[0]
            stream, src, cfg, cd = progs[i0]
            st, _, out0 = oracle(src, cfg, run.seed + i0)
            corr_bad = {'disagreeing_cases': bad_all[:20], 'first': {'program': src, 'config': cd, 'implementation': st,
                        'implementation_output': unparse(out0) if out0 is not None else None}}
    # 4b. histories of calls on one tree object: A then B (narrow -> default, default -> default after a
    # later pass inserted statements, random -> random), last call judged against B
    hrnd = random.Random(run.seed * 104729 + 6)
    dflt_tail = [(anf.ASTEdgePattern(anf.ANY, anf.ANY, (ast.Constant, ast.Name)), anf.LEAVE),
                 (anf.ASTEdgePattern(anf.ANY, anf.ANY, ast.expr), anf.REPLACE)]
    narrow = [([(anf.ASTEdgePattern(ast.If, 'test', anf.ANY), anf.REPLACE)], "[(anf.ASTEdgePattern(ast.If, 'test', anf.ANY), anf.REPLACE)]"),
              ([(anf.ASTEdgePattern(ast.Call, 'args', ast.expr), anf.REPLACE)], "[(anf.ASTEdgePattern(ast.Call, 'args', ast.expr), anf.REPLACE)]"),
              ([(anf.ANY, anf.LEAVE)], '[(anf.ANY, anf.LEAVE)]')]
    cands = [pr for pr in progs if pr[0] in ('corpus', 'model', 'fixed') and 'tmp_1' not in pr[1]]
    n_hist = 600 if run.tier == 'thorough' else 160
    hstats = {'accepted': 0, 'rejected': 0, 'crashed': 0, 'skipped': 0}
    for h in range(n_hist):
        stream, src, _, _ = cands[(h * 7) % len(cands)]
        kind = h % 4
        if kind == 0:
            (ca, da), (cb, db), ins = narrow[hrnd.randrange(len(narrow))], (None, 'default'), None
        elif kind == 1:
            (ca, da), (cb, db), ins = (None, 'default'), (None, 'default'), INSERTS[hrnd.randrange(3)]
        elif kind == 2:
            (ca, da), (cb, db), ins = narrow[hrnd.randrange(len(narrow))], (dflt_tail, 'default rules'), INSERTS[hrnd.randrange(len(INSERTS))]
        else:
            (ca, da), (cb, db), ins = G.gen_config(hrnd, anf), G.gen_config(hrnd, anf), INSERTS[hrnd.randrange(len(INSERTS))]
        run.count()
        status, fails, out2, src2 = oracle_history(src, ca, ins, cb, run.seed + h)
        hstats[status] += 1
        if status == 'skipped':
            continue
        orig2 = ast.parse(src2).body[0]
        if status == 'accepted' and ast.dump(out2) != ast.dump(orig2):
            run.nontriv('h%d' % h)
        for kd, what, detail in fails:
            cl = classify(orig2, out2, cb, kd, detail)
            doc = _replay_doc(src2, 'default' if cb is None else db, kd, what, detail, out2, run.seed + h)
            doc['history'] = {'first_program': src, 'first_config': da, 'inserted_before_last_call': ins,
                              'last_config': db, 'note': 'all calls are made on the same tree object; '
                              '`program` is the text of the tree when the last call was made'}
            failures.append((kd, what + ' (last call of a history of transform calls on one tree)', doc, cl))
    run.extra['histories'] = hstats
    # 5. verdict
    seen = set()
    unknown = 0
    failures.sort(key=lambda f: len(f[2]['program']))      # report the smallest failing program of each kind
    for kind, what, doc, cl in failures:
        if cl in KNOWN:
            if run.violation(what, doc, classify=cl):
                unknown += 1
            continue
        key = (kind, what)
        if key in seen:
            continue
        seen.add(key)
        unknown += 1
        run.violation(what, doc)
    if unknown == 0:
        searched = 'oracle over %d programs found no failing input outside the known findings' % len(progs)
        if tie_msg is not None:
            run.violation('translator no longer recognises anf.py: ' + tie_msg, {'broken_tie': tie_msg, 'searched': searched},
                          found_input=False)
        elif corr_bad:
            run.violation('correspondence model/implementation broken (anf.transform output differs from the Coq model)',
                          {'broken_correspondence': corr_bad, 'searched': searched}, found_input=False)
    run.assumptions += [
        'names are atoms: reading a variable has no effect and the operations of the program do not rebind local names '
        '(no walrus / nonlocal writers in operand positions); every name read is bound',
        'user programs contain no name of the gensym shape tmp_<digits> (DummyGensym does not look at the program)',
        'tuple/list displays without starred items are built without observable effect',
    ]


def replay(path):
    doc = json.load(open(path))
    print(json.dumps(doc, indent=1))
    r = doc.get('replay', {})
    if 'history' in r:
        from malt.pyct.common_transformers import anf   # noqa
        hh = r['history']
        ev = lambda d: None if d.startswith('default') and 'rules' not in d else (   # noqa
            eval(d, {'anf': anf, 'ast': ast, 'ANY': anf.ANY}) if d.startswith('[') else
            [(anf.ASTEdgePattern(anf.ANY, anf.ANY, (ast.Constant, ast.Name)), anf.LEAVE),
             (anf.ASTEdgePattern(anf.ANY, anf.ANY, ast.expr), anf.REPLACE)])
        status, fails, out, _ = oracle_history(hh['first_program'], ev(hh['first_config']), hh['inserted_before_last_call'],
                                               ev(hh['last_config']), r.get('oracle_seed', 0))
        print('status now:', status)
        for f in fails:
            print('FAIL', f[0], f[1])
        return 1 if fails else 0
    if 'program' in r:
        from malt.pyct.common_transformers import anf   # noqa
        cfg = None if r['config'].startswith('default') else eval(r['config'], {'anf': anf, 'ast': ast, 'ANY': anf.ANY})
        rf = r.get('renamed_from')
        status, fails, out = oracle(r['program'], cfg, r.get('oracle_seed', 0),
                                    renamed_from=(rf['program'], rf['mapping']) if rf else None)
        print('status now:', status)
        for f in fails:
            print('FAIL', f[0], f[1])
        return 1 if fails else 0
    return 0
