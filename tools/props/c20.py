"""C20 -- conversion options survive embedding and key the caches (DESIGN.md 4/C20).

 1. regenerate coq/Generated/C20_gen.v from malt/core/converter.py (fail closed)
 2. re-check the obligations in coq/Properties/C20
 3. exhaustive correspondence: every (recursive, user_requested, internal) x every
    spelling of optional_features -> implementation vs model evaluated in Coq
 4. exhaustive property-level oracle on the implementation itself
 5. the places where generated code obtains the options it hands to callees (function_wrappers.py, translated into the
    scope tables of C20_gen.v, model coq/Opts/Scope*.v): every runnable value entered at BOTH entry points -- the
    FunctionScope of a converted def and the inline with_function_scope of a converted lambda -- directly and through
    the embedded source form in the real ag__, one after the other in one process (history independence, scopes kept
    alive), the same sequence replayed in the Coq model; end to end with a def and with a lambda as converted entity
    under sequences of option values.  Failures carry a replay script confirmed in a fresh interpreter.
"""
import ast
import itertools
import os
import random

from lib import vlib
from translate import c20_options


def objects(seed, Feature):
    """All constructor calls explored: (r, u, i, spelling-kind, python value, model term)."""
    rnd = random.Random(seed)
    members = list(Feature.__members__.values())
    spells = [('none', None, 'SpNone')]
    for m in members:
        spells.append(('single', m, 'SpSingle %s' % m.name))
    for k in range(len(members) + 1):
        for sub in itertools.combinations(members, k):
            spells.append(('tuple', tuple(sub), 'SpSeq [%s]' % '; '.join(m.name for m in sub)))
    for _ in range(24):      # duplicates / other orders / other container types
        l = [rnd.choice(members) for _ in range(rnd.randint(1, 5))]
        kind = rnd.choice(['list', 'set', 'frozenset', 'tuple'])
        val = {'list': list, 'set': set, 'frozenset': frozenset, 'tuple': tuple}[kind](l)
        spells.append((kind, val, 'SpSeq [%s]' % '; '.join(m.name for m in val)))
    out = []
    for r, u, i in itertools.product([False, True], repeat=3):
        for kind, val, term in spells:
            out.append((r, u, i, kind, val, term))
    return out


def export_oexpr(node, Feature):
    """Python ast of to_ast() -> (model term, feature order) ; fail closed."""
    def feat(n):
        s = ast.unparse(n)
        if not s.startswith('ag__.Feature.') or s[len('ag__.Feature.'):] not in Feature.__members__:
            raise ValueError('unexpected feature expression ' + s)
        return s[len('ag__.Feature.'):]
    if isinstance(node, ast.Attribute) and ast.unparse(node) == 'ag__.STD':
        return 'EStd', []
    if not (isinstance(node, ast.Call) and ast.unparse(node.func) == 'ag__.ConversionOptions' and not node.args):
        raise ValueError('unexpected to_ast shape ' + ast.unparse(node))
    kws = []
    order = []
    for kw in node.keywords:
        fld = c20_options.FIELD[kw.arg]
        v = kw.value
        if isinstance(v, ast.Constant) and isinstance(v.value, bool):
            kws.append('(%s, ABool %s)' % (fld, vlib.coq_bool(v.value)))
        elif isinstance(v, ast.Tuple):
            order = [feat(e) for e in v.elts]
            kws.append('(%s, ASpell (SpSeq [%s]))' % (fld, '; '.join(order)))
        else:
            order = [feat(v)]
            kws.append('(%s, ASpell (SpSingle %s))' % (fld, order[0]))
    return 'ECtor [%s]' % '; '.join(kws), order


def obj_term(o, Feature):
    fs = [m.name for m in Feature.__members__.values() if m in o.optional_features]
    return 'mkopts %s %s %s [%s]' % (vlib.coq_bool(o.recursive), vlib.coq_bool(o.user_requested),
                                    vlib.coq_bool(o.internal_convert_user_code), '; '.join(fs))


SCOPE_KIND = {'KFunction': 'function', 'KLambda': 'lambda'}
_REPLAYED = set()


def opt_src(o, Feature):
    """Evaluable source of an options value (names as in `from malt.core.converter import *`)."""
    fs = sorted(f.name for f in o.optional_features)
    return 'ConversionOptions(recursive=%r, user_requested=%r, internal_convert_user_code=%r, optional_features=(%s))' % (
        o.recursive, o.user_requested, o.internal_convert_user_code, ''.join('Feature.%s, ' % n for n in fs))


# replay of a sequence of scope entries in a fresh process: every scope made so far is re-examined after every entry
SCOPE_SCRIPT = """import sys
from malt.core.converter import ConversionOptions, Feature
from malt.core import converter
from malt.impl import api
from malt.pyct import parser
ag__ = api.PyToPy().get_extra_locals()['ag__']
entries = [
%s]
alive, bad = [], 0
for n, (kind, o) in enumerate(entries):
    src = parser.unparse(o.to_ast(), include_encoding_marker=False).strip()
    if kind == 'function':
        s = eval('ag__.FunctionScope("f", "fscope", %%s).__enter__()' %% src, {'ag__': ag__})
        s.__exit__(None, None, None)
    else:
        s = eval('ag__.with_function_scope(lambda lscope: lscope, "lscope", %%s)' %% src, {'ag__': ag__})
    alive.append((kind, o, s))
    for m, (k, p, t) in enumerate(alive):
        if t.options.as_tuple() != p.as_tuple() or t.callopts.as_tuple() != p.call_options().as_tuple():
            bad += 1
            print('MISMATCH after entry %%d: %%s scope number %%d entered with %%r reports options=%%r and hands callees %%r (expected %%r)'
                  %% (n, k, m, p.as_tuple(), t.options.as_tuple(), t.callopts.as_tuple(), p.call_options().as_tuple()))
print('mismatches:', bad)
sys.exit(1 if bad else 0)
"""


def run_script(script, timeout=120):
    """Run a replay script against the tree under check in a fresh interpreter -> (exit status, output)."""
    import subprocess
    import sys
    env = dict(os.environ)
    env['PYTHONPATH'] = vlib.REPO
    try:
        p = subprocess.run([sys.executable, '-c', script], env=env, stdout=subprocess.PIPE, stderr=subprocess.STDOUT,
                           timeout=timeout, universal_newlines=True)
        return p.returncode, p.stdout
    except Exception as e:   # noqa
        return -1, '%s: %s' % (type(e).__name__, e)


def confirmed_replay(candidates):
    """First candidate script that shows the failure (exit status 1) in a fresh process -> replay fields."""
    for label, script in candidates:
        rc, out = run_script(script)
        if rc == 1:
            return {'replay_script': script, 'replay_scenario': label, 'replay_output': out[-1500:],
                    'replay': "PYTHONPATH=%s /venv/bin/python -c '<replay_script>'   # exits 1" % vlib.REPO}
    return {'replay_note': 'observed in the process of the check (after the entries in `history`); none of the short '
                           'scenarios tried in a fresh process showed it', 'replay_scenarios_tried': [l for l, _ in candidates]}


def scope_failure(kind, how, o, seen_o, seen_c, trace, Feature, then=None):
    """A scope entered with `o` reports seen_o / hands callees seen_c.  The value it reports is the one it was really
    built from, i.e. an earlier entry: the replay is that entry followed by this one."""
    entry = lambda k, src: "    (%r, %s),\n" % (SCOPE_KIND[k], src)   # noqa
    b = opt_src(o, Feature)
    other = 'KFunction' if kind == 'KLambda' else 'KLambda'
    cands = []
    if then is not None:
        what = ('a %s scope that is still alive reports other options / callee options once the next scope has been entered' % SCOPE_KIND[kind])
        cands.append(('this scope, then the next one', entry(kind, b) + entry(then[0], opt_src(then[1], Feature))))
    else:
        what = ('the %s scope generated code enters with some options does not report these options / does not hand callees their '
                'call_options() (after scopes were entered with other values in the same process)' % SCOPE_KIND[kind])
        try:
            a = opt_src(seen_o, Feature)
            cands.append(('a %s scope entered with the options this scope reports, then this one' % SCOPE_KIND[kind], entry(kind, a) + entry(kind, b)))
            cands.append(('a %s scope entered with the options this scope reports, then this one' % SCOPE_KIND[other], entry(other, a) + entry(kind, b)))
        except Exception:   # noqa
            pass
        cands.insert(0, ('this entry alone', entry(kind, b)))
    detail = 'reports options=%r, hands callees %r; expected %r' % (
        getattr(seen_o, 'as_tuple', lambda: seen_o)(), getattr(seen_c, 'as_tuple', lambda: seen_c)(), o.call_options().as_tuple())
    if what in _REPLAYED:      # the verdict reports the first failure of a kind: later ones need no replay
        return (what, b, detail)
    _REPLAYED.add(what)
    cands.append(('the last 150 entries of the check', ''.join(entry(k, src) for k, src in trace[-150:])))
    extra = confirmed_replay([(l, SCOPE_SCRIPT % e) for l, e in cands])
    extra['history'] = ['%s %s' % (SCOPE_KIND[k], src) for k, src in trace[-12:]]
    extra['entry'] = '%s scope (%s form of the options)' % (SCOPE_KIND[kind], how)
    return (what, b, detail, extra)


# replay of conversions of a module-level lambda under a sequence of options in a fresh process
LAMBDA_SCRIPT = """import sys, linecache
from malt.core.converter import ConversionOptions, Feature
from malt.core import converter
from malt.impl import api, conversion
import types
SRC = %r
mod = types.ModuleType('c20_lambda_mod')
sys.modules[mod.__name__] = mod
ns = mod.__dict__
exec(compile(''.join(SRC), '<c20-lambda>', 'exec'), ns)
linecache.cache['<c20-lambda>'] = (0, None, SRC, '<c20-lambda>')
relay, helper = ns['relay%d'], ns['helper%d']
handed = []
orig = conversion.is_in_allowlist_cache
def rec(f, options):
    handed.append((f, options))
    return orig(f, options)
conversion.is_in_allowlist_cache = rec
requests = [
%s]
bad = 0
for n, o in enumerate(requests):
    del handed[:]
    res = api._convert_actual(relay, converter.ProgramContext(options=o))(1)
    got = [x.as_tuple() for g, x in handed if g is helper]
    if got != [o.call_options().as_tuple()] or res != 2:
        bad += 1
        print('MISMATCH request %%d: lambda converted under %%r; the function it calls was handed %%r, expected %%r (result %%r)'
              %% (n, o.as_tuple(), got, o.call_options().as_tuple(), res))
print('mismatches:', bad)
sys.exit(1 if bad else 0)
"""


def lambda_failure(lines, si, o, got, own, res, history, Feature):
    what = ('the function called from a converted lambda is not handed the call_options() of the options the lambda was converted '
            'under (lambdas were converted under other options before in the same process)')
    b = opt_src(o, Feature)
    detail = 'lambda `%s` called with 1 returned %r; its callee was handed %r (its own scope: %r); expected %r' % (
        lines[-1].strip(), res, [x.as_tuple() for x in got], [x.as_tuple() for x in own], o.call_options().as_tuple())
    if what in _REPLAYED:
        return (what, b, detail)
    _REPLAYED.add(what)
    req = lambda srcs: ''.join('    %s,\n' % x for x in srcs)   # noqa
    cands = [('this request alone', req([b]))]
    for x in got[:1]:
        # a lambda scope that hands callees x was built from options with these attributes (user_requested is dropped)
        a = 'ConversionOptions(recursive=%r, user_requested=False, internal_convert_user_code=%r, optional_features=(%s))' % (
            x.recursive, o.internal_convert_user_code, ''.join('Feature.%s, ' % n for n in sorted(f.name for f in x.optional_features)))
        cands.append(('a request whose callee options are the ones observed, then this request', req([a, b])))
        cands.append(('the same with user_requested as in this request', req([a.replace('user_requested=False', 'user_requested=%r' % o.user_requested), b])))
    cands.append(('the last 40 lambda requests of the check', req(history[-40:])))
    extra = confirmed_replay([(l, LAMBDA_SCRIPT % (lines, si, si, e)) for l, e in cands])
    extra['source'] = ''.join(lines)
    extra['history'] = history[-12:]
    return (what, b, detail, extra)


def generate():
    text = c20_options.translate(vlib.REPO)
    vlib.write_if_changed(os.path.join(vlib.COQ, 'Generated', 'C20_gen.v'), text)


def check(run):
    run.rule = ('exhaustive: every (recursive, user_requested, internal_convert_user_code) in bool^3 x every spelling of '
                'optional_features (None, each single Feature, every subset as a tuple, 24 seeded containers with '
                'duplicates/other orders); distinct non-trivial = distinct as_tuple() values reached')
    _REPLAYED.clear()
    # 1. regenerate
    try:
        generate()
        tie_ok = True
    except c20_options.Untranslatable as e:
        tie_ok = False
        run.note(str(e))
        tie_msg = str(e)
    # 2. proofs
    if tie_ok:
        vlib.standard_proof_step(run, ['Opts/OptionsCheck.vo', 'Opts/ScopeCheck.vo'])
    # 3 + 4 on the implementation
    from malt.core import converter
    from malt.impl import api
    Feature = converter.Feature
    CO = converter.ConversionOptions
    objs = objects(run.seed, Feature)
    extra = api.PyToPy().get_extra_locals()
    py = []
    failures = []   # property-level failures on the implementation: (what, description)

    def desc(c):
        return 'ConversionOptions(recursive=%r, user_requested=%r, internal_convert_user_code=%r, optional_features=%r)' % (
            c[0], c[1], c[2], c[4])

    hashes = []
    for c in objs:
        arg = c[4]
        if isinstance(arg, (list, set)):
            arg = type(arg)(arg)         # a container the harness owns and mutates afterwards
        o = CO(recursive=c[0], user_requested=c[1], internal_convert_user_code=c[2], optional_features=arg)
        py.append(o)
        # the options value is immutable: it does not alias the caller's container
        if isinstance(arg, (list, set)):
            before = set(o.optional_features)
            extra_m = [m for m in Feature.__members__.values() if m not in before]
            if isinstance(arg, list):
                arg.extend(extra_m)
                del arg[:1]
            else:
                arg.update(extra_m)
                if before:
                    arg.discard(next(iter(before)))
            if set(o.optional_features) != before:
                failures.append(('the options value changes when the caller mutates the container it was built from', desc(c), ''))
        try:
            hashes.append(hash(o))
        except Exception as e:   # noqa
            hashes.append(None)
            failures.append(('hash() of an options value raised %s: %s' % (type(e).__name__, e), desc(c), ''))
    members = list(Feature.__members__.values())
    cases = []
    for idx, (c, o) in enumerate(zip(objs, py)):
        run.count()
        run.nontriv((o.recursive, o.user_requested, o.internal_convert_user_code,
                     tuple(sorted(f.name for f in o.optional_features))))
        requested = set() if c[4] is None else ({c[4]} if isinstance(c[4], Feature) else set(c[4]))
        # --- property-level oracle (the property text, directly on the implementation)
        try:
            node = o.to_ast()
            src = ast.unparse(node)
            back = eval(src, dict(extra))
            if not (back == o and o == back):
                failures.append(('to_ast round-trip gives an unequal value', desc(c), src))
            if hashes[idx] is not None and hash(back) != hashes[idx]:
                failures.append(('round-tripped value hashes differently', desc(c), src))
            if (back.recursive, back.user_requested, back.internal_convert_user_code, back.optional_features) != \
               (o.recursive, o.user_requested, o.internal_convert_user_code, o.optional_features):
                failures.append(('round-tripped value differs in an attribute', desc(c), src))
        except Exception as e:   # noqa
            failures.append(('to_ast/eval raised %s: %s' % (type(e).__name__, e), desc(c), ''))
            node = None
            back = None
        co = o.call_options()
        if not (co.recursive == o.recursive and co.user_requested is False
                and co.internal_convert_user_code == o.recursive
                and co.optional_features == frozenset(requested)):
            failures.append(('call_options() does not keep recursion flag/features, drop user_requested, '
                             'set internal_convert_user_code to recursive', desc(c), ''))
        for f in members:
            want = (Feature.ALL in requested) or (f in requested)
            if bool(o.uses(f)) != want:
                failures.append(('uses(%s) is %r but requested set is %s' % (f.name, o.uses(f), sorted(x.name for x in requested)),
                                 desc(c), ''))
        if o.optional_features != frozenset(requested):
            failures.append(('constructor does not store the requested feature set', desc(c), ''))
        # --- case for the model
        if node is not None:
            try:
                oe, order = export_oexpr(node, Feature)
            except ValueError as e:
                oe, order = None, []
                failures.append(('to_ast produced an unexpected expression: %s' % e, desc(c), ''))
        else:
            oe = None
        if oe is not None:
            cases.append('(%d, (ABool %s, ABool %s, ABool %s, ASpell (%s)), %s, %s, [%s], [%s], %s, %s)' % (
                idx, vlib.coq_bool(c[0]), vlib.coq_bool(c[1]), vlib.coq_bool(c[2]), c[5],
                obj_term(o, Feature), obj_term(co, Feature),
                '; '.join(vlib.coq_bool(bool(o.uses(f))) for f in members),
                '; '.join(order), oe, obj_term(back, Feature)))
        if idx % 173 == 0:
            run.sample({'call': desc(c), 'to_ast': ast.unparse(node) if node is not None else None,
                        'as_tuple': repr(o.as_tuple())})
    # equality / hash on all pairs (implementation)
    reps = []
    npairs = 0
    for i, a in enumerate(py):
        rep = i
        for j in range(i + 1):
            b = py[j]
            npairs += 1
            e = (a == b)
            same = (a.recursive, a.user_requested, a.internal_convert_user_code, a.optional_features) == \
                   (b.recursive, b.user_requested, b.internal_convert_user_code, b.optional_features)
            if e != same or (b == a) != same or (a != b) == same:
                failures.append(('== disagrees with attribute-wise equality', desc(objs[i]), desc(objs[j])))
            if same and hashes[i] is not None and hashes[j] is not None and hashes[i] != hashes[j]:
                failures.append(('equal options hash differently', desc(objs[i]), desc(objs[j])))
            if e and j < rep:
                rep = j
        reps.append(rep)
    run.count(npairs)
    run.extra['pairs_compared'] = npairs
    run.extra['exhaustive'] = True
    run.extra['objects'] = len(objs)

    # 2b. the options a converted function hands to its callees: every FunctionScope entered with a value -- a fresh,
    # short-lived object each time, as generated code creates them -- carries exactly that value's call_options()
    from malt.operators import function_wrappers
    from malt.core import converter as _conv
    order = list(range(len(objs)))
    random.Random(run.seed * 7 + 3).shuffle(order)
    nscopes = 0
    scope_cases = []          # the same sequence of entries, replayed in the Coq model of the scopes (step 3)
    scope_case_cap = 1600
    scope_trace = []          # (kind, options source) of every entry made so far, for replays
    prev_scope = None
    for idx in order[:1200]:
        c = objs[idx]
        arg = c[4]
        if _conv.Feature.NAME_SCOPES in (set() if arg is None else ({arg} if isinstance(arg, Feature) else set(arg))) \
                or _conv.Feature.AUTO_CONTROL_DEPS in (set() if arg is None else ({arg} if isinstance(arg, Feature) else set(arg))) \
                or _conv.Feature.ALL in (set() if arg is None else ({arg} if isinstance(arg, Feature) else set(arg))):
            continue          # FunctionScope asserts these are not requested
        o = CO(recursive=c[0], user_requested=False, internal_convert_user_code=c[2],
               optional_features=type(arg)(arg) if isinstance(arg, (list, set)) else arg)
        want = o.call_options()
        try:
            with function_wrappers.FunctionScope('f', 'fscope', o) as fs:
                got = fs.callopts
        except Exception as e:   # noqa
            failures.append(('FunctionScope raised %s: %s' % (type(e).__name__, e), desc(c), ''))
            continue
        nscopes += 1
        if not (got == want and (got.recursive, got.user_requested, got.internal_convert_user_code, got.optional_features) ==
                (want.recursive, want.user_requested, want.internal_convert_user_code, want.optional_features)):
            failures.append(('the options a FunctionScope hands to callees are not the call_options() of the options it was entered with '
                             '(after scopes were entered with other, short-lived values)', desc(c),
                             'scope number %d: callopts=%r expected=%r' % (nscopes, got.as_tuple(), want.as_tuple())))
        if len(scope_cases) < scope_case_cap:
            scope_cases.append('(KFunction, %s, %s, %s)' % (obj_term(o, Feature), obj_term(fs.options, Feature), obj_term(got, Feature)))
        del o, want, got, fs
        # the same at the other entry point of generated code -- the inline scope of a converted lambda -- and at both
        # entry points as generated code spells them (the embedded source form of the options, evaluated in the real
        # ag__ namespace), with user_requested as in the enumerated value.  All entries are made one after the other
        # in this one process: what a body sees must not depend on the scopes entered before, and the scope of the
        # previous entry, still alive, must not change when the next one is made.
        o2 = CO(recursive=c[0], user_requested=c[1], internal_convert_user_code=c[2],
                optional_features=type(arg)(arg) if isinstance(arg, (list, set)) else arg)
        try:
            src2 = ast.unparse(o2.to_ast())
        except Exception:   # noqa  (reported by the oracle above)
            src2 = None
        entries = [('KLambda', 'direct', lambda: function_wrappers.with_function_scope(lambda lscope: lscope, 'lscope', o2))]
        if src2 is not None:
            entries += [('KFunction', 'embedded', lambda: eval('ag__.FunctionScope("f", "fscope", %s).__enter__()' % src2, dict(extra))),
                        ('KLambda', 'embedded', lambda: eval('ag__.with_function_scope(lambda lscope: lscope, "lscope", %s)' % src2, dict(extra)))]
        for kind, how, thunk in entries:
            try:
                sc = thunk()
                seen_o, seen_c = sc.options, sc.callopts
                if kind == 'KFunction':
                    sc.__exit__(None, None, None)
            except Exception as e:   # noqa
                failures.append(('entering a %s scope raised %s: %s' % (SCOPE_KIND[kind], type(e).__name__, e), opt_src(o2, Feature), how))
                continue
            nscopes += 1
            scope_trace.append((kind, opt_src(o2, Feature)))
            wantc = o2.call_options()
            if not (seen_o == o2 and seen_o.as_tuple() == o2.as_tuple() and seen_c == wantc and hash(seen_c) == hash(wantc)
                    and seen_c.as_tuple() == wantc.as_tuple()):
                failures.append(scope_failure(kind, how, o2, seen_o, seen_c, scope_trace, Feature))
            if prev_scope is not None:
                ps, po, pkind, p_o, p_c = prev_scope
                if not (ps.options.as_tuple() == p_o and ps.callopts.as_tuple() == p_c):
                    failures.append(scope_failure(pkind, 'alive', po, ps.options, ps.callopts, scope_trace, Feature,
                                                  then=(kind, o2)))
            prev_scope = (sc, o2, kind, seen_o.as_tuple(), seen_c.as_tuple())
            if len(scope_cases) < scope_case_cap:
                scope_cases.append('(%s, %s, %s, %s)' % (kind, obj_term(o2, Feature), obj_term(seen_o, Feature), obj_term(seen_c, Feature)))
    prev_scope = None
    run.count(nscopes)
    run.extra['function_scopes_entered'] = nscopes
    run.extra['scope_entries_replayed_in_model'] = len(scope_cases)

    # 2c. options key the conversion cache: one function (and a nested def in it) converted by the real transpiler under
    # sequences of option values that differ in one attribute (both orders) or not at all; the FunctionScope entered
    # by the code returned for each request must carry exactly the requested options (top level) and their
    # call_options() (nested def)
    from malt.impl import api as _api
    seen_scopes = []
    orig_init = function_wrappers.FunctionScope.__init__

    def rec_init(self, function_name, scope_name, options):
        seen_scopes.append((function_name, options))
        return orig_init(self, function_name, scope_name, options)
    bools = [(r, u, i) for r in (False, True) for u in (False, True) for i in (False, True)]
    feats = [None, Feature.BUILTIN_FUNCTIONS, (Feature.EQUALITY_OPERATORS, Feature.LISTS)]
    values = [(r, u, i, f) for (r, u, i) in bools for f in feats]
    rk = random.Random(run.seed * 13 + 1)
    seqs = []
    for a in values:
        for b in values:
            if sum(1 for x, y in zip(a, b) if x != y) <= 1:
                seqs.append([a, b])
    rk.shuffle(seqs)
    seqs = seqs[:60 if run.tier == 'quick' else 400] + [[rk.choice(values) for _ in range(5)] for _ in range(10 if run.tier == 'quick' else 60)]
    nreq = 0
    function_wrappers.FunctionScope.__init__ = rec_init
    try:
        for si, seq in enumerate(seqs):
            ns = {}
            exec(compile('def g%d(x):\n    def inner(y):\n        return y + 1\n    return inner(x)\n' % si, '<c20-cache-%d>' % si, 'exec'), ns)
            import linecache
            linecache.cache['<c20-cache-%d>' % si] = (0, None, ['def g%d(x):\n' % si, '    def inner(y):\n', '        return y + 1\n', '    return inner(x)\n'], '<c20-cache-%d>' % si)
            g = ns['g%d' % si]
            for (r, u, i, f) in seq:
                o = CO(recursive=r, user_requested=u, internal_convert_user_code=i, optional_features=f)
                del seen_scopes[:]
                try:
                    nf = _api._convert_actual(g, converter.ProgramContext(options=o))
                    nf(1)
                except Exception as e:   # noqa
                    failures.append(('conversion under a sequence of option values raised %s: %s' % (type(e).__name__, str(e)[:200]),
                                     repr((r, u, i, f)), repr(seq)))
                    break
                nreq += 1
                top = [x for n, x in seen_scopes if n == 'g%d' % si]
                inn = [x for n, x in seen_scopes if n == 'inner']
                ok = len(top) == 1 and top[0] == o and top[0].as_tuple() == o.as_tuple() and \
                    len(inn) == 1 and inn[0].as_tuple() == o.call_options().as_tuple()
                if not ok:
                    failures.append(('the options embedded in the code returned for a conversion request are not the requested ones '
                                     '(same function converted before under other options: the cache key does not determine them)',
                                     'ConversionOptions(recursive=%r, user_requested=%r, internal_convert_user_code=%r, optional_features=%r)' % (r, u, i, f),
                                     'request sequence %r; scopes entered: %r; expected top %r, nested %r' % (
                                         seq, [(n, x.as_tuple()) for n, x in seen_scopes], o.as_tuple(), o.call_options().as_tuple())))
                    break
    finally:
        function_wrappers.FunctionScope.__init__ = orig_init
    run.count(nreq)
    run.extra['cache_requests_checked'] = nreq

    # 2c'. the same with a LAMBDA as the converted entity (a lambda defined outside converted code: it gets the inline
    # scope ag__.with_function_scope(...), not a FunctionScope `with`): converted under sequences of option values in
    # this one process, the function it calls must be handed exactly the call_options() of the options of that request
    # (observed where converted_call first uses them), and when that function is converted its own scope carries them
    import linecache
    import sys
    import types
    from malt.impl import conversion as _conversion_l
    lam_modules = []
    handed = []
    orig_inal = _conversion_l.is_in_allowlist_cache

    def rec_inal(f, options):
        handed.append((f, options))
        return orig_inal(f, options)
    lam_seqs = seqs[:45 if run.tier == 'quick' else 300]
    nlam = 0
    lam_history = []
    function_wrappers.FunctionScope.__init__ = rec_init
    _conversion_l.is_in_allowlist_cache = rec_inal
    try:
        for si, seq in enumerate(lam_seqs):
            fname = '<c20-lambda-%d>' % si
            lines = ['def helper%d(y):\n' % si, '    return y + 1\n', 'relay%d = lambda x: helper%d(x)\n' % (si, si)]
            mod = types.ModuleType('c20_lambda_mod_%d' % si)      # parse_entity looks a lambda up through its module
            sys.modules[mod.__name__] = mod
            lam_modules.append(mod.__name__)
            ns = mod.__dict__
            exec(compile(''.join(lines), fname, 'exec'), ns)
            linecache.cache[fname] = (0, None, lines, fname)
            relay, helper = ns['relay%d' % si], ns['helper%d' % si]
            stop = False
            for (r, u, i, f) in seq:
                o = CO(recursive=r, user_requested=u, internal_convert_user_code=i, optional_features=f)
                del seen_scopes[:]
                del handed[:]
                try:
                    nf = _api._convert_actual(relay, converter.ProgramContext(options=o))
                    res = nf(1)
                except Exception as e:   # noqa
                    failures.append(('conversion of a lambda under a sequence of option values raised %s: %s' % (type(e).__name__, str(e)[:200]),
                                     opt_src(o, Feature), repr(seq)))
                    stop = True
                    break
                nlam += 1
                lam_history.append(opt_src(o, Feature))
                want = o.call_options()
                got = [x for g, x in handed if g is helper]
                own = [x for n, x in seen_scopes if n == 'helper%d' % si]
                ok = res == 2 and len(got) == 1 and got[0] == want and got[0].as_tuple() == want.as_tuple() \
                    and all(x.as_tuple() == want.as_tuple() for x in own)
                if not ok:
                    failures.append(lambda_failure(lines, si, o, got, own, res, lam_history, Feature))
                    stop = True
                    break
            if stop:
                break
    finally:
        function_wrappers.FunctionScope.__init__ = orig_init
        _conversion_l.is_in_allowlist_cache = orig_inal
        for name in lam_modules:
            sys.modules.pop(name, None)
    run.count(nlam)
    run.extra['lambda_entity_requests_checked'] = nlam

    # 2d. entering through a functools.partial (one and two levels) or directly makes no difference to the options the
    # converted code runs under: same FunctionScope entries for converted_call(g, (1,), options=o) and
    # converted_call(partial(g, 1), (), options=o)
    import functools
    function_wrappers.FunctionScope.__init__ = rec_init
    npart = 0
    try:
        for pi, (r, u, i, f) in enumerate(values):
            ns = {}
            exec(compile('def p%d(x):\n    def inner(y):\n        return y + 1\n    return inner(x)\n' % pi, '<c20-partial-%d>' % pi, 'exec'), ns)
            import linecache
            linecache.cache['<c20-partial-%d>' % pi] = (0, None, ['def p%d(x):\n' % pi, '    def inner(y):\n', '        return y + 1\n', '    return inner(x)\n'], '<c20-partial-%d>' % pi)
            g = ns['p%d' % pi]
            seen = []
            for ent, args in ((g, (1,)), (functools.partial(g, 1), ()), (functools.partial(functools.partial(g), 1), ())):
                o = CO(recursive=r, user_requested=u, internal_convert_user_code=i, optional_features=f)
                del seen_scopes[:]
                try:
                    res = _api.converted_call(ent, args, None, options=o)
                except Exception as e:   # noqa
                    res = ('raise', type(e).__name__)
                seen.append((res, [(n, x.as_tuple()) for n, x in seen_scopes]))
                npart += 1
            if not (seen[0] == seen[1] == seen[2]):
                failures.append(('a function entered through functools.partial runs under other options than the same function entered directly',
                                 'ConversionOptions(recursive=%r, user_requested=%r, internal_convert_user_code=%r, optional_features=%r)' % (r, u, i, f),
                                 'direct: %r; partial: %r; partial of partial: %r' % tuple(seen)))
                break
    finally:
        function_wrappers.FunctionScope.__init__ = orig_init
    run.count(npart)
    run.extra['partial_entries_checked'] = npart

    # 2e. the cache of "call as-is" verdicts is keyed by the whole options value: a verdict stored under one value is
    # found under an equal value and under no unequal one
    from malt.impl import conversion as _conversion
    rk2 = random.Random(run.seed * 17 + 5)
    sample = rk2.sample(range(len(objs)), min(len(objs), 90 if run.tier == 'quick' else 300))
    nallow = 0
    for a_i in sample:
        ca = objs[a_i]
        oa = CO(recursive=ca[0], user_requested=ca[1], internal_convert_user_code=ca[2], optional_features=ca[4])

        def fresh(x):
            return x
        _conversion.cache_allowlisted(fresh, oa)
        for b_i in sample:
            cb = objs[b_i]
            ob = CO(recursive=cb[0], user_requested=cb[1], internal_convert_user_code=cb[2], optional_features=cb[4])
            hit = _conversion.is_in_allowlist_cache(fresh, ob)
            nallow += 1
            if hit != (oa == ob):
                failures.append(('a "call as-is" verdict cached under one options value is %s under %s options value'
                                 % (('found', 'an UNEQUAL') if hit else ('not found', 'an equal')), desc(ca), desc(cb)))
                break
        else:
            continue
        break
    run.count(nallow)
    run.extra['allowlist_key_pairs_checked'] = nallow

    # 3. model vs implementation, evaluated inside Coq
    corr_bad = None
    if tie_ok:
        body = ['From Coq Require Import List String Bool.', 'Import ListNotations.',
                'Require Import MV.Opts.OptionsSyntax MV.Generated.C20_gen MV.Opts.Options MV.Opts.OptionsCheck MV.Opts.Scope MV.Opts.ScopeCheck.',
                'Definition cases : list case := [', ';\n'.join(cases), '].',
                'Definition reps : list nat := [%s].' % '; '.join(str(r) for r in reps),
                'Definition scases : list scase := [', ';\n'.join(scope_cases), '].',
                'Eval vm_compute in (failing cases, failing_reps cases reps, failing_scopes scases).']
        rc, out = vlib.coq_eval('C20', 'cases', '\n'.join(body), timeout=600)
        import re
        m = re.search(r'=\s*\((\[[^\]]*\]|nil)\s*,\s*(\[[^\]]*\]|nil)\s*,\s*(\[[^\]]*\]|nil)\)', out)
        if rc != 0 or not m:
            corr_bad = 'model evaluation failed: ' + out[-800:]
        else:
            bad = [int(x) for x in re.findall(r'\d+', m.group(1))] + [int(x) for x in re.findall(r'\d+', m.group(2))]
            run.extra['traces_validated_against_impl'] = len(cases)
            sbad = [int(x) for x in re.findall(r'\d+', m.group(3))]
            run.extra['scope_entries_validated_against_model'] = len(scope_cases)
            if bad:
                corr_bad = 'model and implementation disagree on objects %s e.g. %s' % (bad[:10], desc(objs[bad[0]]))
            elif sbad:
                corr_bad = ('the scope model (every entry builds its scope from its own options) and the implementation disagree on '
                            'entries %s of the sequence of scope entries, e.g. %s' % (sbad[:10], scope_cases[sbad[0]]))
    # 5. verdict
    seen = set()
    for fl in failures:
        what, d1, d2 = fl[:3]
        if what in seen:
            continue
        seen.add(what)
        doc = {'what': what, 'input': d1, 'other': d2,
               'replay': 'PYTHONPATH=/repo /venv/bin/python -c "from malt.core.converter import *; o=%s; print(o.as_tuple())"' % d1}
        if len(fl) > 3:
            doc.update(fl[3])
        run.violation(what, doc)
    if not failures:
        if not tie_ok:
            run.violation('translator no longer recognises converter.py: ' + tie_msg,
                          {'broken_tie': tie_msg, 'searched': 'exhaustive oracle over %d objects found no failing input' % len(objs)},
                          found_input=False)
        elif corr_bad:
            run.violation('correspondence model/implementation broken', {'broken_correspondence': corr_bad,
                          'searched': 'exhaustive oracle over %d objects found no failing input' % len(objs)}, found_input=False)
    run.assumptions += ['Python hash() is a function of the as_tuple() value (modelled as an arbitrary function h)',
                        'frozenset equality is extensional set equality (modelled by a canonical list)',
                        'ag__ resolves ConversionOptions / Feature / STD as malt.impl.api.PyToPy.get_extra_locals binds them (exercised by the oracle with the real extra locals)']


def replay(path):
    import json
    doc = json.load(open(path))
    print(json.dumps(doc, indent=1))
    return 0
