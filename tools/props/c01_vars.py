"""C01 / variables pass (coq/Vars): (a) structural tie of the model gvt with malt/converters/variables.py on the bodies
the real pass receives and produces; (b) the semantics of the core language against CPython -- source form, and
converted form (rendered from the harness' mirror of the pass, which Coq compares with the model's vtb) run with
the real ag__.ld / ag__.Undefined."""
import ast
import copy
import re
import warnings

from lib import vlib, convrun
from gen import progs

NV = 6          # user variables v1..v6; v7 is a converter-generated name (always bound, read without ld)
GEN = 7
BUDGET = 40     # user-operation calls per run; runs that exceed it are discarded (the model's fuel is larger)
FUEL = 60


# ---------------------------------------------------------------------------------------------- (a) structural tie
def structural_cases(rnd, n, prelude, convert):
    from export import vars as gx
    from malt.converters import variables as vpass
    from malt.pyct import anno
    from malt.core import converter
    orig = vpass.transform
    captured = {}

    def wrap(node, ctx):
        captured['in'] = copy.deepcopy(node)
        out = orig(node, ctx)
        captured['out'] = copy.deepcopy(out)
        return out
    o1 = progs.Opts(delete=True, max_stmts=12)
    o2 = progs.Opts(delete=True, mutation=True, max_stmts=12, boolops=True)
    o3 = progs.Opts(delete=True, nested_def=True, comprehension=True, max_stmts=10, global_=True)
    srcs = [progs.gen_function(rnd, rnd.choice([o1, o2, o3])) for _ in range(n)]
    srcs = ['def f(a, b, c):\n    x = T(1, a)\n    if D(2):\n        del x\n    b += T(3, x)\n    return T(4, b)\n',
            'def f(a, b, c):\n    x = T(1, a)\n    c.v += x\n    del a, c.w, b\n    return T(4, x)\n',
             'def f(a, b, c):\n    m = [a, b]\n    m[T(1)] += T(2, a)\n    del m[T(3, b)], m\n    for a in L(4):\n        b -= a\n    return b\n'] + srcs
    mod = convrun.load_module(srcs, prelude)
    cases, meta, skipped = [], [], 0
    F = converter.Feature
    vpass.transform = wrap
    try:
        for i, src in enumerate(srcs):
            for feats in (None, (F.LISTS,)) if i % 4 == 0 else (None,):
                captured.clear()
                try:
                    convert(getattr(mod, 'f%d' % i), False, feats)
                except Exception:   # noqa
                    pass
                if 'in' not in captured or 'out' not in captured:
                    skipped += 1
                    continue
                ex = gx.GExporter(lambda nd: anno.hasanno(nd, anno.Static.ORIG_DEFINITIONS))
                tin = ex.tree(captured['in'])
                ex.orig_of = lambda nd: False
                tout = ex.tree(captured['out'])
                cases.append('(%d, %s, %s)' % (len(meta), tin, tout))
                meta.append((src, repr(feats)))
    finally:
        vpass.transform = orig
    return cases, meta, skipped


# ---------------------------------------------------------------------------------------------- (b) semantics
class G(object):
    """random programs of the core language as nested tuples"""

    def __init__(self, rnd):
        self.r = rnd
        self.k = 0

    def lab(self):
        self.k += 1
        return 1 + (self.k * 3 + self.r.randrange(3)) % 19

    def name(self):
        r = self.r
        if r.random() < 0.12:
            return ('name', GEN, False)
        x = r.choice([1, 2, 3] * 7 + [4, 5, 6])
        return ('name', x, True)

    def expr(self, d=0):
        r = self.r
        c = r.random()
        if d >= 2 or c < 0.45:
            return self.name() if r.random() < 0.75 else ('const', r.randrange(6))
        return ('op', self.lab(), [self.expr(d + 1) for _ in range(r.randrange(3))])

    def target(self):
        if self.r.random() < 0.7:
            return ('tname', self.r.randrange(1, NV + 1))
        return ('tcomp', 20 + self.r.randrange(4), [self.expr(1) for _ in range(1 + self.r.randrange(2))])

    def stmt(self, d):
        r = self.r
        c = r.random()
        if c < 0.38:
            return ('assign', self.target(), self.expr())
        if c < 0.5:
            return ('aug', self.target(), 0, self.expr())
        if c < 0.58:
            ts = [self.target() for _ in range(1 + r.randrange(2))]
            return ('del', ts)
        if c < 0.68:
            return ('expr', self.expr())
        if d >= 2:
            return ('assign', self.target(), self.expr())
        if c < 0.88:
            return ('if', self.expr(), self.block(d + 1), self.block(d + 1) if r.random() < 0.6 else [])
        return ('while', ('op', self.lab(), [self.expr(1)]), self.block(d + 1))

    def block(self, d=0):
        return [self.stmt(d) for _ in range(1 + self.r.randrange(3 if d else 5))]


def vte(e):
    k = e[0]
    if k == 'name':
        return ('ld', e) if e[2] else e
    if k == 'op':
        return ('op', e[1], [vte(x) for x in e[2]])
    return e


def vtt(t):
    return t if t[0] == 'tname' else ('tcomp', t[1], [vte(x) for x in t[2]])


def vts(s):
    k = s[0]
    if k == 'assign':
        return [('assign', vtt(s[1]), vte(s[2]))]
    if k == 'aug':
        if s[1][0] == 'tname':
            x = s[1][1]
            return [('assign', ('tname', x), ('ld', ('name', x, True))), ('aug', s[1], s[2], vte(s[3]))]
        return [('aug', vtt(s[1]), s[2], vte(s[3]))]
    if k == 'del':
        ts = [vtt(t) for t in s[1]]
        if not any(t[0] == 'tname' for t in ts):
            return [('del', ts)]
        out = []
        for t in ts:
            if t[0] == 'tname':
                out += [('expr', ('ld', ('name', t[1], True))), ('assign', t, ('undef', t[1]))]
            else:
                out.append(('del', [t]))
        return out
    if k == 'expr':
        return [('expr', vte(s[1]))]
    if k == 'if':
        return [('if', vte(s[1]), vtb(s[2]), vtb(s[3]))]
    return [('while', vte(s[1]), vtb(s[2]))]


def vtb(b):
    return [t for s in b for t in vts(s)]


def py_e(e):
    k = e[0]
    if k == 'name':
        return 'v%d' % e[1]
    if k == 'const':
        return str(e[1])
    if k == 'op':
        return 'W(%s)' % ', '.join([str(e[1])] + [py_e(x) for x in e[2]])
    if k == 'ld':
        return 'ag__.ld(%s)' % py_e(e[1])
    return "ag__.Undefined('v%d')" % e[1]


def py_t(t):
    if t[0] == 'tname':
        return 'v%d' % t[1]
    return 'S%d[%s]' % (t[1], ', '.join(py_e(x) for x in t[2]))


def py_b(b, ind):
    out = []
    pad = '    ' * ind
    for s in b:
        k = s[0]
        if k == 'assign':
            out.append('%s%s = %s' % (pad, py_t(s[1]), py_e(s[2])))
        elif k == 'aug':
            out.append('%s%s += %s' % (pad, py_t(s[1]), py_e(s[3])))
        elif k == 'del':
            out.append('%sdel %s' % (pad, ', '.join(py_t(t) for t in s[1])))
        elif k == 'expr':
            out.append('%s%s' % (pad, py_e(s[1])))
        elif k == 'if':
            out.append('%sif %s:' % (pad, py_e(s[1])))
            out += py_b(s[2], ind + 1) or [pad + '    pass']
            if s[3]:
                out.append('%selse:' % pad)
                out += py_b(s[3], ind + 1)
        else:
            out.append('%swhile %s:' % (pad, py_e(s[1])))
            out += py_b(s[2], ind + 1) or [pad + '    pass']
    return out


def coq_e(e):
    k = e[0]
    if k == 'name':
        return 'EName %d %s' % (e[1], 'true' if e[2] else 'false')
    if k == 'const':
        return 'EConst %d' % e[1]
    if k == 'op':
        return 'EOp %d (%s)' % (e[1], coq_es(e[2]))
    if k == 'ld':
        return 'ELd (%s)' % coq_e(e[1])
    return 'EUndefined %d' % e[1]


def coq_es(es):
    out = 'ENil'
    for e in reversed(es):
        out = 'ECons (%s) (%s)' % (coq_e(e), out)
    return out


def coq_t(t):
    return 'TgName %d' % t[1] if t[0] == 'tname' else 'TgComp %d (%s)' % (t[1], coq_es(t[2]))


def coq_ts(ts):
    out = 'TNil'
    for t in reversed(ts):
        out = 'TCons (%s) (%s)' % (coq_t(t), out)
    return out


def coq_b(b):
    out = 'BNil'
    for s in reversed(b):
        k = s[0]
        if k == 'assign':
            c = 'SAssign (%s) (%s)' % (coq_t(s[1]), coq_e(s[2]))
        elif k == 'aug':
            c = 'SAug (%s) %d (%s)' % (coq_t(s[1]), s[2], coq_e(s[3]))
        elif k == 'del':
            c = 'SDel (%s)' % coq_ts(s[1])
        elif k == 'expr':
            c = 'SExpr (%s)' % coq_e(s[1])
        elif k == 'if':
            c = 'SIf (%s) (%s) (%s)' % (coq_e(s[1]), coq_b(s[2]), coq_b(s[3]))
        else:
            c = 'SWhile (%s) (%s)' % (coq_e(s[1]), coq_b(s[2]))
        out = 'BCons (%s) (%s)' % (c, out)
    return out


class OpErr(Exception):
    pass


class Leak(Exception):
    pass


class Budget(Exception):
    pass


def opres(l, ns):
    r = (l * 7 + 3 * sum(ns) + 1) % 11
    return None if r == 10 else r


def run_py(body_lines, params, undef, ag):
    """-> (outcome, log, final) or None when the budget is exceeded"""
    log, calls = [], [0]

    def ints(xs):
        for x in xs:
            if type(x) is not int:
                raise Leak()
        return list(xs)

    def step():
        calls[0] += 1
        if calls[0] > BUDGET:
            raise Budget()

    def W(l, *a):
        ns = ints(a)
        step()
        log.append(('op', l, ns))
        r = opres(l, ns)
        if r is None:
            raise OpErr(l)
        return r

    class S(object):
        def __init__(self, l):
            self.l = l

        def key(self, k):
            return ints(k if isinstance(k, tuple) else (k,))

        def __getitem__(self, k):
            ns = self.key(k)
            step()
            log.append(('op', self.l, ns))
            r = opres(self.l, ns)
            if r is None:
                raise OpErr(self.l)
            return r

        def __setitem__(self, k, v):
            ns = self.key(k)
            ints([v])
            log.append(('store', self.l, ns, v))

        def __delitem__(self, k):
            log.append(('del', self.l, self.key(k)))
    FINAL = {}
    env = {'W': W, 'ag__': ag, 'FINAL': FINAL}
    for l in range(20, 24):
        env['S%d' % l] = S(l)
    allv = ['v%d' % i for i in range(1, GEN + 1)]
    pre = ['    if 0:', '        ' + ' = '.join(allv) + ' = 0']          # every variable is a local
    pre += ["    v%d = ag__.Undefined('v%d')" % (u, u) for u in undef]
    text = 'def prog(%s):\n%s\n    try:\n%s\n    finally:\n        FINAL.update(locals())\n' % (
        ', '.join('v%d' % p for p in sorted(params)), '\n'.join(pre), '\n'.join(body_lines) or '        pass')
    exec(compile(text, '<vars-sem>', 'exec'), env)
    try:
        env['prog'](**{'v%d' % p: v for p, v in params.items()})
        outcome = (0, 0)
    except Budget:
        return None
    except (NameError, UnboundLocalError) as e:
        m = re.search(r"'v(\d+)'", str(e))
        outcome = (1, int(m.group(1)) if m else 99)
    except OpErr as e:
        outcome = (2, e.args[0])
    except (Leak, TypeError):
        outcome = (3, 0)
    final = {}
    for i in range(1, GEN + 1):
        v = FINAL.get('v%d' % i, None)
        if 'v%d' % i not in FINAL:
            final[i] = 'None'
        elif type(v) is int:
            final[i] = 'Some (TV %d)' % v
        elif isinstance(v, ag.Undefined):
            final[i] = 'Some (TUndef %d)' % int(object.__getattribute__(v, 'symbol_name')[1:])
        else:
            final[i] = 'Some (TV 999)'
    return outcome, log, final, text


def coq_expect(res):
    outcome, log, final, _ = res
    evs = []
    for e in log:
        ns = '[' + '; '.join(map(str, e[2])) + ']'
        if e[0] == 'op':
            evs.append('EvOp %d %s' % (e[1], ns))
        elif e[0] == 'store':
            evs.append('EvStore %d %s %d' % (e[1], ns, e[3]))
        else:
            evs.append('EvDel %d %s' % (e[1], ns))
    return 'mkexp (%d, %d) [%s] [%s]' % (outcome[0], outcome[1], '; '.join(evs),
                                        '; '.join('(%d, %s)' % (i, final[i]) for i in sorted(final)))


def semantic_cases(rnd, n):
    from malt import operators as ag
    cases, meta, stats = [], [], {'discarded': 0, 'outcomes': {}}
    tries = 0
    while len(cases) < n and tries < 6 * n:
        tries += 1
        g = G(rnd)
        b = g.block()
        b2 = vtb(b)
        params = {p: rnd.randrange(6) for p in (1, 2, 3) if rnd.random() < 0.96}
        params[GEN] = rnd.randrange(6)
        unbound = [u for u in range(1, NV + 1) if u not in params]
        undef = [u for u in unbound if rnd.random() < 0.6]
        r1 = run_py(py_b(b, 2), params, [], ag)
        r2 = run_py(py_b(b2, 2), params, undef, ag)
        if r1 is None or r2 is None:
            stats['discarded'] += 1
            continue
        init1 = '[' + '; '.join('(%d, TV %d)' % (p, v) for p, v in sorted(params.items())) + ']'
        init2 = '[' + '; '.join(['(%d, TV %d)' % (p, v) for p, v in sorted(params.items())] + ['(%d, TUndef %d)' % (u, u) for u in undef]) + ']'
        cases.append('(%d, %d, %s, %s, %s, %s, %s, %s)' % (len(meta), FUEL, coq_b(b), init1, coq_expect(r1), coq_b(b2), init2, coq_expect(r2)))
        meta.append((r1[3], r2[3], r1[0], r2[0]))
        stats['outcomes'][r1[0][0]] = stats['outcomes'].get(r1[0][0], 0) + 1
    return cases, meta, stats


def tie(run, rnd, quick, prelude, convert, batch=0):
    """-> (message or None, programs for the search of a failing input)"""
    with warnings.catch_warnings():
        warnings.simplefilter('ignore')
        gcases, gmeta, skipped = structural_cases(rnd, 36, prelude, convert)
    vcases, vmeta, stats = semantic_cases(rnd, 220)
    run.count(len(gcases) + len(vcases))
    run.extra['variables_pass_cases'] = run.extra.get('variables_pass_cases', 0) + len(gcases)
    run.extra['variables_semantics_runs_against_cpython'] = run.extra.get('variables_semantics_runs_against_cpython', 0) + 2 * len(vcases)
    run.extra['variables_semantics_outcomes'] = {str(k): v + run.extra.get('variables_semantics_outcomes', {}).get(str(k), 0)
                                                 for k, v in stats['outcomes'].items()}
    if len(gcases) < 20 or len(vcases) < 100:
        return 'variables tie: too few cases (%d structural, %d semantic, %d skipped)' % (len(gcases), len(vcases), skipped), []
    body = ['From Coq Require Import List Arith Bool.', 'Import ListNotations.',
            'Require Import MV.Vars.VarLang MV.Vars.VarCheck.',
            'Definition gcases : list gcase := [', ';\n'.join(gcases), '].',
            'Definition vcases : list vcase := [', ';\n'.join(vcases), '].',
            'Eval vm_compute in failing_gcases gcases.',
            'Eval vm_compute in (failing_vcases vcases, tt).']
    rc, out = vlib.coq_eval('C01', 'variables_%d' % batch, '\n'.join(body), timeout=900)
    if rc != 0:
        return 'variables tie: model evaluation failed\n' + out[-1500:], []
    bad = vlib.parse_coq_list_of_nat(out)
    mv = re.search(r'=\s*\((\[[^\]]*\]),\s*tt\)', out)
    vbad = [int(x) for x in re.findall(r'\d+', mv.group(1))] if mv else None
    if bad is None or vbad is None:
        return 'variables tie: could not read the result\n' + out[-1500:], []
    if vbad:
        m = vmeta[vbad[0]]
        return ('variables tie: the core-language semantics (coq/Vars/VarLang.v exec) disagrees with CPython, or the harness mirror with vtb, on %d of %d '
                'programs; first:\n--- source form, ended %r\n%s\n--- converted form, ended %r\n%s' % (len(vbad), len(vcases), m[2], m[0], m[3], m[1])), []
    if bad:
        src, feats = gmeta[bad[0]]
        return ('variables tie: the model of the variables pass (coq/Vars/VarLang.v gvt) differs from malt/converters/variables.py on %d of %d '
                'function bodies; first (features %s):\n%s' % (len(bad), len(gcases), feats, src)), [gmeta[i][0] for i in bad[:10]]
    return None, []
