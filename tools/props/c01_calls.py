"""C01 / call_trees pass (coq/Calls): (a) structural tie of the model ct with malt/converters/call_trees.py on every
maximal expression of generated programs, before / after the real pass; (b) the semantics of native and rewritten
calls against CPython (evaluation order of callee, arguments, unpackings, keywords; the call made)."""
import ast
import copy
import re
import warnings

from lib import vlib, convrun
from gen import progs

NEVER = ('pdb.set_trace', 'ipdb.set_trace', 'breakpoint')


class Unsupported(Exception):
    pass


class CExporter(object):
    """ast expression -> term of coq/Calls/CallLang.v.  `output` selects how calls are read: in the input every call is
    classified by the rule of the pass (qualified name of the callee); in the output ag__.converted_call(...) is the
    rewritten form and everything else a native call that was left alone."""

    def __init__(self, qn_of, uses_builtins):
        self.labels, self.keys = {}, {}
        self.qn_of = qn_of
        self.uses_builtins = uses_builtins

    def label(self, key):
        return self.labels.setdefault(key, len(self.labels) + 1)

    def key(self, k):
        return self.keys.setdefault(k, len(self.keys))

    def skeleton(self, n):
        parts = [type(n).__name__]
        for f in n._fields:
            if f.startswith('_'):
                continue
            v = getattr(n, f, None)
            for c in (v if isinstance(v, list) else [v]):
                if isinstance(c, (ast.expr, ast.comprehension, ast.keyword)):
                    continue
                elif isinstance(c, ast.AST):
                    parts.append(type(c).__name__)
                elif c is not None:
                    parts.append(repr(c))
        return '|'.join(parts)

    def children(self, n):
        out = []
        if isinstance(n, ast.Dict):
            for k, v in zip(n.keys, n.values):
                if k is not None:
                    out.append(k)
                out.append(v)
            return out
        for f in n._fields:
            if f.startswith('_'):
                continue
            v = getattr(n, f, None)
            for c in (v if isinstance(v, list) else [v]):
                if isinstance(c, ast.expr):
                    out.append(c)
                elif isinstance(c, ast.comprehension):
                    out += [c.target, c.iter] + list(c.ifs)
                elif isinstance(c, ast.arguments):
                    out += [d for d in list(c.defaults) + list(c.kw_defaults) if d is not None]
        return out

    def exprs(self, xs):
        out = 'ENil'
        for x in reversed(xs):
            out = 'ECons (%s) (%s)' % (x, out)
        return out

    def args(self, xs, ctxname, output):
        out = 'ANil'
        for a in reversed(xs):
            if isinstance(a, ast.Starred):
                out = 'AStar (%s) (%s)' % (self.expr(a.value, ctxname, output), out)
            else:
                out = 'APos (%s) (%s)' % (self.expr(a, ctxname, output), out)
        return out

    def kws(self, ks, ctxname, output):
        out = 'KNil'
        for k in reversed(ks):
            if k.arg is None:
                out = 'KStar (%s) (%s)' % (self.expr(k.value, ctxname, output), out)
            else:
                out = 'KNamed %d (%s) (%s)' % (self.key(k.arg), self.expr(k.value, ctxname, output), out)
        return out

    def kind(self, call, ctxname):
        full = self.qn_of(call.func)
        if full.startswith('ag__.') or (ctxname and full.startswith(ctxname + '.')) or full in NEVER:
            return 'CSkip'
        if full == 'print' and not self.uses_builtins:
            return 'CSkip'
        return 'CUser'

    def expr(self, n, ctxname, output):
        if isinstance(n, ast.Lambda):
            inner = getattr(n, '_ctxname', None) or ctxname
            return 'EOp %d (%s)' % (self.label(self.skeleton(n)), self.exprs([self.expr(c, inner, output) for c in self.children(n)]))
        if isinstance(n, ast.Call):
            f = n.func
            if output and isinstance(f, ast.Attribute) and isinstance(f.value, ast.Name) and f.value.id == 'ag__' and f.attr == 'converted_call':
                if len(n.args) != 4 or n.keywords or not isinstance(n.args[1], ast.Tuple):
                    raise Unsupported('converted_call shape')
                d = n.args[2]
                if isinstance(d, ast.Constant) and d.value is None:
                    form = 'KNone'
                elif isinstance(d, ast.Dict) and all(isinstance(k, ast.Constant) and isinstance(k.value, str) for k in d.keys):
                    kk = [ast.keyword(arg=k.value, value=v) for k, v in zip(d.keys, d.values)]
                    form = 'KDisplay (%s)' % self.kws(kk, ctxname, output)
                elif isinstance(d, ast.Call) and isinstance(d.func, ast.Name) and d.func.id == 'dict' and not d.args:
                    form = 'KDict (%s)' % self.kws(d.keywords, ctxname, output)
                else:
                    raise Unsupported('kwargs form of converted_call')
                if not (isinstance(n.args[3], ast.Name) and n.args[3].id == ctxname):
                    raise Unsupported('converted_call does not pass the function scope of its function: %s' % ast.unparse(n.args[3]))
                return 'EConv (%s) (%s) (%s)' % (self.expr(n.args[0], ctxname, output), self.args(n.args[1].elts, ctxname, output), form)
            kind = 'CSkip' if output else self.kind(n, ctxname)
            return 'ECall %s (%s) (%s) (%s)' % (kind, self.expr(f, ctxname, output), self.args(n.args, ctxname, output),
                                               self.kws(n.keywords, ctxname, output))
        return 'EOp %d (%s)' % (self.label(self.skeleton(n)), self.exprs([self.expr(c, ctxname, output) for c in self.children(n)]))


def statement_expressions(tree):
    """(expression, visited by the pass?, function-scope name in force) for every maximal expression, in a fixed order"""
    out = []

    def walk(n, ctxname):
        if isinstance(n, (ast.FunctionDef, ast.AsyncFunctionDef)):
            for d in n.decorator_list + list(n.args.defaults) + [k for k in n.args.kw_defaults if k is not None]:
                out.append((d, True, ctxname))
            inner = getattr(n, '_ctxname', None)
            for s in n.body:
                walk(s, inner)
            if n.returns is not None:
                out.append((n.returns, True, inner))
            return
        if isinstance(n, ast.With):
            for it in n.items:
                out.append((it.context_expr, False, ctxname))
            for s in n.body:
                walk(s, ctxname)
            return
        for f in n._fields:
            if f.startswith('_'):
                continue
            v = getattr(n, f, None)
            for c in (v if isinstance(v, list) else [v]):
                if isinstance(c, ast.expr):
                    if not isinstance(getattr(c, 'ctx', None), (ast.Store, ast.Del)):
                        out.append((c, True, ctxname))
                    else:
                        for sub in ast.iter_child_nodes(c):      # a[i] = ... : the sub-expressions of a store target
                            if isinstance(sub, ast.expr) and not isinstance(getattr(sub, 'ctx', None), (ast.Store, ast.Del)):
                                out.append((sub, True, ctxname))
                elif isinstance(c, (ast.stmt, ast.ExceptHandler, ast.match_case)):
                    walk(c, ctxname)
    walk(tree, None)
    return out


def structural_cases(rnd, n, prelude, convert):
    from malt.converters import call_trees
    from malt.pyct import anno
    from malt.core import converter
    orig = call_trees.transform
    captured = {}

    def stamp(tree):
        for x in ast.walk(tree):
            if isinstance(x, (ast.FunctionDef, ast.Lambda)) and anno.hasanno(x, 'function_context_name'):
                x._ctxname = anno.getanno(x, 'function_context_name')
            if isinstance(x, ast.Call):
                x.func._qn = str(anno.getanno(x.func, anno.Basic.QN, default=''))

    def wrap(node, ctx):
        from malt.pyct import qual_names
        pre = qual_names.resolve(copy.deepcopy(node))          # what the pass itself does first
        stamp(pre)
        captured['in'] = pre
        captured['builtins'] = bool(ctx.user.options.uses(converter.Feature.BUILTIN_FUNCTIONS))
        out = orig(node, ctx)
        post = copy.deepcopy(out)
        stamp(post)
        captured['out'] = post
        return out
    o1 = progs.Opts(helper_calls=True, max_stmts=10, boolops=True, loop_else=False)
    o2 = progs.Opts(mutation=True, methods=True, max_stmts=10, comprehension=True, loop_else=False, try_=False)
    o3 = progs.Opts(nested_def=True, lambda_closures=True, max_stmts=10, loop_else=False, with_=True)
    hand = ['def f(a, b, c):\n    xs = [a, b]\n    kw = {"v": c}\n    x = H2(*xs)\n    y = H2(a, **kw)\n    z = H2(*xs[:1], v=T(1, b))\n    print(T(2, x), y)\n    with CM(T(3, z)):\n        w = H1(T(4, z))\n    return T(5, w, H2(u=a, v=b))\n',
            'def f(a, b, c):\n    g = lambda q, *r, **s: T(1, q)\n    return g(a, *[b], **{"k": c}) + g(H1(a), b, k=H1(c))\n']
    srcs = hand + [progs.gen_function(rnd, rnd.choice([o1, o2, o3])) for _ in range(n)]
    mod = convrun.load_module(srcs, prelude)
    cases, meta, skipped = [], [], 0
    F = converter.Feature
    call_trees.transform = wrap
    try:
        for i, src in enumerate(srcs):
            for feats in (None, (F.BUILTIN_FUNCTIONS,)) if i % 3 == 0 else (None,):
                captured.clear()
                try:
                    convert(getattr(mod, 'f%d' % i), True, feats)
                except Exception:   # noqa
                    pass
                if 'in' not in captured or 'out' not in captured:
                    skipped += 1
                    continue
                ein, eout = statement_expressions(captured['in']), statement_expressions(captured['out'])
                if len(ein) != len(eout):
                    return None, None, 'the call_trees pass changed the statement structure of\n%s' % src
                ex = CExporter(lambda f: getattr(f, '_qn', ''), captured['builtins'])
                for (a, touched, cn), (b, _t, cn2) in zip(ein, eout):
                    if not any(isinstance(x, ast.Call) for x in ast.walk(a)):
                        continue
                    try:
                        ta, tb = ex.expr(a, cn, False), ex.expr(b, cn2, touched)      # untouched expressions: read both alike
                    except Unsupported as e:
                        return None, None, 'call_trees output outside the modelled shapes (%s) in\n%s' % (e, src)
                    cases.append('(%d, %s, %s, %s)' % (len(meta), vlib.coq_bool(touched), ta, tb))
                    meta.append((src, ast.unparse(a), repr(feats)))
    finally:
        call_trees.transform = orig
    return cases, meta, skipped


# ---------------------------------------------------------------------------------------------- semantics
class OpErr(Exception):
    pass


class CalleeErr(Exception):
    pass


def gen_expr(rnd, d, k):
    c = rnd.random()
    if d >= 3 or c < 0.3:
        k[0] += 1
        return ('op', k[0] % 17 + 1, [])
    if c < 0.5:
        k[0] += 1
        return ('op', k[0] % 17 + 1, [gen_expr(rnd, d + 1, k) for _ in range(rnd.randint(1, 2))])
    kind = 'CUser' if rnd.random() < 0.75 else 'CSkip'
    ps = [('star' if rnd.random() < 0.3 else 'pos', gen_expr(rnd, d + 1, k)) for _ in range(rnd.randint(0, 3))]
    names = rnd.sample([0, 1, 2], rnd.randint(0, 2))
    ks = [('named', nm, gen_expr(rnd, d + 1, k)) for nm in names]
    if rnd.random() < 0.35:
        ks.insert(rnd.randint(0, len(ks)), ('kstar', None, gen_expr(rnd, d + 1, k)))
    return ('call', kind, gen_expr(rnd, d + 1, k), ps, ks)


def coq_expr(e):
    if e[0] == 'op':
        out = 'ENil'
        for x in reversed(e[2]):
            out = 'ECons (%s) (%s)' % (coq_expr(x), out)
        return 'EOp %d (%s)' % (e[1], out)
    ps = 'ANil'
    for t, x in reversed(e[3]):
        ps = '%s (%s) (%s)' % ('AStar' if t == 'star' else 'APos', coq_expr(x), ps)
    ks = 'KNil'
    for t, nm, x in reversed(e[4]):
        ks = ('KStar (%s) (%s)' % (coq_expr(x), ks)) if t == 'kstar' else ('KNamed %d (%s) (%s)' % (nm, coq_expr(x), ks))
    return 'ECall %s (%s) (%s) (%s)' % (e[1], coq_expr(e[2]), ps, ks)


def py_expr(e, rewritten):
    if e[0] == 'op':
        return 'W(%s)' % ', '.join([str(e[1])] + [py_expr(x, rewritten) for x in e[2]])
    f = py_expr(e[2], rewritten)
    ps = [('*' if t == 'star' else '') + py_expr(x, rewritten) for t, x in e[3]]
    ks = [('**' + py_expr(x, rewritten)) if t == 'kstar' else ('k%d=%s' % (nm, py_expr(x, rewritten))) for t, nm, x in e[4]]
    if not rewritten or e[1] == 'CSkip':
        return '%s(%s)' % (f, ', '.join(ps + ks))
    tup = '(%s)' % ''.join(p + ', ' for p in ps)
    if not e[4]:
        kw = 'None'
    elif all(t == 'named' for t, _n, _x in e[4]):
        kw = '{%s}' % ', '.join("'k%d': %s" % (nm, py_expr(x, rewritten)) for _t, nm, x in e[4])
    else:
        kw = 'dict(%s)' % ', '.join(ks)
    return 'CC(%s, %s, %s)' % (f, tup, kw)


def run_py(text):
    log = []

    class V(object):
        def __init__(self, n):
            self.n = n

        def __iter__(self):
            log.append(('iter', self.n))
            if self.n % 4 == 0:
                raise TypeError('not iterable')
            return iter([V(self.n + 1), V(self.n + 2)] if self.n % 2 else [])

        def keys(self):
            log.append(('keys', self.n))
            if self.n % 4 == 2:
                raise TypeError('not a mapping')
            return ['k%d' % (self.n % 3 + 3)] if self.n % 2 else []

        def __getitem__(self, k):
            return V(self.n + 5)

        def __call__(self, *a, **k):
            ps = [x.n for x in a]
            ks = [(int(key[1:]), v.n) for key, v in k.items()]
            log.append(('call', self.n, ps, ks))
            r = (self.n + 2 * sum(ps) + 7 * sum(x + y for x, y in ks)) % 13
            if r == 11:
                raise CalleeErr()
            return V(r)

    def W(l, *a):
        vs = [x.n for x in a]
        log.append(('op', l, vs))
        r = (l * 5 + 3 * sum(vs) + 1) % 13
        if r == 12:
            raise OpErr()
        return V(r)

    def CC(f, args, kwargs):
        return f(*args, **(kwargs or {}))
    try:
        v = eval(text, {'W': W, 'CC': CC})
        return (True, v.n), log
    except TypeError:
        return (False, 1), log
    except OpErr:
        return (False, 2), log
    except CalleeErr:
        return (False, 3), log


def coq_trace(log):
    out = []
    for e in log:
        if e[0] == 'op':
            out.append('EvOp %d [%s]' % (e[1], '; '.join(map(str, e[2]))))
        elif e[0] == 'iter':
            out.append('EvIter %d' % e[1])
        elif e[0] == 'keys':
            out.append('EvKeys %d' % e[1])
        else:
            out.append('EvCall %d [%s] [%s]' % (e[1], '; '.join(map(str, e[2])), '; '.join('(%d, %d)' % p for p in e[3])))
    return '[' + '; '.join(out) + ']'


def deferred_somewhere(e):
    """a converted call whose only positional argument is starred and that has keywords: CPython unpacks it after the
    keywords were evaluated (known finding: the rewritten form unpacks it first)"""
    if e[0] == 'op':
        return any(deferred_somewhere(x) for x in e[2])
    here = e[1] == 'CUser' and len(e[3]) == 1 and e[3][0][0] == 'star' and bool(e[4])
    return here or deferred_somewhere(e[2]) or any(deferred_somewhere(x) for _t, x in e[3]) or any(deferred_somewhere(x) for _t, _n, x in e[4])


def coq_expect(a, la):
    return '(%s, %d, %s)' % (vlib.coq_bool(a[0]), a[1], coq_trace(la))


def semantic_cases(rnd, n):
    cases, meta = [], []
    tries, ndef = 0, 0
    while len(cases) < n and tries < 5 * n:
        tries += 1
        e = gen_expr(rnd, 0, [rnd.randrange(50)])
        if e[0] != 'call':
            continue
        a, la = run_py(py_expr(e, False))
        b, lb = run_py(py_expr(e, True))
        if deferred_somewhere(e):
            ndef += 1
        elif (a, la) != (b, lb):
            return None, ('CPython itself distinguishes the native call from the rewritten form (harness mirror of the pass) on an expression '
                          'without a deferred unpacking:\n%s -> %r %r\n%s -> %r %r' % (py_expr(e, False), a, la, py_expr(e, True), b, lb))
        cases.append('(%d, %s, %s, %s)' % (len(meta), coq_expr(e), coq_expect(a, la), coq_expect(b, lb)))
        meta.append((py_expr(e, False), a, la))
    return cases, meta


def tie(run, rnd, quick, prelude, convert, batch=0):
    with warnings.catch_warnings():
        warnings.simplefilter('ignore')
        gcases, gmeta, skipped = structural_cases(rnd, 34, prelude, convert)
    if gcases is None:
        return 'call_trees tie: ' + skipped, []
    vcases, vmeta = semantic_cases(rnd, 200)
    if vcases is None:
        return 'call_trees tie: ' + vmeta, []
    run.count(len(gcases) + len(vcases))
    run.extra['call_trees_pass_cases'] = run.extra.get('call_trees_pass_cases', 0) + len(gcases)
    run.extra['call_semantics_runs_against_cpython'] = run.extra.get('call_semantics_runs_against_cpython', 0) + 2 * len(vcases)
    if len(gcases) < 30 or len(vcases) < 100:
        return 'call_trees tie: too few cases (%d structural, %d semantic)' % (len(gcases), len(vcases)), []
    body = ['From Coq Require Import List Arith Bool.', 'Import ListNotations.',
            'Require Import MV.Calls.CallLang MV.Calls.CallCheck.',
            'Definition gcases : list gcase := [', ';\n'.join(gcases), '].',
            'Definition vcases : list vcase := [', ';\n'.join(vcases), '].',
            'Eval vm_compute in failing_gcases gcases.',
            'Eval vm_compute in (failing_vcases vcases, tt).']
    rc, out = vlib.coq_eval('C01', 'calls_%d' % batch, '\n'.join(body), timeout=900)
    if rc != 0:
        return 'call_trees tie: model evaluation failed\n' + out[-1500:], []
    bad = vlib.parse_coq_list_of_nat(out)
    mv = re.search(r'=\s*\((\[[^\]]*\]),\s*tt\)', out)
    vbad = [int(x) for x in re.findall(r'\d+', mv.group(1))] if mv else None
    if bad is None or vbad is None:
        return 'call_trees tie: could not read the result\n' + out[-1500:], []
    if vbad:
        m = vmeta[vbad[0]]
        return ('call_trees tie: the call semantics (coq/Calls/CallLang.v ev) disagrees with CPython on %d of %d expressions; first:\n%s -> %r, events %r'
                % (len(vbad), len(vcases), m[0], m[1], m[2])), []
    if bad:
        src, text, feats = gmeta[bad[0]]
        return ('call_trees tie: the model of the pass (coq/Calls/CallLang.v ct) differs from malt/converters/call_trees.py on %d of %d '
                'expressions; first (features %s): %s in\n%s' % (len(bad), len(gcases), feats, text, src)), sorted(set(gmeta[i][0] for i in bad))[:10]
    return None, []
