"""C17 -- generated code is a well-formed tree that loads as what to_code shows (DESIGN.md 4/C17).

 1. regenerate coq/Generated/C17_gen.v: ContextAdjuster's handler table and every template of
    every templates.replace call site (fail closed)
 2. re-check the obligations in coq/Properties/C17
 3. correspondence, evaluated in Coq (Tmpl/ReplaceCheck.v):
      i  templates.replace   : every call the real pipeline makes while converting the programs of
                               this run (template parse, replacements, result recorded by a monitor;
                               identities = Python object identities) + synthetic quirk cases
      a  ContextAdjuster     : random expressions, random overrides, unset / wrong contexts
      p  copy_clean          : random trees
      c  ctx_ok (spec side)  : the model's "context matches position" against CPython's own AST
                               validator (compile(tree)) on final trees and context-flipped mutants
 4. property-level oracle on the real pipeline: for every program x option set, the tree returned
    by PyToPy.transform_ast (captured by a subclass), the nodes handed to loader.load_ast, the
    module file and to_code:
      identity uniqueness, context per position, compile, parse(unparse(t)) == t,
      to_code(f) == text of the function in the module file that was loaded, code object of the
      running function == code object compiled from that file;
      the text load_ast hands to load_source (recorded by the monitor, also when load_ast raises
      afterwards) re-parses to the nodes handed to load_ast: nothing between unparse and the module
      file may change what the text denotes (docstrings are written raw by ast.unparse, so line-end
      blanks, tabs and whitespace-only lines inside them are significant).
"""
import ast
import copy
import importlib.util
import inspect
import json
import os
import random
import re
import shutil
import sys
import textwrap
import types
from concurrent.futures import ThreadPoolExecutor

from lib import vlib
from translate import c17_templates as tr
from gen import progs

KNOWN_WALRUS = 'C17-namedexpr-ctx'
KNOWN_LIST_TARGET = 'C17-list-target-new-list'
KNOWN_NESTED_STORE = 'C17-nested-subscript-store'

# ----------------------------------------------------------------------------- programs
HAND = [
    # (name, source) -- unusual literals of the property text
    # bodies that consist of a docstring / a lone constant / pass only (at the top level and in nested defs, lambdas aside)
    ('doconly', 'def f(a, b, c):\n    """only a docstring"""\n'),
    ('stubonly', 'def f(a, b, c):\n    ...\n'),
    ('constonly', 'def f(a, b, c):\n    42\n'),
    ('docpass', 'def f(a, b, c):\n    """doc"""\n    pass\n'),
    ('nesteddoc', 'def f(a, b, c):\n    """outer"""\n    def g():\n        """inner only"""\n    def h(x):\n        ...\n    class K:\n        """k"""\n        def m(self):\n            "m doc"\n    return g(), h(a), K().m()\n'),
    ('docbytes', "def f(a, b, c):\n    b'not a docstring'\n    return a\n"),
    ('neg', 'def f(a, b, c):\n    x = -1\n    y = a[-2] - -3 ** -a\n    return (x, -y, +x, ~a, not b)\n'),
    ('fstr', "def f(a, b, c):\n    x = f\"{a!r:>{b}} {f'{c:{a}}'} {{lit}} {a + 1=}\"\n    return f'{x}' f'{b}' 'tail'\n"),
    ('fstr2', "def f(a, b, c):\n    if a:\n        x = f'{a if b else c}{\"q\"}'\n    else:\n        x = f\"{ {1: 2}[1] }{[i for i in a]!s}\"\n    return x\n"),
    ('bytes', "def f(a, b, c):\n    x = b'ab\\x00' + b\"c'd\"\n    y = 'a\\n\"b' '\\'c' + r'\\d'\n    return x, y, ..., None, True\n"),
    ('complex', 'def f(a, b, c):\n    x = 1j + 2.5e-3j - 1e308 * 10\n    y = 0x1F + 0o7 + 0b1 + 1_000\n    z = (1 + 2j).real\n    return x * -2j, y, z, 1 .real, 1.5.real\n'),
    ('subscr', 'def f(a, b, c):\n    x = a[1, 2]\n    y = a[1:2, ::3]\n    z = a[(1, 2)][b:][:c][::-1]\n    w = a[:, None]\n    a[b, c] = x\n    return x, y, z, w, a[...], a[()]\n'),
    ('starred', 'def f(a, b, c):\n    x, *y = a\n    *z, w = b\n    (p, *q), r = c\n    t = (*a, *b)\n    u = [*a, 1, *c]\n    v = {*a, *b}\n    d = {**a, 1: 2, **b}\n    return g(*a, *b, k=1, **c), x, y, z, w, p, q, r, t, u, v, d\n'),
    ('chain', 'def f(a, b, c):\n    x = a < b <= c == a != b > c >= a is b is not c in a not in b\n    y = (a < b) < c\n    z = a < (b < c)\n    return x, y, z\n'),
    ('lamdef', 'def f(a, b=lambda x, y=(1, 2), *z, k=lambda: 0, **kw: (x, y, z, k, kw), *c, d=[1, 2][0], **e):\n    g = lambda q=a, *, r=b: (q, r)\n    return g(), b(1), c, d, e\n'),
    ('deco', 'def f(a, b, c):\n    @a\n    @b(1, x=2)\n    def g(x, /, y, *, z):\n        return x + y + z\n    @c.d[0]\n    def h():\n        return g(1, 2, z=3)\n    return h\n'),
    ('condexp', 'def f(a, b, c):\n    x = a if b else c if a else b\n    y = (a if b else c) if a else b\n    z = [a if b else c for a in b if a if c]\n    return x and y or z and not (x or y)\n'),
    ('comp', 'def f(a, b, c):\n    x = [i + j for i in a for j in b if i < j]\n    y = {i: j for i, j in a}\n    z = {i for i in a}\n    w = list(i for i in a)\n    v = [[k for k in r] for r in a]\n    return x, y, z, w, v\n'),
    ('whileflow', 'def f(a, b, c):\n    x = 0\n    while a > 0:\n        a -= 1\n        if a == b:\n            continue\n        if a == c:\n            break\n        x += a\n    for i in b:\n        if i:\n            return i\n    return x\n'),
    ('tryflow', 'def f(a, b, c):\n    try:\n        x = a / b\n    except ZeroDivisionError:\n        x = 0\n    except (TypeError, ValueError) as e:\n        x = str(e)\n    else:\n        x += 1\n    finally:\n        c.append(1)\n    with a as p, b as (q, r):\n        x = p\n    return x\n'),
    ('globals_', 'def f(a, b, c):\n    global G\n    G = a\n    def g():\n        nonlocal b\n        b = G\n        return b\n    del a, c[0], c.x\n    assert b, "msg"\n    return g()\n'),
    ('listops', 'def f(a, b, c):\n    l = []\n    l.append(a)\n    l.append(b)\n    x = l.pop()\n    l[0] = c\n    l[1:2] = a\n    l[0] += 1\n    y = l[0]\n    return l, x, y\n'),
    ('semi', 'def f(a, b, c):\n    x = 1; y = 2\n    if a: x = 2\n    s = """doc\n  string"""\n    t = (a,)\n    u = ()\n    v = a,\n    return x, y, s, t, u, v, 3 if False else 0\n'),
    ('matmul', 'def f(a, b, c):\n    x = a @ b // c % a ** b << c >> a & b | c ^ a\n    x @= a\n    x //= b\n    x **= c\n    x >>= 1\n    return x\n'),
    ('annot', 'def f(a: int, b: "str" = 1, *c: float) -> list:\n    x: int = a\n    y: list\n    return x\n'),
    # every ctx-carrying class substituted at Store and at Load positions by the control-flow templates
    ('composite', 'def f(a, b, c):\n    if a:\n        b.v = 1\n        c[0] = 2\n    else:\n        b.v = 3\n        c[0] = 4\n    while a:\n        b.v.w += 1\n        c[a] = b.v\n        a -= 1\n    for b.k, c[1] in a:\n        b.v = b.k\n    for (x, *y), z in a:\n        b.v = (x, y, z)\n    return b.v, c\n'),
    ('composite2', 'def f(a, b, c):\n    for (p, q), *r in a:\n        if p:\n            b.x.y, c[p] = q, r\n            continue\n        if q:\n            break\n        c[0] = [p, *r]\n    l = [1, [2, 3]]\n    l[1] = b.x.y\n    l[0] += 1\n    return l, b.x.y, c[0]\n'),
    # composite symbols (subscripts with literal keys, attribute chains) that become loop / cond state:
    # control_flow materialises them through QN.ast() in get_state / set_state
    ('qn_if', "def f(a, b, c):\n    if a:\n        b[-1] = 1\n        b[0] = 2\n        b['k'] = 3\n        c.p.q = 4\n        b[-2.5] = 5\n    else:\n        b[-1] = 6\n        b[0] = 7\n        b['k'] = 8\n        c.p.q = 9\n        b[-2.5] = 10\n    return b[-1], b[0], b['k'], c.p.q, b[-2.5]\n"),
    ('qn_for', "def f(a, b, c):\n    for i in a:\n        b[-2] = b[-2] + i\n        b[1.5] = i\n        c.p.q.r = b[-2]\n        b['it\\'s'] = i\n        b[True] = i\n        b[None] = i\n    return b[-2], b[1.5], c.p.q.r, b['it\\'s'], b[True], b[None]\n"),
    ('qn_while', "def f(a, b, c):\n    while a:\n        b[-1] += a\n        b[(1, 2)] = a\n        b[1, -2] = a\n        b[b'x'] = a\n        b[-1j] = a\n        b[2j] = a\n        c[0].v = a\n        c[-3].w = b[-1]\n        c.u[-1] = a\n        a -= 1\n    return b[-1], b[(1, 2)], b[1, -2], b[b'x'], b[-1j], b[2j], c[0].v, c[-3].w, c.u[-1]\n"),
    ('qn_nested', "def f(a, b, c):\n    for i in a:\n        if i:\n            b[-1][0] = i\n            b[0][-1] = i\n            c.d[-1].e = i\n        while c:\n            b[-0] = i\n            b[+1] = i\n            b[~1] = i\n            b[- 7] = b[-7] + 1\n            c = c - 1\n    return b[-1][0], b[0][-1], c.d[-1].e, b[-0], b[-7]\n"),
    # the same user expression substituted into several template slots / several replace calls:
    # every occurrence must get its own nodes (literals included)
    ('share_chain', "def f(a, b, c):\n    x = a < 5 < b\n    y = 0 <= a + 1 < b * 2 <= c[0] < 100 != a\n    if a < 'm' < b or not 1 < c.v <= 2.5:\n        x = a is None is not b\n    while 0 < a < (10, 2)[0]:\n        a -= 1\n    assert a < -1 < b, 'msg'\n    z = [i for i in c if 0 < i < 9]\n    g = lambda q: 1 < q < 3\n    return x, y, z, g, a < f(1, k=2) < b, a in (1, 2) in c\n"),
    ('share_aug', "def f(a, b, c):\n    b[0] += 1\n    b[-1] -= a\n    c[0].v += 2\n    c[0].v[1] *= 3\n    b['k'][2] = b['k'][2] + 1\n    c[1].l.append(a)\n    c[2].m[3].append(4)\n    x = c.q.l.pop()\n    for i in a:\n        b[0] += i\n        c[0].v[1] **= 2\n    return b, c, x\n"),
    ('share_call', "def f(a, b, c):\n    x = g(1, a, *b[0], k=2, **c[1])\n    y = a.h(1)(2)[3](k=(4, 5))\n    if g(0) < g(1) < g(2):\n        x = y if g(3) else g(4)\n    for i in g(5, 6):\n        if i < 7 < x:\n            continue\n        if 8 > i > 9:\n            break\n        y = i\n    return x and 1 < y < 2 or g(10)\n"),
    # docstrings: to_code must show the loaded module's text (inspect.getsource + dedent)
    ('doc_one', 'def f(a, b, c):\n    """One line."""\n    if a:\n        return b\n    return c\n'),
    ('doc_multi4', 'def f(a, b, c):\n    """Summary.\n\n    Negative numbers and zero are returned unchanged; the rest is doubled.\n      deeper line\n    """\n    if a > 0:\n        a = a * 2\n    return a\n'),
    ('doc_multi2', 'def f(a, b, c):\n  """Summary of a 2-space file.\n\n  Args:\n    a: a number\n  """\n  while a > 0:\n    a = a - 1\n  return a\n'),
    ('doc_multi8', 'def f(a, b, c):\n        """Summary of an 8-space file.\n\n        continuation at eight\n            and twelve columns\n        """\n        for i in a:\n                b = b + i\n        return b\n'),
    ('doc_flush', 'def f(a, b, c):\n    """Table:\n\nx > 0   -> 2 * x\nx <= 0  -> x\n \\ttab and \\\\ backslash, \'quote\', "dq"\n"""\n    if a > 0:\n        return 2 * a\n    return a\n'),
    ('doc_nested', 'def f(a, b, c):\n    """Outer\n  shallow (2)\n            deep (12)\n    """\n    def g(x):\n        """Inner helper.\n\n      six columns\nflush left\n        """\n        if x:\n            return 1\n        return 2\n    class K:\n        def m(self):\n            """Method doc.\n  two\n            """\n            return 1\n    return g(a), K\n'),
    ('doc_deep', 'def make():\n    if True:\n        def f(a, b, c):\n            """Defined 8 columns deep.\n\n            twelve\n        eight\n            """\n            if a:\n                b = c\n            return b\n        return f\nf = make()\n'),
    # text-level significance: ast.unparse writes docstrings RAW (newlines and tabs unescaped), so what stands at
    # the end of a docstring line / on a whitespace-only line / at its first and last line is part of the tree's value
    # and has to survive unparse -> module file -> re-parse (source map) -> __doc__ unchanged
    ('doc_trail_blanks', 'def f(a, b, c):\n    """Scale a.  \n\n    Returns twice a. \n    """\n    if a > 0:\n        a = a * 2\n    return a\n'),
    ('doc_ws_only_lines', 'def f(a, b, c):\n    """Table:\n    \n      x | y\n  \n\t\n        \n    end"""\n    for i in b:\n        a = a + i\n    return a\n'),
    ('doc_tabs', 'def f(a, b, c):\n    def g(x):\n        """Helper.\t\n\tcolumn\tseparated\t\n        more \t """\n        if x:\n            return x + 1\n        return x\n    return g(a)\n'),
    ('doc_escaped_ws', 'def f(a, b, c):\n    "single  \\n \\t  \\n\\n end \\t"\n    while a:\n        a -= 1\n    return a\n'),
    ('doc_edges', 'def f(a, b, c):\n    """   \n   starts and ends with blank lines  \n\n   \n"""\n    class K:\n        def m(self, q):\n            \'\'\' method doc \n            \n            with "double" quotes\t\'\'\'\n            if q:\n                return 1\n            return 2\n    return K().m(a)\n'),
    ('doc_unicode', 'def f(a, b, c):\n    """R\u00e9sum\u00e9 \u2264 \u65e5\u672c\u8a9e \U0001f600 nbsp:\u00a0\n    \u00a0\n    ideographic space:\u3000\n    form feed:\x0c vt:\x0b sep:\\u2028 \\x85 nul:\\x00\n    """\n    s = "\u00e9  \\n \\t\\n" + """multi  \n  \n\tline\t\n"""\n    if a:\n        s = f"""{a}  \n\t{b} \n """\n    return s\n'),
    # entities whose function object carries attributes that steer `inspect` (functools.wraps /
    # update_wrapper set __wrapped__; __signature__; plain attributes): to_code must still show the loaded module
    ('ent_wraps', 'import functools\n\ndef logged(g):\n    @functools.wraps(g)\n    def wrapper(*args, **kwargs):\n        """Wrapper doc."""\n        if args:\n            return g(*args, **kwargs)\n        return None\n    return wrapper\n\n@logged\ndef f(a, b, c):\n    """User doc."""\n    if a:\n        return b\n    return c\n'),
    ('ent_update_wrapper', 'import functools\n\ndef user(a, b, c):\n    while a:\n        a -= 1\n    return b\n\ndef f(a, b, c):\n    for i in a:\n        b += i\n    return b, c\nfunctools.update_wrapper(f, user)\n'),
    ('ent_manual_wrapped', 'def other(x):\n    return x\n\ndef f(a, b, c):\n    if a:\n        b = c\n    return b\nf.__wrapped__ = other\nf.tag = {"k": 1}\nf.calls = 0\n'),
    ('ent_signature', 'import inspect\n\ndef other(p, q=1, *r):\n    return p\n\ndef f(a, b, c):\n    if a:\n        return b\n    return c\nf.__signature__ = inspect.signature(other)\nf.__doc__ = "changed later"\nf.__qualname__ = "Q.f"\n'),
    ('ent_double', 'import functools\n\ndef deco(g):\n    @functools.wraps(g)\n    def w1(a, b, c):\n        if a:\n            return g(a, b, c)\n        return c\n    return w1\n\n@deco\n@deco\ndef f(a, b, c):\n    return a if b else c\n'),
    ('printcall', 'def f(a, b, c):\n    print(a, len(b), range(c), sep="")\n    return int(a) + float(b) + abs(c)\n'),
]

# walrus: the shapes of known finding C17-namedexpr-ctx and neighbours that work
LISTS_SHAPES = [
    ('l_target', 'def f(a, b, c):\n    [p, *q], r = c\n    for [x, y] in a:\n        b = x\n    return p, q, r, b\n'),
    ('l_nested_store', 'def f(a, b, c):\n    c[a][1] = b\n    c[0][a] += 1\n    return c\n'),
]

WALRUS = [
    ('w_tuple', 'def f(a, b, c):\n    return (a, (n := 4), n)\n'),
    ('w_while_attr', 'def f(a, b, c):\n    while (n := a).x:\n        a = n.y\n    return a\n'),
    ('w_list', 'def f(a, b, c):\n    x = [(m := a), m]\n    return x\n'),
    ('w_call', 'def f(a, b, c):\n    return g((n := a), n)\n'),
    ('w_cmp', 'def f(a, b, c):\n    if (n := a) > 1:\n        return n\n    return b\n'),
    ('w_sub', 'def f(a, b, c):\n    if a[(i := b)]:\n        return i\n    return c\n'),
    ('w_ret_list', 'def f(a, b, c):\n    for x in a:\n        if x:\n            return [(k := x), k]\n    return b\n'),
    ('w_star', 'def f(a, b, c):\n    return (*(q := a), q)\n'),
]


# random docstrings whose value depends on text-level detail (what ast.unparse writes raw): blanks / tabs at the
# end of a line, whitespace-only lines, blank first / last lines, quotes, non-ASCII, escapes.  A backslash directly
# before a line end is left out (inside a string it is C15's known finding c15-unfold-in-string, not C17).
DOC_LINES = ['Summary.', 'Args:', '  a: a number', 'x | y', '>>> f(1, 2, 3)', '# not a comment', 'it\'s "quoted"', 'col\tcol',
             'def g(): pass', 'return a', 'two "" quotes', 'r\u00e9sum\u00e9 \u2264 \u65e5\u672c', ':param a: \\d \\ x', 'ends with quote"', "''",
             '\\x00 \\u2028 \\N{BULLET}', '# coding=latin-1', 'a' * 90, '-' * 3, '\\\\', '{a} {{b}}', '%s %(k)d']
DOC_TRAIL = ['', '', '', ' ', '  ', '\t', ' \t', '\t ', '    ', '\x0c']
DOC_BODIES = [
    ['if a > 0:', '@a = a * 2', 'return a'],
    ['while a:', '@a -= 1', '@if a == b:', '@@break', 'return a, b'],
    ['for i in b:', '@if i:', '@@continue', '@c = c + i', 'return c'],
    ['x = a if b else c', 'return [x, *b]'],
    ['return a'],
]


def _rand_doc(rnd, ind, q):
    """text of a docstring literal (delimiter q) standing at indentation `ind`; None if it would not be a valid literal"""
    n = rnd.choice([1, 2, 3, 3, 4, 6])
    lines = []
    for i in range(n):
        k = rnd.random()
        if k < 0.25 and i > 0:
            body = rnd.choice(['', ind, ind + '  ', ' ', '\t', ind[:-1]])       # whitespace-only line
        else:
            lead = '' if i == 0 else rnd.choice([ind, ind, ind + '  ', '', '\t', ind[:len(ind) // 2]])
            content = rnd.choice(DOC_LINES)
            if len(q) == 1:
                content = content.replace(q, '\\' + q)      # (lone quotes are fine inside a triple-quoted literal)
            body = lead + content + rnd.choice(DOC_TRAIL)
        lines.append(body)
    if rnd.random() < 0.3:
        lines.insert(0, rnd.choice(['', ' ', '   ']))
    if rnd.random() < 0.4:
        lines.append(rnd.choice(['', ind, ind + ' ', '\t']))
    if len(q) == 1:
        text = '\\n'.join(l.replace('\t', '\\t').replace('\x0c', '\\f') for l in lines)
    else:
        text = '\n'.join(lines)
    if text.endswith(q[0]) or text.endswith('\\') and not text.endswith('\\\\'):
        text += ' '
    lit = q + text + q
    try:
        v = ast.literal_eval(lit)
    except (SyntaxError, ValueError):
        return None
    if not isinstance(v, str) or '\\\n' in lit:
        return None
    return lit


def doc_stream(rnd, n):
    out = []
    tries = 0
    while len(out) < n and tries < n * 8:
        tries += 1
        unit = rnd.choice(['  ', '    ', '    ', '        '])
        where = rnd.choice(['top', 'top', 'nested', 'method', 'both'])
        body = [l.replace('@', unit) for l in rnd.choice(DOC_BODIES)]

        def doc(level):
            return _rand_doc(rnd, unit * level, rnd.choice(['"""', '"""', "'''", '"', "'"]))
        lines = ['def f(a, b, c):']
        docs = []
        if where in ('top', 'both'):
            docs.append(doc(1))
            lines.append(unit + '%s')
        if where in ('nested', 'both'):
            docs.append(doc(2))
            lines += [unit + 'def g(a, b, c):', unit * 2 + '%s'] + [unit * 2 + l for l in body]
            body = ['return g(a, b, c)']
        elif where == 'method':
            docs.append(doc(3))
            lines += [unit + 'class K:', unit * 2 + 'def m(self, a, b, c):', unit * 3 + '%s'] + [unit * 3 + l for l in body]
            body = ['return K().m(a, b, c)']
        lines += [unit + l for l in body]
        if any(d is None for d in docs):
            continue
        src = '\n'.join(lines).replace('%s', '\0') + '\n'
        for d in docs:
            src = src.replace('\0', d, 1)
        try:
            compile(src, '<c17-doc>', 'exec')
        except (SyntaxError, ValueError):
            continue
        out.append(src)
    return out


def gen_programs(rnd, tier):
    out = []
    for name, src in HAND:
        out.append(('hand:' + name, src))
    for name, src in WALRUS:
        out.append(('walrus:' + name, src))
    for name, src in LISTS_SHAPES:
        out.append(('lists:' + name, src))
    streams = [
        ('main', dict(reads='safe', max_stmts=12, loop_else=False)),
        ('bool', dict(reads='safe', boolops=True, comprehension=True, max_stmts=10, loop_else=False)),
        ('nested', dict(reads='safe', nested_def=True, global_=True, max_stmts=10, loop_else=False)),
        ('mut', dict(reads='any', mutation=True, delete=True, max_stmts=10, loop_else=False)),
        ('notry', dict(reads='safe', try_=False, with_=False, max_stmts=14, loop_else=False)),
    ]
    per = 6 if tier == 'quick' else 40
    for sname, kw in streams:
        for i in range(per):
            try:
                src = progs.gen_function(rnd, progs.Opts(**kw))
            except Exception:   # generator option not supported in this combination
                continue
            out.append(('gen:%s:%d' % (sname, i), src))
    # random chained comparisons / repeated-slot shapes with literals inside the operands
    atoms = ['a', 'b', '5', '-1', "'s'", 'c[0]', 'c.v', 'g(1)', 'a + 1', '(2, 3)[0]', 'b[a][7]', 'None', '1.5', 'c[0].w[2]']
    cmps = ['<', '<=', '>', '>=', '==', '!=', 'in', 'not in']
    for i in range(6 if tier == 'quick' else 40):
        def chain():
            n = rnd.randint(2, 5)
            parts = [rnd.choice(atoms)]
            for _ in range(n):
                parts += [rnd.choice(cmps), rnd.choice(atoms)]
            return ' '.join(parts)
        lines = ['def f(a, b, c):', '    x = %s' % chain()]
        lines += ['    %s %s:' % (rnd.choice(['if', 'while']), chain()), '        a = a - 1', '        y = %s' % chain(),
                  '        if %s:' % chain(), '            break' if lines[-1].startswith('    while') else '            x = 0']
        tgt = rnd.choice(['b[0]', 'c[0].v', 'c[1].v[2]', "b['k'][3]", 'c[2].l'])
        lines += ['    %s %s= %s' % (tgt, rnd.choice(['+', '-', '*', '']), rnd.choice(atoms)),
                  '    return x, g(%s), %s' % (chain(), chain())]
        out.append(('gen:share:%d' % i, '\n'.join(lines) + '\n'))
    # random composite state variables: literal keys qual_names can turn into QN literals
    keys = ['-1', '0', '-2', "'k'", '-1.5', '2.5', '(1, 2)', '(0, -1)', 'True', 'None', "b'y'", '-3j', '1j', '-0', '+2', "''", '10**2', '-(1)', '- 4']
    for i in range(6 if tier == 'quick' else 40):
        lines = ['def f(a, b, c):']
        used = []

        def target():
            base = rnd.choice(['b', 'c', 'b.m', 'c.p.q'])
            k = rnd.random()
            if k < 0.65:
                t = '%s[%s]' % (base, rnd.choice(keys))
            elif k < 0.8:
                t = '%s[%s][%s]' % (base, rnd.choice(keys), rnd.choice(keys))
            elif k < 0.9:
                t = '%s[%s].z' % (base, rnd.choice(keys))
            else:
                t = base + '.w'
            used.append(t)
            return t

        def body(ind, depth):
            for _ in range(rnd.randint(1, 3)):
                c_ = rnd.random()
                if depth < 2 and c_ < 0.35:
                    hd = rnd.choice(['if a:', 'for i in a:', 'while a:'])
                    lines.append(ind + hd)
                    body(ind + '    ', depth + 1)
                    if hd.startswith('if') and rnd.random() < 0.5:
                        lines.append(ind + 'else:')
                        body(ind + '    ', depth + 1)
                elif c_ < 0.8 or not used:
                    t = target()
                    lines.append(ind + rnd.choice(['%s = a', '%s += 1', '%s = %s + 1']).replace('%s', t))
                else:
                    lines.append(ind + 'a = %s' % rnd.choice(used))
        hd = rnd.choice(['if a:', 'for i in a:', 'while a:'])
        lines.append('    ' + hd)
        body('        ', 1)
        lines.append('    return (%s,)' % ', '.join(dict.fromkeys(used)))
        out.append(('gen:qn:%d' % i, '\n'.join(lines) + '\n'))
    # random walrus programs (a separate stream: known-finding neighbourhood)
    for i in range(3 if tier == 'quick' else 20):
        v = rnd.choice(['n', 'k', 'w'])
        inner = rnd.choice(['a', 'a + 1', 'g(b)', 'a[0]'])
        wrap = rnd.choice(['(b, (%s := %s), %s)', '[(%s := %s)][0] + %s', 'g((%s := %s)) + %s', '((%s := %s), c)[0].x + %s',
                           '{1: (%s := %s)}[1] + %s', '(lambda: 0)() + (%s := %s) + %s'])
        st = rnd.choice(['return %s', 'x = %s\n    return x', 'if %s:\n        return 1\n    return 2'])
        out.append(('walrus:rnd%d' % i, 'def f(a, b, c):\n    ' + st % (wrap % (v, inner, v)) + '\n'))
    # random docstrings with text-level detail (own generator state: the other streams keep their programs)
    drnd = random.Random(rnd.random())
    for i, src in enumerate(doc_stream(drnd, 12 if tier == 'quick' else 80)):
        out.append(('gen:doc:%d' % i, src))
    return out


def option_sets(Feature, tier):
    sets = [(True, None), (True, Feature.ALL), (False, Feature.LISTS), (False, (Feature.ASSERT_STATEMENTS, Feature.BUILTIN_FUNCTIONS))]
    if tier != 'quick':
        sets += [(True, Feature.EQUALITY_OPERATORS), (False, None), (True, (Feature.LISTS, Feature.NAME_SCOPES))]
    return sets


# ----------------------------------------------------------------------------- tree oracles (Python side)
EXEMPT = tr.EXEMPT


def walk_nodes(node):
    """every non-singleton node occurrence, following fields like ast.walk but WITHOUT
    de-duplication (a shared object is met once per occurrence)."""
    stack = [node]
    seen_guard = 0
    while stack:
        n = stack.pop()
        seen_guard += 1
        if seen_guard > 2000000:
            raise RuntimeError('cyclic tree')
        yield n
        for _, c in tr.children_of(n):
            stack.append(c)


def duplicate_nodes(roots):
    seen = {}
    dups = []
    for r in roots:
        for n in walk_nodes(r):
            if id(n) in seen:
                dups.append(n)
            seen[id(n)] = n
    return dups


POS_CONST = {('NamedExpr', 'target'): ast.Store, ('comprehension', 'target'): ast.Store,
             ('Assign', 'targets'): ast.Store, ('Delete', 'targets'): ast.Del,
             ('For', 'target'): ast.Store, ('AsyncFor', 'target'): ast.Store, ('AugAssign', 'target'): ast.Store,
             ('AnnAssign', 'target'): ast.Store, ('withitem', 'optional_vars'): ast.Store}
POS_INHERIT = {('Tuple', 'elts'), ('List', 'elts'), ('Starred', 'value')}


def ctx_violations(root):
    """[(node, expected ctx class, parent, field)] -- mirror of Tree.ctx_ok (validated against
    both the Coq definition and CPython's validator by the correspondence)."""
    bad = []
    stack = [(root, ast.Load, None, None)]
    while stack:
        n, c, parent, fld = stack.pop()
        cname = type(n).__name__
        if cname in tr.CTX_KINDS:
            if type(getattr(n, 'ctx', None)) is not c:
                bad.append((n, c, parent, fld))
        elif c is not ast.Load:
            bad.append((n, c, parent, fld))
        for f, ch in tr.children_of(n):
            if (cname, f) in POS_INHERIT:
                cc = c
            else:
                cc = POS_CONST.get((cname, f), ast.Load)
            stack.append((ch, cc, n, f))
    return bad


def _cpython_ctx_verdict(root_stmts):
    m = ast.Module(body=list(root_stmts), type_ignores=[])
    try:
        ast.fix_missing_locations(m)
        compile(m, '<c17>', 'exec')
        return True
    except ValueError as e:
        if 'context' in str(e):
            return False
        return None
    except (SyntaxError, TypeError, RecursionError):
        return None


def cpython_ctx_verdict(root_stmts):
    """True / False (CPython's validator complains about a context) / None (other problem).
    Runs in a forked child: CPython 3.12 can abort on hand-built trees its validator lets through."""
    r, w = os.pipe()
    pid = os.fork()
    if pid == 0:
        code = b'n'
        try:
            os.close(r)
            v = _cpython_ctx_verdict(root_stmts)
            code = b't' if v is True else b'f' if v is False else b'n'
        finally:
            try:
                os.write(w, code)
            finally:
                os._exit(0)
    os.close(w)
    data = os.read(r, 1)
    os.close(r)
    os.waitpid(pid, 0)
    return {b't': True, b'f': False}.get(data)


def is_bad_walrus_target(parent, fld, node):
    return isinstance(parent, ast.NamedExpr) and fld == 'target'


def find_bad_walrus(root):
    """NamedExpr nodes whose target is not a Store Name (ctx overridden to Load by the adjuster,
    possibly already wrapped into ag__.ld(...) by the variables converter)."""
    out = []
    for n in walk_nodes(root):
        if isinstance(n, ast.NamedExpr):
            t = n.target
            if not (isinstance(t, ast.Name) and isinstance(t.ctx, ast.Store)):
                out.append(n)
    return out


def repair_walrus(root):
    """copy of the tree with every damaged walrus target restored; None if not restorable."""
    r = copy.deepcopy(root)
    for n in find_bad_walrus(r):
        t = n.target
        if isinstance(t, ast.Name):
            n.target = ast.Name(id=t.id, ctx=ast.Store())
        elif (isinstance(t, ast.Call) and ast.unparse(t.func) == 'ag__.ld' and len(t.args) == 1
              and isinstance(t.args[0], ast.Name)):
            n.target = ast.Name(id=t.args[0].id, ctx=ast.Store())
        else:
            return None
    return r


def find_new_list_targets(root):
    """ag__.new_list(...) calls standing in a Store/Del position (the lists converter rewrote a
    list display that is an assignment target)."""
    out = []
    for n, c, parent, fld in ctx_violations(root):
        if (c is not ast.Load and isinstance(n, ast.Call) and ast.unparse(n.func) == 'ag__.new_list'
                and len(n.args) == 1 and isinstance(n.args[0], ast.List)):
            out.append(n)
    return out


def repair_new_list_targets(root):
    """copy of the tree with every such call replaced by the list display it wraps, as a target."""
    r = copy.deepcopy(root)

    def store(t):
        if isinstance(t, ast.Call) and ast.unparse(t.func) == 'ag__.ld' and len(t.args) == 1:
            t = t.args[0]
        if isinstance(t, ast.Call) and ast.unparse(t.func) == 'ag__.new_list' and len(t.args) == 1:
            t = t.args[0]
        if hasattr(t, 'ctx'):
            t.ctx = ast.Store()
        if isinstance(t, (ast.Tuple, ast.List)):
            t.elts = [store(e) for e in t.elts]
        elif isinstance(t, ast.Starred):
            t.value = store(t.value)
        return t

    class Fix(ast.NodeTransformer):
        def visit_Call(self, n):
            if any(n is b for b in bad):
                return store(n)
            return self.generic_visit(n)
    bad = find_new_list_targets(r)
    return Fix().visit(r)


def _is_item_store(st):
    """`ag__.get_item(...) = ag__.set_item(...)` / `... = ag__.update_item_with_op(...)`: what the
    slices converter makes of a store into a nested subscript (c[i][j] = v) with Feature.LISTS."""
    return (isinstance(st, ast.Assign) and len(st.targets) == 1 and isinstance(st.targets[0], ast.Call)
            and ast.unparse(st.targets[0].func) == 'ag__.get_item'
            and isinstance(st.value, ast.Call) and ast.unparse(st.value.func) in ('ag__.set_item', 'ag__.update_item_with_op'))


def find_nested_stores(root):
    return [n for n in walk_nodes(root) if _is_item_store(n)]


def repair_nested_stores(root):
    r = copy.deepcopy(root)
    for n in find_nested_stores(r):
        # keep every node in the tree (sharing between target and value must stay visible)
        n.value = ast.Tuple(elts=[n.targets[0], n.value], ctx=ast.Load())
        n.targets = [ast.Name(id='c17_discard', ctx=ast.Store())]
    return r


REPAIRS = [(KNOWN_WALRUS, find_bad_walrus, repair_walrus),
           (KNOWN_LIST_TARGET, find_new_list_targets, repair_new_list_targets),
           (KNOWN_NESTED_STORE, find_nested_stores, repair_nested_stores)]


def classify_tree(root, parser):
    """ids of the known findings that together explain every tree-level failure, or None."""
    ids = []
    cur = root
    for kid, find, repair in REPAIRS:
        if find(cur):
            cur = repair(cur)
            if cur is None:
                return None
            ids.append(kid)
    if ids and not tree_checks(cur, parser):
        return tuple(ids)
    return None


def tree_checks(root, parser):
    """the tree-level part of the property on one tree; -> list of (what, detail)"""
    fails = []
    d = duplicate_nodes([root])
    if d:
        fails.append(('node object occurs twice in the transformed tree',
                      '%d shared occurrence(s), first: %s' % (len(d), _short(d[0]))))
    cv = ctx_violations(root)
    if cv:
        n, c, parent, fld = cv[0]
        fails.append(('expression context does not match its position',
                      '%d node(s), first: %s in %s.%s has %s, position requires %s' % (
                          len(cv), _short(n), type(parent).__name__, fld,
                          type(getattr(n, 'ctx', None)).__name__, c.__name__)))
    try:
        text = parser.unparse(root, include_encoding_marker=False)
    except Exception as e:    # noqa
        fails.append(('unparse of the transformed tree raised', '%s: %s' % (type(e).__name__, e)))
        return fails
    try:
        compile(text, '<c17-generated>', 'exec')
    except Exception as e:    # noqa
        fails.append(('unparsed transformed tree does not compile', '%s: %s' % (type(e).__name__, e)))
        return fails
    back = ast.parse(text).body
    want = cdump(root)
    got = cdump(back[0]) if len(back) == 1 else '[%s]' % ', '.join(cdump(b) for b in back)
    if want != got:
        fails.append(('re-parsing the unparsed text gives a different tree', _first_diff(want, got)))
    return fails


def cdump(n):
    """ast.dump without malt's annotation field, attributes and the None / [] / missing distinction."""
    if isinstance(n, ast.AST):
        parts = []
        for f in n._fields:
            if f.startswith('__'):
                continue
            parts.append('%s=%s' % (f, cdump(getattr(n, f, None))))
        return '%s(%s)' % (type(n).__name__, ', '.join(parts))
    if isinstance(n, (list, tuple)):
        if not n:
            return '-'
        return '[%s]' % ', '.join(cdump(x) for x in n)
    if n is None:
        return '-'
    return repr(n)


def _short(n):
    try:
        s = ast.unparse(n)
    except Exception:   # noqa
        s = _safe_unparse(copy.deepcopy(n))
    return '%s `%s`' % (type(n).__name__, s[:60])


def _first_diff(a, b):
    i = 0
    while i < min(len(a), len(b)) and a[i] == b[i]:
        i += 1
    return 'transformed: ...%s... / re-parsed: ...%s...' % (a[max(0, i - 60):i + 80], b[max(0, i - 60):i + 80])


# ----------------------------------------------------------------------------- monitors
class Monitor(object):
    """records every templates.replace call (parsed template before mutation, replacements,
    result) and every load_ast call."""

    def __init__(self):
        self.calls = []
        self.stack = []
        self.loads = []
        self.enabled = True
        self.max_nodes = 260

    def install(self):
        from malt.pyct import templates, parser, loader
        self.templates, self.parser, self.loader = templates, parser, loader
        self.orig_replace = templates.replace
        self.orig_parse = parser.parse
        self.orig_load_ast = loader.load_ast
        self.orig_load_source = loader.load_source
        self.cur_load = None
        mon = self

        def replace(template, **replacements):
            if not mon.enabled or not isinstance(template, str):
                return mon.orig_replace(template, **replacements)
            conv = {}
            for k, v in replacements.items():
                conv[k] = templates._convert_to_ast(v)
            rec = {'template': template, 'repl': conv, 'tpl_term': None, 'ids': tr.Ids(), 'skip': None}
            mon.stack.append(rec)
            try:
                result = mon.orig_replace(template, **conv)
            finally:
                mon.stack.pop()
            rec['result'] = result
            # later passes mutate the returned nodes in place: export now
            try:
                if rec.get('skip') or not rec.get('tpl_term'):
                    raise tr.Untranslatable('skipped')
                if sum(1 for n in result for _ in walk_nodes(n)) > mon.max_nodes:
                    raise tr.Untranslatable('large')
                rec['res_terms'] = [tr.to_coq(n, rec['ids']) for n in result]
                rec['enodup'] = not duplicate_nodes(result)
                cv = [v for n in result for v in ctx_violations(n)]
                rec['ectx'] = not cv
                rec['bad_ctx'] = _short(cv[0][0]) if cv else None
                rec['res_text'] = '\n'.join(_safe_unparse(copy.deepcopy(n)) for n in result)[:600]
            except tr.Untranslatable as e:
                rec['res_terms'] = None
                if not rec.get('skip'):
                    rec['skip'] = str(e)
            mon.calls.append(rec)
            return result

        def parse(src, preamble_len=0, single_node=True):
            nodes = mon.orig_parse(src, preamble_len=preamble_len, single_node=single_node)
            if mon.enabled and mon.stack and mon.stack[-1]['tpl_term'] is None and not single_node:
                rec = mon.stack[-1]
                try:
                    rec['tpl_nodes'] = list(nodes)
                    rec['tpl_term'] = tr.to_coq(tr.module_of(nodes), rec['ids'])
                    rec['tpl_dump'] = [ast.dump(n) for n in nodes]
                    rec['repl_terms'] = export_repls(rec['repl'], rec['ids'], rec['tpl_nodes'])
                    rec['n0'] = rec['ids'].next
                except tr.Untranslatable as e:
                    rec['tpl_term'] = ''
                    rec['skip'] = str(e)
            return nodes

        def load_ast(nodes, indentation='  ', include_source_map=False, delete_on_exit=True):
            rec = {'nodes': nodes, 'module': None, 'source': None, 'written': None}
            if mon.enabled:
                mon.loads.append(rec)
            outer, mon.cur_load = mon.cur_load, rec
            try:
                res = mon.orig_load_ast(nodes, indentation=indentation, include_source_map=include_source_map,
                                        delete_on_exit=delete_on_exit)
            finally:
                mon.cur_load = outer
            rec['module'], rec['source'] = res[0], res[1]
            return res

        def load_source(source, *args, **kwargs):
            # the text load_ast really writes to the module file (known also when load_ast raises later on)
            if mon.cur_load is not None and mon.cur_load['written'] is None:
                mon.cur_load['written'] = source
            return mon.orig_load_source(source, *args, **kwargs)

        templates.replace = replace
        parser.parse = parse
        loader.load_ast = load_ast
        loader.load_source = load_source

    def uninstall(self):
        self.templates.replace = self.orig_replace
        self.parser.parse = self.orig_parse
        self.loader.load_ast = self.orig_load_ast
        self.loader.load_source = self.orig_load_source


def export_repls(conv, ids, tpl_nodes=None):
    """replacement dict -> [(key, [terms])]; raises Untranslatable on shapes outside the model."""
    out = []
    for k, v in conv.items():
        if v is None:
            items = []
        elif isinstance(v, ast.AST):
            items = [v]
        elif isinstance(v, list):
            items = list(v)
        elif isinstance(v, tuple):
            # a tuple behaves like a list for Name / keyword placeholders; visit_arg returns it as is
            if tpl_nodes is not None and any(isinstance(x, ast.arg) and x.arg == k for t in tpl_nodes for x in ast.walk(t)):
                raise tr.Untranslatable('untranslatable: tuple replacement for an arg placeholder')
            items = list(v)
        else:
            raise tr.Untranslatable('untranslatable: replacement of type %s' % type(v).__name__)
        terms = []
        for it in items:
            if not isinstance(it, ast.AST):
                raise tr.Untranslatable('untranslatable: replacement element of type %s' % type(it).__name__)
            terms.append(tr.to_coq(it, ids))
        out.append((k, terms))
    return out


def icase_of(idx, rec):
    """Coq icase term for a recorded call, or None."""
    if rec.get('skip') or not rec.get('tpl_term') or rec.get('res_terms') is None:
        return None
    R = '[%s]' % '; '.join('(%s, [%s])' % (tr.coq_str(k), '; '.join(ts)) for k, ts in rec['repl_terms'])
    return '(%d, %d, %s, %s, [%s], %s, %s)' % (idx, rec['n0'], R, rec['tpl_term'], '; '.join(rec['res_terms']),
                                              vlib.coq_bool(rec['enodup']), vlib.coq_bool(rec['ectx']))


# ----------------------------------------------------------------------------- synthetic inputs
ATOMS = ['a', 'b', 'x.y', 'a[0]', 'f(a)', '1', "'s'", 'a.b.c', 'a[i].z', 'f(a, k=b)', 'x[1:2]']


def rand_expr(rnd, depth=0):
    c = rnd.random()
    if depth >= 3 or c < 0.25:
        return rnd.choice(ATOMS)
    e = lambda: rand_expr(rnd, depth + 1)   # noqa
    forms = [
        lambda: '(%s, %s)' % (e(), e()),
        lambda: '[%s, %s]' % (e(), e()),
        lambda: '(%s, *%s)' % (e(), e()),
        lambda: '%s.attr' % rnd.choice(['a', 'f(%s)' % e(), '(%s)[0]' % e()]),
        lambda: '(%s)[%s]' % (rnd.choice(['a', 'b.c']), e()),
        lambda: '%s + %s' % (e(), e()),
        lambda: 'f(%s, *%s, k=%s)' % (e(), e(), e()),
        lambda: '{%s: %s}' % (e(), e()),
        lambda: '(lambda q: %s)' % e(),
        lambda: '[%s for t in %s if %s]' % (e(), e(), e()),
        lambda: '(n := %s)' % e(),
        lambda: '(%s if %s else %s)' % (e(), e(), e()),
        lambda: '(%s < %s)' % (e(), e()),
        lambda: 'not %s' % e(),
        lambda: "f'{%s}'" % rnd.choice(['a', 'b.c', 'a[0]']),
        lambda: '{%s, %s}' % (e(), e()),
        lambda: '(%s and %s)' % (e(), e()),
    ]
    return rnd.choice(forms)()


def rand_tree(rnd, scramble=True):
    src = rand_expr(rnd)
    try:
        t = ast.parse(src, mode='eval').body
    except SyntaxError:
        t = ast.parse('a', mode='eval').body
    if scramble:
        for n in ast.walk(t):
            if type(n).__name__ in tr.CTX_KINDS and rnd.random() < 0.25:
                n.ctx = rnd.choice([ast.Load(), ast.Store(), ast.Del(), None])
    return src, t


SYN_TEMPLATES = [
    ('tgt = val', ['tgt', 'val']),
    ('tgt.attr = val\nreturn tgt', ['tgt', 'val', 'attr']),
    ('def fn(args):\n  body\n  return val', ['fn', 'args', 'body', 'val']),
    ('del tgt', ['tgt']),
    ('for tgt in val:\n  body', ['tgt', 'val', 'body']),
    ('f(a1, kw=1, kw2=val)', ['kw', 'val', 'a1']),
    ('lambda args: (lambda args: val)', ['args', 'val']),
    ('x = [tgt for tgt in val]', ['tgt', 'val']),
    ('with val as tgt:\n  body', ['tgt', 'val', 'body']),
    ('(tgt := val)', ['tgt', 'val']),
    ('tgt += val', ['tgt', 'val']),
    ('body', ['body']),
    ('val', ['val']),
    ('tgt[val] = val.attr(val)', ['tgt', 'val', 'attr']),
]


def rand_replacement(rnd, key):
    k = rnd.random()
    if key in ('fn', 'attr'):
        return rnd.choice(['newname', 'other'])
    if key in ('args', 'a1') and k < 0.7:
        c = rnd.random()
        if c < 0.3:
            return 'p'
        if c < 0.6:
            return [ast.Name('p', ctx=None), ast.Name('q', ctx=ast.Load())]
        if c < 0.8:
            return [ast.arg(arg='p', annotation=None), ast.Name('q', ctx=ast.Load())]
        return ast.arg(arg='r', annotation=None)
    if key == 'kw':
        return rnd.choice([ast.keyword(arg='z', value=ast.Constant(1)),
                           [ast.keyword(arg='z', value=ast.Name('a', ctx=ast.Load())), ast.keyword(arg=None, value=ast.Name('kws', ctx=ast.Load()))]])
    if key == 'body':
        n = rnd.randint(0, 3)
        return [ast.parse(rnd.choice(['x = 1', 'return a', 'a.b = c', 'pass', 'f(a)', '(p, q) = r'])).body[0] for _ in range(n)]
    if k < 0.2:
        return rnd.choice(['v', 'w'])
    if k < 0.3:
        return [rand_tree(rnd, scramble=False)[1] for _ in range(rnd.randint(0, 2))]
    return rand_tree(rnd, scramble=rnd.random() < 0.3)[1]


# ----------------------------------------------------------------------------- the run
def generate():
    text, _, _ = tr.translate(vlib.REPO)
    vlib.write_if_changed(os.path.join(vlib.COQ, 'Generated', 'C17_gen.v'), text)


def _load_module(src, name, tmpdir):
    p = os.path.join(tmpdir, name + '.py')
    with open(p, 'w', encoding='utf-8') as f:
        f.write(src)
    spec = importlib.util.spec_from_file_location(name, p)
    m = importlib.util.module_from_spec(spec)
    spec.loader.exec_module(m)
    return m


def _find_code(code, name, firstlineno):
    for c in code.co_consts:
        if isinstance(c, types.CodeType):
            if c.co_name == name and c.co_firstlineno == firstlineno:
                return c
            r = _find_code(c, name, firstlineno)
            if r is not None:
                return r
    return None


def _code_sig(c):
    consts = tuple(_code_sig(k) if isinstance(k, types.CodeType) else repr(k) for k in c.co_consts)
    return (c.co_code, c.co_names, c.co_varnames, c.co_freevars, c.co_cellvars, c.co_firstlineno, consts)


def run_pipeline(run, programs, tmpdir, mon):
    """-> list of failures: dict(program, options, what, detail, classify)"""
    from malt.impl import api
    from malt.core import converter
    from malt.pyct import parser

    captured = []

    class Capture(api.PyToPy):
        def transform_ast(self, node, ctx):
            res = super(Capture, self).transform_ast(node, ctx)
            captured.append(res)
            return res

    failures = []
    stats = {'converted': 0, 'conversion_refused': 0, 'load_failed': 0, 'trees': 0, 'nodes': 0}
    osets = option_sets(converter.Feature, run.tier)
    orig_transpiler = api._TRANSPILER
    try:
        for pi, (pname, src) in enumerate(programs):
            for oi, (recursive, feats) in enumerate(osets):
                if pname.startswith('gen:') and oi >= 2 and run.tier == 'quick':
                    continue
                api._TRANSPILER = Capture()
                del captured[:]
                del mon.loads[:]
                modname = 'c17_prog_%d_%d' % (pi, oi)
                try:
                    m = _load_module(src, modname, tmpdir)
                except Exception as e:     # the program itself is not valid Python: generator problem
                    run.note('program %s does not load: %s' % (pname, e))
                    break
                fn = m.f
                fname = '%s / recursive=%r optional_features=%r' % (pname, recursive, feats)
                run.count()
                try:
                    conv = api.to_graph(fn, recursive=recursive, experimental_optional_features=feats)
                    err = None
                except Exception as e:    # noqa
                    conv = None
                    err = e
                if not captured:
                    # refused before / inside the passes: not a *successful conversion*, outside C17
                    stats['conversion_refused'] += 1
                    continue
                root = captured[0]
                stats['trees'] += 1
                stats['nodes'] += sum(1 for _ in walk_nodes(root))
                run.nontriv(cdump(root))
                local = []
                for what, detail in tree_checks(root, parser):
                    local.append((what, detail))
                for ld in mon.loads:      # the wrapped module handed to the loader
                    nodes = ld['nodes'] if isinstance(ld['nodes'], (list, tuple)) else [ld['nodes']]
                    d = duplicate_nodes(nodes)
                    if d:
                        local.append(('node object occurs twice in the tree handed to load_ast', _short(d[0])))
                    cv = [v for n in nodes for v in ctx_violations(n)]
                    if cv and not any(w == 'expression context does not match its position' for w, _ in local):
                        local.append(('expression context does not match its position (load_ast nodes)', _short(cv[0][0])))
                    if not local:
                        # the wrapped module is what create_source_map walks in lock-step with its re-parse
                        for n in nodes:
                            for what, detail in tree_checks(n, parser):
                                local.append((what + ' (nodes handed to load_ast)', detail))
                    if not local and ld.get('written') is not None:
                        # ... and the text the loader really wrote (whatever it did to the unparsed text on the
                        # way) must still denote those nodes: it is what gets imported and what to_code shows
                        local += written_text_checks(nodes, ld['written'])
                if err is not None:
                    stats['load_failed'] += 1
                    local.append(('conversion failed after transform_ast returned (tree / printed form inconsistent)',
                                  '%s: %s' % (type(err).__name__, str(err)[:300])))
                else:
                    stats['converted'] += 1
                    local += loaded_checks(api, fn, conv, root, recursive, feats, mon)
                if local:
                    cls = classify_tree(root, parser)
                    for what, detail in local:
                        failures.append({'program': pname, 'source': src, 'recursive': recursive,
                                         'optional_features': fmt_feats(feats), 'what': what, 'detail': detail,
                                         'classify': cls,
                                         'transformed': _safe_unparse(root)})
                if len(run.samples) < 4 and pname.startswith('gen:'):
                    run.sample({'program': src, 'options': fname.split(' / ')[1], 'generated_lines': len(_safe_unparse(root).splitlines())})
    finally:
        api._TRANSPILER = orig_transpiler
    run.extra['pipeline'] = stats
    return failures


def written_text_checks(nodes, written):
    """the text handed to load_source, re-parsed by CPython, against the nodes handed to load_ast"""
    try:
        back = ast.parse(written).body
    except (SyntaxError, ValueError) as e:
        return [('text written by the loader for the module does not parse', '%s: %s' % (type(e).__name__, e))]
    want = '[%s]' % ', '.join(cdump(n) for n in nodes)
    got = '[%s]' % ', '.join(cdump(b) for b in back)
    if want != got:
        return [('text written by the loader for the module does not denote the tree handed to load_ast',
                 _first_diff(want, got))]
    return []


def fmt_feats(feats):
    if feats is None:
        return 'None'
    if isinstance(feats, tuple):
        return '(%s,)' % ', '.join('Feature.' + f.name for f in feats)
    return 'Feature.' + feats.name


def _safe_unparse(root):
    try:
        return ast.unparse(ast.fix_missing_locations(root))
    except Exception as e:   # noqa
        return '<unparse failed: %s>' % e


def loaded_checks(api, fn, conv, root, recursive, feats, mon):
    """to_code(f) == the text in the module file that was actually loaded == what runs."""
    out = []
    module = getattr(conv, 'ag_module', None)
    if module is None:
        return [('converted function has no ag_module', '')]
    path = module.__file__
    try:
        with open(path, encoding='utf-8') as f:
            file_text = f.read()
    except OSError as e:
        return [('module file of the converted function is unreadable', str(e))]
    lds = [ld for ld in mon.loads if ld['module'] is module]
    if len(lds) != 1:
        out.append(('converted function comes from a module that was not loaded by this conversion', path))
    elif lds[0]['source'] != file_text:
        out.append(('module file differs from the source load_ast produced', path))
    try:
        code = api.to_code(fn, recursive=recursive, experimental_optional_features=feats)
    except Exception as e:    # noqa
        return out + [('to_code raised although to_graph succeeded', '%s: %s' % (type(e).__name__, str(e)[:300]))]
    if not isinstance(code, str):
        return out + [('to_code did not return text', repr(code)[:200])]
    flines = file_text.split('\n')
    first = conv.__code__.co_firstlineno
    clines = code.split('\n')
    if clines and clines[-1] == '':
        clines = clines[:-1]
    # to_code's lines are, up to ONE uniform indentation, the lines of the loaded module starting at
    # the function's first line (whitespace-only lines may lose their blanks)
    seg = flines[first - 1:first - 1 + len(clines)]
    k = (len(seg[0]) - len(clines[0])) if seg and clines else -1
    bad_line = None
    if len(seg) != len(clines) or k < 0:
        bad_line = 0
    else:
        for li, (fl, cl) in enumerate(zip(seg, clines)):
            if fl != ' ' * k + cl and not (fl.strip() == '' and cl.strip() == ''):
                bad_line = li
                break
    if bad_line is not None:
        out.append(('to_code text is not the text of the loaded module file at the function\'s position',
                    'file %s line %d: loaded module has %r, to_code line %d is %r' % (
                        path, first + bad_line, seg[bad_line] if bad_line < len(seg) else None, bad_line + 1,
                        clines[bad_line] if bad_line < len(clines) else None)))
    # nothing on the converted function object may redirect `inspect` away from the loaded module
    try:
        if inspect.unwrap(conv) is not conv:
            out.append(('converted function carries __wrapped__: inspect resolves it to another function',
                        'inspect.unwrap(to_graph(f)) is %r' % (inspect.unwrap(conv),)))
        sf = inspect.getsourcefile(conv)
        if sf != path:
            out.append(('inspect.getsourcefile of the converted function is not the loaded module file', '%r vs %r' % (sf, path)))
        want_params = [a.arg for a in root.args.posonlyargs + root.args.args] + \
            ([root.args.vararg.arg] if root.args.vararg else []) + [a.arg for a in root.args.kwonlyargs] + \
            ([root.args.kwarg.arg] if root.args.kwarg else [])
        got_params = list(inspect.signature(conv).parameters)
        if got_params != want_params:
            out.append(('inspect.signature of the converted function is not the signature of the generated def',
                        '%r vs %r' % (got_params, want_params)))
    except Exception as e:   # noqa
        out.append(('inspect on the converted function raised', '%s: %s' % (type(e).__name__, e)))
    # the code that runs is the code of that file
    try:
        mc = compile(file_text, path, 'exec')
        c = _find_code(mc, conv.__code__.co_name, first)
        if c is None or _code_sig(c) != _code_sig(conv.__code__):
            out.append(('code object of the converted function is not the one compiled from the module file', path))
    except SyntaxError as e:
        out.append(('module file does not compile', str(e)))
    # what the loaded module contains at that position (= what to_code shows, by the check above) is the
    # transformed tree, and the docstring shown is the docstring of the function that runs
    try:
        fdefs = [n for n in ast.walk(ast.parse(file_text)) if isinstance(n, ast.FunctionDef) and n.lineno == first
                 and n.name == conv.__code__.co_name]
        if len(fdefs) != 1 or cdump(fdefs[0]) != cdump(root):
            out.append(('loaded module text does not parse to the transformed tree at the function\'s position',
                        _first_diff(cdump(root), cdump(fdefs[0]) if fdefs else '')))
        elif ast.get_docstring(fdefs[0], clean=False) != conv.__doc__:
            out.append(('docstring in the loaded module text is not the __doc__ of the converted function',
                        '%r vs %r' % (ast.get_docstring(fdefs[0], clean=False), conv.__doc__)))
        if bad_line is None and fdefs:
            # the docstring one reads in to_code's text, re-indented by the uniform margin
            def norm(d):
                return None if d is None else '\n'.join(x.rstrip() for x in d.split('\n'))
            try:
                if k == 0 and not clines[0].startswith(' '):
                    shown = ast.parse('\n'.join(clines)).body
                else:
                    shown = ast.parse('if 1:\n' + '\n'.join(' ' * k + cl for cl in clines)).body[0].body
                if norm(ast.get_docstring(shown[0], clean=False)) != norm(conv.__doc__):
                    out.append(('docstring shown by to_code is not the __doc__ of the converted function',
                                '%r vs %r' % (ast.get_docstring(shown[0], clean=False), conv.__doc__)))
            except SyntaxError as e:
                out.append(('to_code text does not parse even after uniform re-indentation', str(e)))
    except SyntaxError as e:
        out.append(('module file does not parse', str(e)))
    return out


def synthetic_cases(rnd, n_inst, n_adj, n_copy, mon):
    """cases driven directly at templates.replace / ContextAdjuster / copy_clean."""
    from malt.pyct import templates, ast_util
    icases, acases, pcases = [], [], []
    meta = {}
    # i: through the monitor, so that the same recording code is used
    start = len(mon.calls)
    attempts = 0
    while len(mon.calls) - start < n_inst and attempts < n_inst * 4:
        attempts += 1
        tpl, keys = rnd.choice(SYN_TEMPLATES)
        repl = {k: rand_replacement(rnd, k) for k in keys if rnd.random() < 0.9}
        try:
            templates.replace(tpl, **repl)
        except (ValueError, AssertionError, AttributeError, TypeError):
            continue
    syn_calls = mon.calls[start:]
    del mon.calls[start:]
    # a: adjuster
    for i in range(n_adj):
        src, t = rand_tree(rnd)
        ov = rnd.choice([None, ast.Load, ast.Store, ast.Del, ast.Load])
        ids = tr.Ids()
        try:
            before = tr.to_coq(t, ids)
            templates.ContextAdjuster(ov).visit(t)
            after = tr.to_coq(t, ids)
        except (AssertionError, tr.Untranslatable):
            continue
        o = 'None' if ov is None else '(Some %s)' % ov.__name__
        acases.append((len(acases), '(%d, %s, %s, %s)' % (len(acases), o, before, after), src + ' / ' + o))
    # p: copy_clean
    for i in range(n_copy):
        src, t = rand_tree(rnd)
        # ctx=None cannot be told from absent after the copy: both export as None
        ids = tr.Ids()
        try:
            before = tr.to_coq(t, ids)
            n0 = ids.next
            c = ast_util.copy_clean(t)
            after = tr.to_coq(c, ids)
        except tr.Untranslatable:
            continue
        pcases.append((len(pcases), '(%d, %d, %s, %s)' % (len(pcases), n0, before, after), src))
    return syn_calls, acases, pcases


def ctx_cases(rnd, roots, n):
    """(term, expected) for the S-side validation against CPython's validator."""
    out = []
    pool = list(roots)
    tries = 0
    while len(out) < n and pool and tries < n * 6:
        tries += 1
        r = copy.deepcopy(rnd.choice(pool))
        nodes = [x for x in ast.walk(r) if type(x).__name__ in tr.CTX_KINDS]
        if nodes and rnd.random() < 0.7:
            x = rnd.choice(nodes)
            x.ctx = rnd.choice([ast.Load(), ast.Store(), ast.Del()])
        if sum(1 for _ in ast.walk(r)) > 500:
            continue
        v = cpython_ctx_verdict([r])
        if v is None:
            continue
        mine = ctx_violations(tr.module_of([r]))
        if v and mine and all(is_bad_walrus_target(p, f, x) for x, c, p, f in mine):
            # CPython's validator only checks that a walrus target is a Name, not its ctx
            # (Python/ast.c validate_expr, NamedExpr_kind); the parser always produces Store
            continue
        try:
            term = tr.to_coq(tr.module_of([r]), tr.Ids())
        except tr.Untranslatable:
            continue
        # the Python mirror must agree with CPython too
        out.append((len(out), '(%d, %s, %s)' % (len(out), term, vlib.coq_bool(v)), _safe_unparse(r)[:200], v,
                    not ctx_violations(tr.module_of([r]))))
    return out


HEADER = ['From Coq Require Import List String Bool.', 'Import ListNotations.',
          'Require Import MV.Tmpl.Tree MV.Tmpl.Replace MV.Generated.C17_gen MV.Tmpl.ReplaceCheck.',
          'Local Open Scope string_scope.']


def coq_lists(out, k):
    """the k lists of nat printed by `Eval vm_compute in (l1, l2, ..)`."""
    m = re.search(r'=\s*(.*?)\n\s*:', out, re.S)
    if not m:
        return None
    body = m.group(1)
    lists = re.findall(r'\[[^\]]*\]|nil', body)
    if len(lists) != k:
        return None
    return [[int(x) for x in re.findall(r'\d+', l)] for l in lists]


def eval_shard(args):
    name, ctype, fun, terms, k = args
    body = HEADER + ['Definition cases : list %s := [' % ctype, ';\n'.join(terms), '].',
                     'Eval vm_compute in %s.' % fun]
    rc, out = vlib.coq_eval('C17', name, '\n'.join(body), timeout=500)
    res = coq_lists(out, k) if rc == 0 else None
    return name, rc, out, res


def check(run):
    run.rule = ('programs: %d hand-written functions with the unusual literals of the property (negative numbers, nested '
                'f-strings, bytes, complex, tuple/slice subscripts, starred, chained comparisons, lambda defaults, '
                'decorators, comprehensions, control flow; docstrings / strings whose value depends on text-level detail: '
                'blanks and tabs at line ends, whitespace-only lines, blank first/last lines, quotes, non-ASCII), walrus '
                'shapes, seeded random functions of tools/gen/progs.py (5 option streams), random chained comparisons, '
                'composite state variables and random text-sensitive docstrings (top level / nested def / method) '
                'x option sets (recursive x optional features); distinct non-trivial = distinct '
                'transformed trees (ast.dump); correspondence: every templates.replace call made by those conversions '
                '(recorded with object identities) + synthetic template/adjuster/copy cases + CPython-validator cases' % len(HAND))
    tmpdir = vlib.ensure_dir(os.path.join(vlib.BUILD, 'tmp', 'c17-%d' % os.getpid()))
    os.environ['TMPDIR'] = tmpdir
    import tempfile
    tempfile.tempdir = tmpdir
    sys.path.insert(0, tmpdir)
    try:
        _check(run, tmpdir)
    finally:
        tempfile.tempdir = None
        shutil.rmtree(tmpdir, ignore_errors=True)


def _check(run, tmpdir):
    import warnings
    warnings.filterwarnings('ignore', category=SyntaxWarning)
    rnd = random.Random(run.seed * 7919 + 17)
    quick = run.tier == 'quick'
    # 1. regenerate
    tie_msg = None
    try:
        generate()
    except tr.Untranslatable as e:
        tie_msg = str(e)
        run.note(tie_msg)
    # 2. proofs
    import time
    t0 = time.time()
    make_ok = True
    if tie_msg is None:
        make_ok, _ = vlib.standard_proof_step(run, ['Tmpl/ReplaceCheck.vo'])
    phases = {'proofs_s': round(time.time() - t0, 1)}
    run.extra['phases'] = phases
    t0 = time.time()
    # 3/4 on the implementation
    mon = Monitor()
    mon.install()
    try:
        programs = gen_programs(rnd, run.tier)
        failures = run_pipeline(run, programs, tmpdir, mon)
        pipeline_calls = list(mon.calls)
        del mon.calls[:]
        syn_calls, acases, pcases = synthetic_cases(rnd, 100 if quick else 600, 160 if quick else 1500,
                                                    100 if quick else 500, mon)
    finally:
        mon.uninstall()

    phases['pipeline_and_synthetic_s'] = round(time.time() - t0, 1)
    t0 = time.time()
    # dynamic templates (computed strings) get the static discipline at run time: all template strings seen
    seen_templates = {}
    for rec in pipeline_calls:
        seen_templates.setdefault(rec['template'], rec)
    run.extra['replace_calls_recorded'] = len(pipeline_calls)
    run.extra['distinct_templates_instantiated'] = len(seen_templates)

    # select pipeline calls: all distinct (template, replacement shape) classes first, then fill
    sel = []
    seen_shape = set()
    rest = []
    for rec in pipeline_calls:
        if rec.get('skip') or not rec.get('tpl_term'):
            continue
        shape = (rec['template'], tuple(sorted((k, tuple(type(x).__name__ for x in (list(v) if isinstance(v, (list, tuple)) else [v])))
                                                for k, v in rec['repl'].items())))
        if shape not in seen_shape:
            seen_shape.add(shape)
            sel.append(rec)
        else:
            rest.append(rec)
    rnd.shuffle(rest)
    budget = 220 if quick else 3000
    sel = sel[:budget] + rest[:max(0, budget - len(sel))]
    icases = []
    imeta = {}
    for rec in sel + syn_calls:
        idx = len(icases)
        term = icase_of(idx, rec)
        if term is None:
            continue
        icases.append(term)
        imeta[idx] = rec
    skipped = sum(1 for r in pipeline_calls if r.get('skip'))
    run.extra['replace_calls_outside_model'] = skipped
    roots_for_ctx = []
    for rec in sel[:200]:
        roots_for_ctx += [n for n in rec['result'] if isinstance(n, ast.stmt)][:2]
    roots_for_ctx += [ast.parse(src).body[0] for _, src in programs[:60]]   # the parser's own output: always consistent
    ccases = ctx_cases(rnd, roots_for_ctx, 100 if quick else 800)

    corr_bad = []
    unguarded = []
    sharing = []
    if tie_msg is None and make_ok:
        jobs = []
        size = 60
        for s in range(0, len(icases), size):
            jobs.append(('icases_%d' % (s // size), 'icase', '(failing_i cases, unguarded_i cases, sharing_i cases)', icases[s:s + size], 3))
        for s in range(0, len(acases), 150):
            jobs.append(('acases_%d' % (s // 150), 'acase', '(failing_a cases, @nil nat)', [c[1] for c in acases[s:s + 150]], 2))
        for s in range(0, len(pcases), 150):
            jobs.append(('pcases_%d' % (s // 150), 'pcase', '(failing_p cases, @nil nat)', [c[1] for c in pcases[s:s + 150]], 2))
        for s in range(0, len(ccases), 50):
            jobs.append(('ccases_%d' % (s // 50), 'ccase', '(failing_c cases, @nil nat)', [c[1] for c in ccases[s:s + 50]], 2))
        with ThreadPoolExecutor(max_workers=8) as ex:
            results = list(ex.map(eval_shard, jobs))
        for name, rc, out, res in results:
            if res is None:
                corr_bad.append('model evaluation of %s failed: %s' % (name, out[-600:]))
                continue
            if name.startswith('icases'):
                for i in res[0]:
                    rec = imeta[i]
                    corr_bad.append('templates.replace: model and implementation disagree on template %r with %s' % (
                        rec['template'].strip()[:80], describe_repl(rec)))
                unguarded += res[1]
                sharing += res[2]
            elif name.startswith('acases'):
                for i in res[0]:
                    corr_bad.append('ContextAdjuster: model and implementation disagree on %s' % acases[i][2])
            elif name.startswith('pcases'):
                for i in res[0]:
                    corr_bad.append('copy_clean: model and implementation disagree on %s' % pcases[i][2])
            else:
                for i in res[0]:
                    corr_bad.append('ctx spec: model ctx_ok disagrees with CPython validator (%s) on %s' % (ccases[i][3], ccases[i][2]))
        run.count(len(icases) + len(acases) + len(pcases) + len(ccases))
        run.extra['traces_validated_against_impl'] = len(icases) + len(acases) + len(pcases) + len(ccases)
        run.extra['traces_validated_against_impl_by_kind'] = {'templates.replace (pipeline)': sum(1 for r in imeta.values() if not any(r is x for x in syn_calls)),
                                                      'templates.replace (synthetic)': sum(1 for r in imeta.values() if any(r is x for x in syn_calls)),
                                                      'ContextAdjuster': len(acases), 'copy_clean': len(pcases),
                                                      'ctx_ok vs CPython validator': len(ccases)}
    phases['correspondence_s'] = round(time.time() - t0, 1)
    for c in ccases:
        if c[3] != c[4]:
            corr_bad.append('ctx spec: the harness walk disagrees with CPython validator (%s) on %s' % (c[3], c[2]))

    # calls outside the guards of the theorems: the model result itself tells whether harm was done
    run.extra['calls_outside_ctx_guard'] = len(unguarded)
    run.extra['calls_outside_sharing_guard'] = len(sharing)
    # intermediate results are not the property (a later pass may still repair them); they are
    # counted, and they are the search material when a proof or a tie is broken
    inconsistent_calls = []
    for i in sorted(set(unguarded) | set(sharing)):
        rec = imeta.get(i)
        if rec is None or any(rec is r for r in syn_calls):
            continue
        if not rec['ectx'] or not rec['enodup']:
            inconsistent_calls.append('template %r with %s -> %s' % (
                rec['template'].strip()[:80], describe_repl(rec)[:300],
                ('context: ' + rec['bad_ctx']) if not rec['ectx'] else 'shared node'))
    run.extra['unguarded_but_consistent_examples'] = [
        'template %r with %s' % (imeta[i]['template'].strip()[:60], describe_repl(imeta[i])[:200])
        for i in sorted(set(unguarded)) if i in imeta and imeta[i]['ectx'] and not any(imeta[i] is r for r in syn_calls)][:8]
    run.extra['replace_results_inconsistent'] = len(inconsistent_calls)
    run.extra['replace_results_inconsistent_examples'] = inconsistent_calls[:3]

    # 5. verdict
    seen = set()
    nviol = 0
    for f in failures:
        key = (f['what'], f['classify'])
        if key in seen:
            continue
        seen.add(key)
        replay = {'what': f['what'], 'detail': f['detail'], 'program': f['source'], 'program_name': f['program'],
                  'recursive': f['recursive'], 'optional_features': f['optional_features'],
                  'transformed_tree_unparsed': f['transformed'],
                  'replay': 'cd /verif && bin/check C17 --replay <this file>'}
        if f['classify'] is None:
            run.violation(f['what'], replay)
            nviol += 1
        else:
            for kid in f['classify']:
                if run.violation(f['what'], replay, classify=kid):
                    nviol += 1
    if not nviol and not any(f['classify'] is None for f in failures):
        searched = 'oracle over %d program x option runs and %d recorded templates.replace calls found no failing input' % (
            run.evaluations, len(pipeline_calls))
        if tie_msg is not None:
            run.violation('translator no longer recognises the source: ' + tie_msg,
                          {'broken_tie': tie_msg, 'searched': searched, 'inconsistent_intermediate_results': inconsistent_calls[:5]}, found_input=False)
        elif corr_bad:
            run.violation('correspondence model/implementation broken', {'broken_correspondence': corr_bad[:12],
                          'searched': searched, 'inconsistent_intermediate_results': inconsistent_calls[:5]}, found_input=False)
    elif corr_bad:
        run.note('correspondence disagreements: ' + '; '.join(corr_bad[:3]))
    run.assumptions += [
        'ast.unparse / ast.parse / compile / the import system are CPython and are exercised, not modelled',
        'Python object identity is modelled by allocation numbers; operator and context singletons are not nodes',
        'ReplaceTransformer raising ValueError on ill-typed replacements is outside the model (the model is total)',
        'a field visited twice by a ContextAdjuster handler under the same override is adjusted once in the model',
    ]


def describe_repl(rec):
    parts = []
    for k, v in rec['repl'].items():
        vs = list(v) if isinstance(v, (list, tuple)) else [v]
        parts.append('%s=%s' % (k, '[' + ', '.join(_short(x) if isinstance(x, ast.AST) else repr(x) for x in vs) + ']'))
    return 'replacements ' + ', '.join(parts)


def replay(path):
    doc = json.load(open(path))
    print(json.dumps(doc, indent=1)[:6000])
    rep = doc.get('replay', {})
    src = rep.get('program')
    if not src or not src.lstrip().startswith('def '):
        return 0
    tmpdir = vlib.ensure_dir(os.path.join(vlib.BUILD, 'tmp', 'c17-replay-%d' % os.getpid()))
    os.environ['TMPDIR'] = tmpdir
    import tempfile
    tempfile.tempdir = tmpdir
    try:
        from malt.impl import api
        from malt.pyct import parser
        from malt.core import converter
        m = _load_module(src, 'c17_replay_prog', tmpdir)
        captured = []

        class Capture(api.PyToPy):
            def transform_ast(self, node, ctx):
                res = super(Capture, self).transform_ast(node, ctx)
                captured.append(res)
                return res
        api._TRANSPILER = Capture()
        feats = eval(rep.get('optional_features') or 'None', {'Feature': converter.Feature})
        recursive = bool(rep.get('recursive', True))
        mon = Monitor()
        mon.install()
        try:
            conv, err = None, None
            try:
                conv = api.to_graph(m.f, recursive=recursive, experimental_optional_features=feats)
                print('to_graph: ok')
            except Exception as e:   # noqa
                err = e
                print('to_graph raised %s: %s' % (type(e).__name__, e))
            fails = []
            for root in captured[:1]:
                fails += tree_checks(root, parser)
                for ld in mon.loads:
                    nodes = ld['nodes'] if isinstance(ld['nodes'], (list, tuple)) else [ld['nodes']]
                    if not fails and ld.get('written') is not None:
                        fails += written_text_checks(nodes, ld['written'])
                if err is not None:
                    fails.append(('conversion failed after transform_ast returned (tree / printed form inconsistent)',
                                  '%s: %s' % (type(err).__name__, str(err)[:300])))
                else:
                    fails += loaded_checks(api, m.f, conv, root, recursive, feats, mon)
        finally:
            mon.uninstall()
        for what, detail in fails:
            print('FAIL: %s -- %s' % (what, detail))
        return 1 if fails else 0
    finally:
        tempfile.tempdir = None
        shutil.rmtree(tmpdir, ignore_errors=True)
