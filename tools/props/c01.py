"""C01 -- conversion preserves Python semantics under the default operators (DESIGN.md 4/C01).

Proof side (coq/Properties/C01): ordering of the pass pipeline generated from PyToPy.transform_ast;
lowering-pass theorems (coq/Lower) over the executable models of the break / continue / return
canonicalisation, which are tied to the real passes by structural comparison of their outputs on
generated programs.  Oracle: original vs malt.to_graph(original) under identical decision vectors --
return value, ordered log of external calls, exception type, post-state of mutable arguments and
module globals -- over option sets and recursive conversion of callees.
"""
import json
import os
import random
import re
import warnings

from lib import vlib, convrun
from gen import progs
from translate import c01_pipeline

PRELUDE = '''
def H1(u):
    if D(900, u):
        return T(901, u)
    return T(902)

class Q(object):
    """a container that is falsy while it is empty"""
    def __init__(self):
        self.items = []

    def __len__(self):
        return len(self.items)

    def push(self, x=0):
        if D(906, x):
            self.items.append(T(907, x))
        return len(self.items)

    def drain(self):
        t = 0
        while self.items:
            t = T(908, t, self.items.pop())
        return t


def H2(u, v=3):
    while D(903):
        u = T(904, u, v)
        if D(905):
            break
    return u


class IT(object):
    """an iterable whose iteration is an observable event"""
    def __init__(self, k, *xs):
        self.k, self.xs = k, xs

    def __iter__(self):
        T(self.k)
        return iter(self.xs)
'''

KNOWN_FOR_TARGET = 'for-target-killed-on-zero-iterations'
KNOWN_CHAIN_EQ = 'chained-equality-under-equality-operators-evaluates-middle-operand-twice'
KNOWN_LAMBDA = 'lambda-closure-variable-not-kept-live'
KNOWN_LISTS_AUG = 'lists-augassign-subscript-operator-missing'
KNOWN_DICT_KW = 'call-kwargs-unpacking-with-rebound-dict'
KNOWN_SOLE_STAR = 'sole-starred-argument-unpacked-before-keywords'


def generate():
    from translate import c01_ops
    text, _ = c01_pipeline.translate(vlib.REPO)
    vlib.write_if_changed(os.path.join(vlib.COQ, 'Generated', 'C01_pipeline_gen.v'), text)
    try:
        vlib.write_if_changed(os.path.join(vlib.COQ, 'Generated', 'C01_ops_gen.v'), c01_ops.translate(vlib.REPO))
    except c01_ops.Untranslatable as e:
        raise c01_pipeline.Untranslatable(str(e))
    from translate import c01_ctl
    try:
        vlib.write_if_changed(os.path.join(vlib.COQ, 'Generated', 'C01_ctl_gen.v'), c01_ctl.translate(vlib.REPO))
    except c01_ctl.Untranslatable as e:
        raise c01_pipeline.Untranslatable(str(e))


def option_sets():
    from malt.core import converter
    F = converter.Feature
    # NAME_SCOPES / AUTO_CONTROL_DEPS (hence ALL) are explicitly unsupported in this fork (FunctionScope asserts)
    return [(True, None), (False, None), (True, F.BUILTIN_FUNCTIONS), (True, (F.EQUALITY_OPERATORS, F.BUILTIN_FUNCTIONS)),
            (True, (F.LISTS, F.ASSERT_STATEMENTS))]


VECTORS = [[], [1], [1, 0, 1], [0, 1, 1, 2], [1, 1, 1, 0, 2, 1], [2, 0, 1, 1, 0, 1, 3], [1, 2, 1, 0, 0, 1, 1, 1, 2], [3, 1, 1, 1, 1, 0, 1]]


def convert(f, recursive, feats):
    import malt
    with warnings.catch_warnings():
        warnings.simplefilter('ignore')
        with vlib.time_limit(90):
            return malt.to_graph(f, recursive=recursive, experimental_optional_features=feats)


def is_for_target_finding(src, a, b):
    """the program assigns a for-loop target variable also somewhere else (before the loop, in a nested loop
    or in the loop body): the shape for which the analyses kill the target on the loop-exit edge (root cause:
    C07's known finding).  Programs of the main streams never have this shape (fresh_for_targets)."""
    import ast
    tree = ast.parse(src)
    targets = set()
    for n in ast.walk(tree):
        if isinstance(n, ast.For):
            for t in ast.walk(n.target):
                if isinstance(t, ast.Name):
                    targets.add(t.id)
    assigned_elsewhere = set()
    for n in ast.walk(tree):
        if isinstance(n, (ast.Assign, ast.AugAssign, ast.withitem)):
            for t in ast.walk(n):
                if isinstance(t, ast.Name) and isinstance(t.ctx, ast.Store):
                    assigned_elsewhere.add(t.id)
    return bool(targets & assigned_elsewhere)


def is_chained_equality_finding(src, feats, a, b):
    """Feature.EQUALITY_OPERATORS requested, the program has a comparison chain (two or more operators) that contains
    == or !=, and the only difference is in the log of external calls (a middle operand evaluated once more)"""
    import ast
    if 'EQUALITY_OPERATORS' not in repr(feats):
        return False
    if a[0] != b[0]:
        return False          # result / exception differ: not this finding
    return any(isinstance(n, ast.Compare) and len(n.ops) >= 2 and any(isinstance(o, (ast.Eq, ast.NotEq)) for o in n.ops)
               for n in ast.walk(ast.parse(src)))


def is_lambda_closure_finding(src):
    """the program has a lambda one of whose free variables is (re)assigned inside the body of an if / while / for of the
    same function: liveness does not keep the closure variables of lambdas alive (lamba_check; root cause: C07's known
    finding), so that variable can become a local of the generated body function and the lambda reads a stale / other cell"""
    import ast
    fn = ast.parse(src).body[0]
    assigned_in_bodies = set()
    for n in ast.walk(fn):
        if isinstance(n, (ast.If, ast.While, ast.For)):
            for st in n.body + n.orelse + ([n] if isinstance(n, ast.For) else []):
                for x in ast.walk(st.target if st is n else st):
                    if isinstance(x, ast.Name) and isinstance(x.ctx, ast.Store):
                        assigned_in_bodies.add(x.id)
    for n in ast.walk(fn):
        if isinstance(n, ast.Lambda):
            params = {a.arg for a in n.args.args + n.args.kwonlyargs}
            free = {x.id for x in ast.walk(n.body) if isinstance(x, ast.Name) and isinstance(x.ctx, ast.Load)} - params
            if free & assigned_in_bodies:
                return True
    return False


def is_dict_kwargs_finding(src, b):
    """the function rebinds the name `dict` and contains a call with ** arguments, and the converted function
    raised TypeError (dict(**kw) found the user's value)"""
    import ast
    if not (b and b[0][0] == 'raise' and b[0][1] == 'TypeError'):
        return False
    tree = ast.parse(src)
    rebinds = any((isinstance(n, ast.Name) and n.id == 'dict' and isinstance(n.ctx, ast.Store)) or
                  (isinstance(n, ast.arg) and n.arg == 'dict') for n in ast.walk(tree))
    unpacks = any(isinstance(n, ast.Call) and any(k.arg is None for k in n.keywords) for n in ast.walk(tree))
    return rebinds and unpacks


def is_sole_star_finding(src):
    """the program has a call whose only positional argument is starred and that also has keyword arguments"""
    import ast
    return any(isinstance(n, ast.Call) and len(n.args) == 1 and isinstance(n.args[0], ast.Starred) and n.keywords
               for n in ast.walk(ast.parse(src)))


def is_lists_aug_finding(src, feats, b):
    """Feature.LISTS requested, the program has an augmented assignment whose target is a subscript, and the
    converted function raised AttributeError (the missing ag__.update_item_with_op)."""
    import ast
    if 'LISTS' not in repr(feats):
        return False     # (the AttributeError may be swallowed by an enclosing handler of the program)
    return any(isinstance(n, ast.AugAssign) and isinstance(n.target, ast.Subscript) for n in ast.walk(ast.parse(src)))


EV_KIND = {'T': 1, 'D': 2, 'N': 3, 'CM+': 4}


def _events_of_text(text):
    """the external events the statement / test with this text performs, in order"""
    import re as _re
    out = []
    for m in _re.finditer(r'\b(T|D|L|CM)\((\d+)', text):
        k, key = m.group(1), int(m.group(2))
        if k == 'L':
            if text.startswith('for '):
                out.append((EV_KIND['N'], key))
        elif k == 'CM':
            out.append((EV_KIND['CM+'], key))
        else:
            out.append((EV_KIND[k], key))
    return out


def _dispatch_decisions(tree, raise_node, exc_name):
    """the handler index the lowering language consumes at every enclosing try whose BODY contains the raise,
    innermost first, up to the try that catches it"""
    import ast
    parents = {}
    for n in ast.walk(tree):
        for f, v in ast.iter_fields(n):
            for c in (v if isinstance(v, list) else [v]):
                if isinstance(c, ast.AST):
                    parents[c] = (n, f)
    out = []
    cur = raise_node
    while cur in parents:
        par, field = parents[cur]
        if isinstance(par, ast.Try) and field == 'body':
            if par.handlers and par.handlers[0].type is None:
                return out          # a bare `except:` first: it runs, no decision is consumed
            idx = None
            for i, h in enumerate(par.handlers):
                t = h.type
                names = [] if t is None else [x.id for x in (t.elts if isinstance(t, ast.Tuple) else [t]) if isinstance(x, ast.Name)]
                if t is None or exc_name in names or 'Exception' in names or 'BaseException' in names:
                    idx = i
                    break
            if idx is not None:
                out.append(idx)
                return out
            out.append(len(par.handlers))
        if isinstance(par, (ast.FunctionDef, ast.Lambda)):
            break
        cur = par
    return out


def semantic_cases(mod, sem_inputs, rnd, nvec):
    """runs the ORIGINAL functions natively under decision vectors -> Coq terms of type scase"""
    import ast, sys as _sys
    from lib import pyrt
    out, meta = [], []
    stats = {'runs_ending_in_exception': 0, 'runs_with_handler_dispatch': 0}
    for idx, src, fn, atoms in sem_inputs:
        if fn.__code__.co_argcount != 3:
            continue       # programs with the mutable arguments m / o: structural tie only
        tree = ast.parse(src)
        raises = {n.lineno: n for n in ast.walk(tree) if isinstance(n, ast.Raise)}
        first = fn.__code__.co_firstlineno
        evmap = [(lab, _events_of_text(text)) for text, lab in atoms.items()]
        evmap = [(l, e) for l, e in evmap if e]
        for dv in VECTORS[:2] + [[rnd.choice([0, 1, 1, 2, 3]) for _ in range(rnd.randint(2, 10))] for _ in range(nvec)]:
            w = pyrt.World(dv)
            g = w.globals()
            inserts = []      # (position in dlog, dispatch decisions)
            ok = [True]

            def mk(base):
                class X(base):
                    def __init__(self_, *a):
                        base.__init__(self_, *a)
                        ln = _sys._getframe(1).f_lineno - first + 1
                        r = raises.get(ln)
                        if r is None:
                            ok[0] = False
                        else:
                            inserts.append((len(w.dlog), _dispatch_decisions(tree, r, base.__name__)))
                X.__name__ = base.__name__
                return X
            for nm in ('E0', 'E1', 'E2', 'E3'):
                g[nm] = mk(g[nm])
            mod.__dict__.update(g)
            mod.__dict__['G'] = 0
            try:
                fn(1, 2, 3)
                oc = None
            except RecursionError:
                continue
            except BaseException as e:  # noqa
                oc = 2
                if type(e).__name__ not in ('E0', 'E1', 'E2', 'E3'):
                    continue      # an exception no raise statement produced (e.g. NameError): outside the language
            if not ok[0] or len(w.dlog) > 80:
                continue
            if oc is None:
                # completed: returned through a return statement or fell off the end -- told apart by the last event
                oc = -1
            ds = list(w.dlog)
            for pos, dd in reversed(inserts):
                ds[pos:pos] = dd
            evs = [(EV_KIND[e[0]], e[1]) for e in w.log if e[0] in ('T', 'D', 'CM+', 'N')]
            j = len(out)
            stats['runs_ending_in_exception'] += (oc == 2)
            stats['runs_with_handler_dispatch'] += bool(inserts)
            out.append((j, idx, evmap, ds, evs, oc))
            meta.append((src, dv))
    terms = []
    pe = lambda e: '(%d, %d)' % e
    for j, idx, evmap, ds, evs, oc in out:
        terms.append('(%d, %d, [%s], [%s], %d)' % (j, idx, '; '.join(map(str, ds)), '; '.join(map(pe, evs)), 9 if oc == -1 else oc))
    evmaps = {}
    for idx, src, fn, atoms in sem_inputs:
        em = [(lab, _events_of_text(text)) for text, lab in atoms.items()]
        evmaps[idx] = '[%s]' % '; '.join('(%d, [%s])' % (l, '; '.join(map(pe, e))) for l, e in em if e)
    n = max(evmaps) + 1 if evmaps else 0
    return terms, meta, '[%s]' % ';\n'.join(evmaps.get(i, '[]') for i in range(n)), stats


def _gen_vexpr(rnd, depth, keys):
    """random expression over V(k) / W(k, ...) atoms, and / or / not / conditional expressions / comparison chains"""
    c = rnd.random()
    if depth >= 3 or c < 0.25:
        keys[0] += 1
        return 'V(%d)' % keys[0]
    sub = lambda: _gen_vexpr(rnd, depth + 1, keys)
    if c < 0.40:
        return '(%s)' % (' %s ' % rnd.choice(['and', 'or'])).join(sub() for _ in range(rnd.randint(2, 3)))
    if c < 0.50:
        return '(not %s)' % sub()
    if c < 0.62:
        return '(%s if %s else %s)' % (sub(), sub(), sub())
    if c < 0.82:
        parts = [sub()]
        for _ in range(rnd.randint(1, 3)):
            parts += [rnd.choice(['==', '!=', '<', '<=', '>', '>=']), sub()]
        return '(%s)' % ' '.join(parts)
    keys[0] += 1
    k = keys[0]
    return 'W(%d, %s)' % (k, ', '.join(sub() for _ in range(rnd.randint(1, 3))))


def _vexpr_term(node):
    """semantic-mode export: V(k) -> EOp k []; W(k, e..) -> EOp k [e..]; the rewritten constructs as in export/exprs.py"""
    import ast
    from export import exprs as ex
    if isinstance(node, ast.Call) and isinstance(node.func, ast.Name) and node.func.id in ('V', 'W'):
        return 'EOp %d [%s]' % (node.args[0].value, '; '.join(_vexpr_term(a) for a in node.args[1:]))
    if isinstance(node, ast.BoolOp):
        vals = [_vexpr_term(v) for v in node.values]
        out = vals[-1]
        for v in reversed(vals[:-1]):
            out = 'EBool %s (%s) (%s)' % ('true' if isinstance(node.op, ast.And) else 'false', v, out)
        return out
    if isinstance(node, ast.UnaryOp) and isinstance(node.op, ast.Not):
        return 'ENot (%s)' % _vexpr_term(node.operand)
    if isinstance(node, ast.IfExp):
        return 'EIfExp (%s) (%s) (%s)' % (_vexpr_term(node.test), _vexpr_term(node.body), _vexpr_term(node.orelse))
    if isinstance(node, ast.Compare):
        return 'ECmp (%s) [%s]' % (_vexpr_term(node.left), '; '.join('(%d, %s)' % (ex.COPS[type(o)], _vexpr_term(c))
                                                                      for o, c in zip(node.ops, node.comparators)))
    raise ValueError(type(node).__name__)


def expression_tie(run, rnd, quick, batch=0):
    """coq/Expr: (a) the model of conditional_expressions + logical_expressions (ExprLang.tr) against the real passes:
    every maximal expression of generated programs before / after the two passes, compared structurally in Coq;
    (b) the expression semantics, with the operator table generated from malt/operators on this run, against CPython.
    -> (message or None, programs on which (a) fails)"""
    import ast, copy
    from export import exprs as ex_mod
    from malt.converters import conditional_expressions, logical_expressions
    from malt.core import converter
    orig_c, orig_l = conditional_expressions.transform, logical_expressions.transform
    captured = {}

    def wrap_c(node, ctx):
        captured['in'] = copy.deepcopy(node)
        captured['eqov'] = bool(ctx.user.options.uses(converter.Feature.EQUALITY_OPERATORS))
        return orig_c(node, ctx)

    def wrap_l(node, ctx):
        out = orig_l(node, ctx)
        captured['out'] = copy.deepcopy(out)      # later passes mutate the tree in place
        return out
    n = 40
    opts = progs.Opts(loop_else=False, reads='safe', boolops=True, comprehension=True, max_stmts=9, fresh_for_targets=True,
                      try_=False, with_=False)
    srcs = [progs.gen_function(rnd, opts) for _ in range(n)]
    mod = convrun.load_module(srcs, PRELUDE)
    cases, meta, skipped = [], [], 0
    F = converter.Feature
    conditional_expressions.transform, logical_expressions.transform = wrap_c, wrap_l
    try:
        for i, src in enumerate(srcs):
            for feats in (None, (F.EQUALITY_OPERATORS,)):
                captured.clear()
                try:
                    convert(getattr(mod, 'f%d' % i), False, feats)
                except Exception:   # noqa
                    pass
                if 'in' not in captured or 'out' not in captured:
                    skipped += 1
                    continue
                ein, eout = ex_mod.statement_expressions(captured['in']), ex_mod.statement_expressions(captured['out'])
                if len(ein) != len(eout):
                    return 'the expression passes changed the statement structure of\n%s' % src, [src]
                ex = ex_mod.Exporter()
                for a, b in zip(ein, eout):
                    if not any(isinstance(x, (ast.BoolOp, ast.IfExp, ast.Compare)) or (isinstance(x, ast.UnaryOp) and isinstance(x.op, ast.Not))
                               for x in ast.walk(a)):
                        continue
                    try:
                        ta, tb = ex.expr(a), ex.expr(b)
                    except ex_mod.Unsupported:
                        skipped += 1
                        continue
                    cases.append('(%d, %s, %s, %s)' % (len(meta), 'true' if captured['eqov'] else 'false', ta, tb))
                    meta.append((src, ast.unparse(a), repr(feats)))
    finally:
        conditional_expressions.transform, logical_expressions.transform = orig_c, orig_l
    run.count(len(cases))
    run.extra['expression_pass_cases'] = run.extra.get('expression_pass_cases', 0) + len(cases)
    # (b) semantics against CPython
    vcases, vmeta = [], []
    for j in range(250):
        keys = [0]
        text = _gen_vexpr(rnd, 0, keys)
        dv = [rnd.choice([0, 0, 1, 1, 2, 3]) for _ in range(keys[0] + 2)]
        log, pos = [], [0]

        def V(k):
            log.append(k)
            pos[0] += 1
            return dv[pos[0] - 1] if pos[0] - 1 < len(dv) else 0

        def W(k, *a):
            return V(k)
        val = eval(text, {'V': V, 'W': W})
        val = int(val)
        vcases.append('(%d, %s, [%s], [%s], %d)' % (j, _vexpr_term(ast.parse(text, mode='eval').body), '; '.join(map(str, dv)),
                                                   '; '.join(map(str, log)), val))
        vmeta.append((text, dv))
    run.count(len(vcases))
    run.extra['expression_semantics_runs_against_cpython'] = run.extra.get('expression_semantics_runs_against_cpython', 0) + len(vcases)
    body = ['From Coq Require Import List Arith Bool.', 'Import ListNotations.',
            'Require Import MV.Expr.ExprLang MV.Expr.ExprCheck MV.Generated.C01_ops_gen.',
            'Definition cases : list ecase := [', ';\n'.join(cases), '].',
            'Definition vcases : list vcase := [', ';\n'.join(vcases), '].',
            'Eval vm_compute in failing_ecases cases.',
            'Eval vm_compute in (failing_vcases ops_gen vcases, tt).']
    rc, out = vlib.coq_eval('C01', 'expressions_%d' % batch, '\n'.join(body), timeout=900)
    bad = vlib.parse_coq_list_of_nat(out) if rc == 0 else None
    mv = re.search(r'=\s*\((\[[^\]]*\]),\s*tt\)', out)
    vbad = [int(x) for x in re.findall(r'\d+', mv.group(1))] if mv else None
    if bad is None or vbad is None:
        return 'expression passes: model evaluation failed: ' + out[-400:], []
    if vbad:
        return ('the expression semantics (coq/Expr/ExprLang.v with the operator table generated from malt/operators) disagrees with '
                'CPython on %d expressions, e.g. %s under values %r' % (len(vbad), vmeta[vbad[0]][0], vmeta[vbad[0]][1])), []
    if bad:
        src, etext, feats = meta[bad[0]]
        return ('the model of conditional_expressions / logical_expressions and the real passes disagree on %d expressions, e.g. %s '
                '(features %s) in\n%s' % (len(bad), etext, feats, src)), sorted({meta[i][0] for i in bad})
    return None, []


def call_trees_tie(run, rnd, quick, batch=0):
    """coq/Calls: the model of call_trees.py against the real pass (structural) and the call semantics against CPython;
    see props/c01_calls.py"""
    from props import c01_calls
    return c01_calls.tie(run, rnd, quick, PRELUDE, convert, batch)


def control_ops_tie(run, rnd, quick, batch=0):
    """coq/Ops: the semantics of the operator terms generated from malt/operators/control_flow.py against the real
    if_stmt / while_stmt / for_stmt called with logging callbacks driven by decision lists"""
    from malt.operators import control_flow as cf

    class Boom(Exception):
        pass

    def real(kind, cond, ext, ds):
        d, log = list(ds), []

        def pop():
            return d.pop(0) if d else 0

        def test():
            log.append((1, 0))
            x = pop()
            if x == 2:
                raise Boom()
            return x          # an int: the operator must take its truth value

        def body(*a):
            log.append((2, a[0] if a else 0))
            if pop() == 3:
                raise Boom()

        def orelse():
            log.append((3, 0))
            if pop() == 3:
                raise Boom()

        class It(object):
            def __iter__(self):
                return self

            def __next__(self):
                log.append((4, 0))
                x = pop()
                if x == 0:
                    raise StopIteration
                if x == 2:
                    raise Boom()
                return x

        def get_state():
            log.append((9, 0))
            return ()

        def set_state(_):
            log.append((9, 1))
        raised = False
        try:
            if kind == 0:
                cf.if_stmt(cond, body, orelse, get_state, set_state, (), 0)
            elif kind == 1:
                cf.while_stmt(test, body, get_state, set_state, (), {})
            else:
                cf.for_stmt(It(), test if ext else None, body, get_state, set_state, (), {})
        except Boom:
            raised = True
        return raised, log, d
    cases, meta = [], []
    for j in range(160):
        kind = rnd.choice([0, 1, 1, 2, 2, 2])
        cond, ext = rnd.random() < 0.5, rnd.random() < 0.6
        ds = [rnd.choice([0, 1, 1, 1, 2, 3, 4, 5]) for _ in range(rnd.randint(0, 9))]
        raised, log, left = real(kind, cond, ext, ds)
        cases.append('(%d, %d, %s, %s, [%s], %s, [%s], [%s])' % (
            j, kind, vlib.coq_bool(cond), vlib.coq_bool(ext), '; '.join(map(str, ds)), vlib.coq_bool(raised),
            '; '.join('(%d, %d)' % e for e in log), '; '.join(map(str, left))))
        meta.append((kind, cond, ext, ds, raised, log))
    run.count(len(cases))
    run.extra['control_operator_runs_against_real_operators'] = run.extra.get('control_operator_runs_against_real_operators', 0) + len(cases)
    body = ['From Coq Require Import List Arith Bool.', 'Import ListNotations.',
            'Require Import MV.Ops.CtlOps MV.Ops.CtlCheck MV.Generated.C01_ctl_gen.',
            'Definition cases : list ccase := [', ';\n'.join(cases), '].',
            'Eval vm_compute in failing_ccases ctl_ops_gen cases.']
    rc, out = vlib.coq_eval('C01', 'ctlops_%d' % batch, '\n'.join(body), timeout=600)
    bad = vlib.parse_coq_list_of_nat(out) if rc == 0 else None
    if bad is None:
        return 'control operators tie: model evaluation failed\n' + out[-1500:], []
    if bad:
        k, cond, ext, ds, raised, log = meta[bad[0]]
        return ('control operators tie: the semantics of the generated operator terms (coq/Ops/CtlOps.v) differs from the real '
                '%s on %d of %d runs; first: cond=%r extra_test=%r decisions=%r -> raised=%r, events %r' % (
                    ['if_stmt', 'while_stmt', 'for_stmt'][k], len(bad), len(cases), cond, ext, ds, raised, log)), []
    return None, []


def variables_tie(run, rnd, quick, batch=0):
    """coq/Vars: the model of variables.py against the real pass (structural) and the core-language semantics
    against CPython; see props/c01_vars.py"""
    from props import c01_vars
    return c01_vars.tie(run, rnd, quick, PRELUDE, convert, batch)


def functionalise_tie(run, rnd, quick, batch=0):
    """Translation validation for coq/Fn: every generated program is converted with the real pipeline; the annotated tree
    control_flow.transform saw (reads / writes, LIVE_VARS_IN of the real analyses) and the locals of every generated body
    function (symtable of the generated code) are exported and Coq evaluates the side conditions of functionalise_correct.
    -> (message or None, programs whose conditions fail)"""
    from export import fn as fn_mod
    n = 80
    o1 = progs.Opts(loop_else=False, reads='safe', try_=False, with_=False, raise_=False, max_stmts=14, fresh_for_targets=True,
                    nested_def=False)
    o2 = progs.Opts(loop_else=False, reads='safe', try_=False, with_=False, raise_=False, max_stmts=16, max_depth=5,
                    fresh_for_targets=True, nested_def=False, only={'if', 'while', 'for', 'break', 'continue', 'return', 'expr', 'aug', 'tuple'})
    # explicit raise and try / except / else around and inside the rewritten statements (no finally clauses: the CFG does not
    # wire raise to finally, a documented limit of the analyses, so the closure conditions need not hold there)
    o3 = progs.Opts(loop_else=False, reads='safe', with_=True, finally_=False, except_as=False, max_stmts=14, fresh_for_targets=True,
                    nested_def=False)
    srcs = [progs.gen_function(rnd, rnd.choice([o1, o2, o3])) for _ in range(n)]
    cdir = os.path.join(vlib.ROOT, 'corpus', 'C01fn')
    if os.path.isdir(cdir):
        srcs = [open(os.path.join(cdir, f)).read() for f in sorted(os.listdir(cdir)) if f.endswith('.py')] + srcs
    mod = convrun.load_module(srcs, PRELUDE)
    cases, meta, unsupported = [], [], {}
    for i, src in enumerate(srcs):
        with fn_mod.Capture() as cap:
            try:
                convert(getattr(mod, 'f%d' % i), False, None)
            except Exception as e:   # noqa
                cap.err = cap.err or 'conversion failed: %s' % type(e).__name__
        if cap.tree is None or cap.err:
            k = (cap.err or 'not reached').split(':')[0][:40]
            unsupported[k] = unsupported.get(k, 0) + 1
            continue
        try:
            term, table = fn_mod.to_coq(cap.tree, cap.L)
        except fn_mod.Unsupported as e:
            unsupported[str(e)[:40]] = unsupported.get(str(e)[:40], 0) + 1
            continue
        cases.append('(%d, %s)' % (len(meta), term))
        meta.append((src, table))
        if re.search(r'\b(while|for)\b', src) and ' if ' in src:
            run.nontriv('fn:' + src)
    run.count(len(cases))
    run.extra['functionalise_programs_checked'] = run.extra.get('functionalise_programs_checked', 0) + len(cases)
    run.extra['functionalise_programs_outside_the_model'] = run.extra.get('functionalise_programs_outside_the_model', 0) + sum(unsupported.values())
    run.extra['functionalise_outside_reasons'] = unsupported
    if len(cases) < n // 4:
        return 'too few programs could be exported to the functionalisation model: %r' % unsupported, []
    body = ['From Coq Require Import List Arith Bool.', 'Import ListNotations.',
            'Require Import MV.Fn.FnLang MV.Fn.FnCheck.',
            'Definition cases : list fcase := [', ';\n'.join(cases), '].',
            'Eval vm_compute in failing_fcases cases.',
            'Eval vm_compute in (map (fun c => (fst c, why_block (snd c) [] [])) (filter (fun c => negb (chk_block (snd c) [] [])) cases), tt).']
    rc, out = vlib.coq_eval('C01', 'functionalise_%d' % batch, '\n'.join(body), timeout=900)
    bad = vlib.parse_coq_list_of_nat(out) if rc == 0 else None
    if bad is None:
        return 'functionalisation conditions: model evaluation failed: ' + out[-400:], []
    if bad:
        src, table = meta[bad[0]]
        inv = {v_: k_ for k_, v_ in table.items()}
        why = re.findall(r'\((\d+),\s*(\d+),\s*(\d+)\)', out.split('tt)')[0].split(']')[-1] if False else out)
        detail = sorted({('statement %s: %s %s' % (a, 'live set not closed at' if b == '1' else 'local of the body function is live:', inv.get(int(c), c)))
                         for a, b, c in why})[:6]
        return ('the side conditions of functionalise_correct fail on %d programs (a variable that is live is local to a generated '
                'body function, or the live sets are not closed), e.g. %s in\n%s' % (len(bad), '; '.join(detail), src),
                [meta[i][0] for i in bad])
    return None, []


def lowering_tie(run, rnd, quick, batch=0):
    """Model passes (coq/Lower/Passes.v) vs the real break / continue passes: the real pipeline is run with
    both passes wrapped; input and output trees are exported to the lowering language and Coq checks that
    the model applied to the real input gives the real output, structurally."""
    from malt.converters import break_statements, continue_statements, return_statements
    from export import lower as lower_mod
    captured = {}
    orig_b, orig_c, orig_r = break_statements.transform, continue_statements.transform, return_statements.transform

    def wrap_r(node, ctx, *a, **kw):
        out = orig_r(node, ctx, *a, **kw)
        ex = captured.get('ex')
        if ex is not None:
            try:
                inner, used = ex.strip_return_frame(ex.body_of(out))
                captured['b3'] = ex.block(inner)
                captured['used'] = used
            except lower_mod.Unsupported as e:
                captured['err'] = str(e)
        return out

    def wrap_b(node, ctx):
        ex = lower_mod.Exporter()
        captured['ex'] = ex
        try:
            captured['b0'] = ex.block(ex.body_of(node))
        except lower_mod.Unsupported as e:
            captured['err'] = str(e)
        out = orig_b(node, ctx)
        try:
            captured['b1'] = ex.block(ex.body_of(out))
        except lower_mod.Unsupported as e:
            captured['err'] = str(e)
        return out

    def wrap_c(node, ctx):
        out = orig_c(node, ctx)
        ex = captured.get('ex')
        if ex is not None:
            try:
                captured['b2'] = ex.block(ex.body_of(out))
            except lower_mod.Unsupported as e:
                captured['err'] = str(e)
        return out
    n = 420
    opts1 = progs.Opts(reads='none', try_=False, with_=False, raise_=False, nested_def=False, max_stmts=14, loop_else=True,
                       tuple_assign=False)
    opts2 = progs.Opts(reads='none', nested_def=False, max_stmts=14, loop_else=False, tuple_assign=False, except_as=False)
    opts3 = progs.Opts(reads='none', nested_def=False, max_stmts=12, loop_else=False, tuple_assign=False, except_as=False,
                       only={'if', 'try', 'return', 'raise', 'expr', 'while', 'with', 'for', 'break', 'continue'})
    # return values that raise while being evaluated (odd labels of the model), bare except clauses
    opts4 = progs.Opts(reads='none', nested_def=False, max_stmts=12, loop_else=False, tuple_assign=False, except_as=False, mutation=True,
                       raising_return=True, append=False,
                       only={'if', 'try', 'return', 'retattr', 'raise', 'expr', 'while', 'for', 'break', 'continue'})
    srcs = (jump_grid() if batch == 0 else []) + [progs.gen_function(rnd, rnd.choice([opts1, opts2, opts2, opts3, opts4])) for _ in range(n)]
    cases = []
    meta = []
    sem_inputs = []
    break_statements.transform, continue_statements.transform, return_statements.transform = wrap_b, wrap_c, wrap_r
    try:
        mod = convrun.load_module(srcs, PRELUDE)
        for i, src in enumerate(srcs):
            captured.clear()
            try:
                convert(getattr(mod, 'f%d' % i), False, None)
            except Exception:   # noqa  (loop-else is rejected by a later pass; the two passes have run by then)
                pass
            if 'err' in captured or not all(k in captured for k in ('b0', 'b1', 'b2', 'b3')):
                continue
            cases.append('(%d, %s, %s, %s, %s, %s)' % (len(meta), captured['b0'], captured['b1'], captured['b2'],
                                                     captured['b3'], 'true' if captured['used'] else 'false'))
            sem_inputs.append((len(meta), src, getattr(mod, 'f%d' % i), dict(captured['ex'].atoms)))
            meta.append(src)
            if re.search(r'\b(break|continue)\b', src):
                run.nontriv('lower:' + src)
    finally:
        break_statements.transform, continue_statements.transform, return_statements.transform = orig_b, orig_c, orig_r
    run.count(len(cases))
    run.extra['lowering_cases'] = run.extra.get('lowering_cases', 0) + len(cases)
    if not cases:
        return 'no lowering case could be exported', []
    scases, smeta, evmaps, sstats = semantic_cases(mod, sem_inputs, rnd, 2 if quick else 3)
    for k_, v_ in sstats.items():
        run.extra['semantics_' + k_] = run.extra.get('semantics_' + k_, 0) + int(v_)
    run.count(len(scases))
    run.extra['semantics_runs_against_cpython'] = run.extra.get('semantics_runs_against_cpython', 0) + len(scases)
    body = ['From Coq Require Import List Arith Bool.', 'Import ListNotations.',
            'Require Import MV.Lower.Lang MV.Lower.Passes MV.Lower.PassesCheck MV.Lower.Compose MV.Lower.Source.',
            'Definition cases : list lcase := [', ';\n'.join(cases), '].',
            'Definition evmaps : list (list (nat * list ev)) := ', evmaps, '.',
            'Definition scases : list scase := [', ';\n'.join(scases), '].',
            'Eval vm_compute in (failing_scases cases evmaps scases, tt, tt, tt).',
            'Eval vm_compute in failing_lcases cases.', 'Eval vm_compute in map which_fails (filter (fun c => negb (check_lcase c)) cases).',
            'Eval vm_compute in (length (filter (fun c => match c with (_, b0, _, _, _, _) => lowering_hyps b0 end) cases), tt).',
            'Eval vm_compute in (length (filter (fun c => match c with (_, b0, _, _, _, _) => src_block b0 end) cases), tt, tt).']
    rc, out = vlib.coq_eval('C01', 'lowering_%d' % batch, '\n'.join(body), timeout=900)
    bad = vlib.parse_coq_list_of_nat(out) if rc == 0 else None
    mh = re.search(r'=\s*\((\d+),\s*tt\)', out)
    if mh:
        run.extra['lowering_programs_satisfying_theorem_hypotheses'] = run.extra.get('lowering_programs_satisfying_theorem_hypotheses', 0) + int(mh.group(1))
    mh = re.search(r'=\s*\((\d+),\s*tt,\s*tt\)', out)
    if mh:
        run.extra['lowering_programs_satisfying_source_condition'] = run.extra.get('lowering_programs_satisfying_source_condition', 0) + int(mh.group(1))
    msem = re.search(r'=\s*\((\[[^\]]*\]),\s*tt,\s*tt,\s*tt\)', out)
    sem_bad = [int(x) for x in re.findall(r'\d+', msem.group(1))] if msem else None
    if sem_bad is None and rc == 0:
        return 'semantic cases: could not read the result: ' + out[-300:], []
    if sem_bad:
        j = sem_bad[0]
        run.extra['semantics_mismatches'] = len(sem_bad)
        return ('the semantics of the lowering language (coq/Lower/Lang.v) disagrees with CPython on %d runs, e.g. decisions %r of\n%s'
                % (len(sem_bad), smeta[j][1], smeta[j][0]), [])
    if bad is None:
        return 'model evaluation failed: ' + out[-400:], []
    if bad:
        return ('model of the break/continue/return passes and the real passes disagree on %d programs, e.g.\n%s' % (
            len(bad), meta[bad[0]]), [meta[i] for i in bad])
    return None, []


def gen_nested_try(rnd):
    """two nested try statements with typed handlers: an explicit raise in the inner body (under an if / in a loop) of
    a type that only the OUTER handler catches, a variable assigned on the way to the raise and read in the outer handler,
    and code after the inner try (still inside the outer one) that rebinds it -- the raise must reach every enclosing
    handler in the CFG, or liveness drops the variable"""
    k = [0]

    def K():
        k[0] += 1
        return k[0]
    inner_t, outer_t = rnd.sample(['E0', 'E1', 'E2'], 2)
    L = ['def f(a, b, c):', '    x = T(%d, a)' % K(), '    y = T(%d, b)' % K(), '    try:', '        try:']
    ctrl = rnd.choice(['if', 'if', 'while', 'for'])
    head = {'if': 'if D(%d):' % K(), 'while': 'while D(%d):' % K(), 'for': 'for i1 in L(%d):' % K()}[ctrl]
    # mostly a pure write (no read of x in the statement): only then can x drop out of the statement's state
    body = ['x = T(%d, x)' % K() if rnd.random() < 0.25 else 'x = T(%d, a)' % K()]
    if rnd.random() < 0.3:
        body.append('y = T(%d, y)' % K())
    if rnd.random() < 0.5:
        body += ['if D(%d):' % K(), '    raise %s()' % outer_t]
    else:
        body.append('raise %s()' % outer_t)
    L += ['            ' + head] + ['                ' + t for t in body]
    L.append('            y = T(%d, y)' % K())
    if rnd.random() < 0.4:
        L += ['            if D(%d):' % K(), '                raise %s()' % inner_t]
    L += ['        except %s:' % inner_t, '            x = T(%d)' % K()]
    if rnd.random() < 0.75:
        L.append('        x = T(%d)' % K())
    if rnd.random() < 0.5:
        L.append('        y = T(%d, y)' % K())
    L += ['    except %s:' % outer_t]
    L.append(rnd.choice(['        return T(%d, x, y)' % K(), '        y = T(%d, x)' % K(), '        x = T(%d, x, y)' % K()]))
    L.append('    return T(%d, x, y)' % K())
    return '\n'.join(L) + '\n'


def jump_grid():
    """every (container, jump) pair, deterministically: a loop whose body holds a compound statement (if / else branch /
    with / try body / handler / try-else / inner loop) with a jump under a condition followed by more statements in the
    same container, then statements after the container -- so that a lowering pass that stops guarding inside one kind
    of container is seen on every run, whatever the random streams produce"""
    out = []
    containers = {
        'if': ['if D({a}):', '    {J}'],
        'else': ['if D({a}):', '    T({b})', 'else:', '    {J}'],
        'with': ['with CM({a}):', '    {J}'],
        'try': ['try:', '    {J}', 'except E0:', '    T({b})'],
        'handler': ['try:', '    T({b})', '    raise E0()', 'except E0:', '    {J}'],
        'tryelse': ['try:', '    T({b})', 'except E0:', '    T({c})', 'else:', '    {J}'],
        'tryfinally': ['try:', '    {J}', 'finally:', '    T({b})'],
        'while': ['while D({a}):', '    {J}'],
        'for': ['for i2 in L({a}):', '    {J}'],
    }
    for loop in ('while D(1):', 'for i1 in L(1):'):
        for cname, tpl in sorted(containers.items()):
            for jump in ('continue', 'break', 'return T(9)'):
                k = [10]

                def K():
                    k[0] += 1
                    return k[0]
                body = ['if D(%d):' % K(), '    ' + jump, 'x = T(%d, x)' % K(), 'T(%d)' % K()]
                lines = []
                for t in tpl:
                    if '{J}' in t:
                        ind = t[:len(t) - len(t.lstrip())]
                        lines += [ind + b for b in body]
                    else:
                        lines.append(t.format(a=K(), b=K(), c=K()))
                src = ['def f(a, b, c):', '    x = T(2, a)', '    ' + loop] + ['        ' + l for l in lines] + \
                      ['        x = T(%d, x)' % K(), '    return T(%d, x)' % K()]
                out.append('\n'.join(src) + '\n')
    return out


def jump_pairs_grid():
    """two different kinds of jump in ONE loop body (break + return, continue + return, break + continue, both orders,
    flat and with the second jump nested in an if / try / inner loop): the lowering passes each attach their own flag and
    extra loop test to the loop, and the later pass must combine its test with the one already there"""
    out = []
    jumps = {'break': 'break', 'continue': 'continue', 'return': 'return T(9, x)'}
    wraps = {
        'flat': ['{J}'],
        'if': ['if D({a}):', '    T({b})', '    {J}'],
        'try': ['try:', '    {J}', 'finally:', '    T({b})'],
        'inner-for': ['for i2 in L({a}):', '    T({b}, i2)', '{J}'],
    }
    for loop in ('while D(1):', 'for i1 in L(1):'):
        for j1 in sorted(jumps):
            for j2 in sorted(jumps):
                if j1 == j2:
                    continue
                for wname, tpl in sorted(wraps.items()):
                    k = [10]

                    def K():
                        k[0] += 1
                        return k[0]
                    body = ['if D(%d):' % K(), '    ' + jumps[j1], 'x = T(%d, x)' % K()]
                    second = ['if D(%d):' % K(), '    ' + jumps[j2]]
                    a_, b_ = K(), K()
                    for t in tpl:
                        if '{J}' in t:
                            ind = t[:len(t) - len(t.lstrip())]
                            body += [ind + l for l in second]
                        else:
                            body.append(t.format(a=a_, b=b_))
                    body.append('x = T(%d, x)' % K())
                    src = ['def f(a, b, c):', '    x = T(2, a)', '    ' + loop] + ['        ' + l for l in body] + \
                          ['    return T(%d, x)' % K()]
                    out.append('\n'.join(src) + '\n')
    return out


def tiny_grid():
    """bodies that consist of a docstring, a lone constant or pass only -- at the top level, in nested functions and in
    methods of local classes; the converted function must still load, return None and keep its docstring"""
    bodies = ['"""only a docstring"""', '...', '42', 'pass', '"""doc"""\npass', "b'bytes'", 'None']
    out = []
    for b in bodies:
        ind = '\n'.join('    ' + l for l in b.split('\n'))
        out.append('def f(a, b, c):\n%s\n' % ind)
        ind2 = '\n'.join('        ' + l for l in b.split('\n'))
        out.append('def f(a, b, c):\n    def g(x):\n%s\n    if D(1):\n        return T(2, g(a), g.__doc__)\n    return T(3, g(b))\n' % ind2)
    return out


def closure_grid():
    """local functions whose free variable is assigned by a later control statement and that are called only after it,
    reached by every route a function object can take: its own name, an alias, a container, a sibling closure, an argument
    of a helper, a returned closure, a default argument, a bound keyword; deterministically, so that an analysis that keeps
    closure variables alive only under some syntactic condition (the function's name is still used, the call is direct)
    is seen on every run.  The variable is read after the statement only through the closure."""
    out = []
    routes = {
        'direct': ([], 'g()'),
        'alias': (['k = g'], 'k()'),
        'container': (['fs = [g]'], 'fs[-1]()'),
        'dict': (['fs = {1: g}'], 'fs[1]()'),
        'sibling': (['def h():', '    return g()'], 'h()'),
        'twohop': (['def h():', '    return g()', 'def m():', '    return h()'], 'm()'),
        'sibling-alias': (['def h():', '    return g()', 'k = h'], 'k()'),
        'argument': (['def run(cb):', '    return cb()', 'k = (g,)'], 'run(k[0])'),
        'default': (['def h(cb=g):', '    return cb()'], 'h()'),
        'lambda-wrap': (['k = lambda: g()'], 'k()'),
        'tuple-unpack': (['k, j = g, 1'], 'k()'),
    }
    ctrls = {
        'if': ['if D({a}):', '    x = T({b}, b{r})'],
        'ifelse': ['if D({a}):', '    x = T({b}, b{r})', 'else:', '    c = T({c}, c)'],
        'while': ['while D({a}):', '    x = T({b}, b{r})'],
        'for': ['for i1 in L({a}):', '    x = T({b}, b{r})'],
        'nested': ['for i1 in L({a}):', '    if D({c}):', '        x = T({b}, b{r})'],
    }
    for rname, (pre, call) in sorted(routes.items()):
        for cname, tpl in sorted(ctrls.items()):
            for read_inside in (False, True):
                k = [10]

                def K():
                    k[0] += 1
                    return k[0]
                L = ['def f(a, b, c):', '    x = T(%d, a)' % K(), '    def g():', '        return T(%d, x)' % K()]
                L += ['    ' + t for t in pre]
                a_, b_, c_ = K(), K(), K()
                L += ['    ' + t.format(a=a_, b=b_, c=c_, r=', x' if read_inside else '') for t in tpl]
                L += ['    return T(%d, %s)' % (K(), call)]
                out.append('\n'.join(L) + '\n')
    return out


def search_on(programs, rnd):
    """targeted search after a broken correspondence: the programs on which model and pass disagree are run
    original vs converted under many decision vectors"""
    programs = programs[:40]
    mod = convrun.load_module(programs, PRELUDE)
    vecs = VECTORS + [[rnd.choice([0, 1, 1, 2]) for _ in range(rnd.randint(1, 9))] for _ in range(60)]
    for i, src in enumerate(programs):
        f = getattr(mod, 'f%d' % i)
        try:
            g = convert(f, True, None)
        except Exception as e:  # noqa
            return ('conversion failed with %s: %s' % (type(e).__name__, str(e)[:200]), src, None)
        for dv in vecs:
            a = convrun.run_one(mod, f, dv, False)
            b = convrun.run_one(mod, g, dv, False)
            d = convrun.describe_diff(a, b)
            if d and not is_for_target_finding(src, a, b):
                return (d, src, dv)
    return None


def check(run):
    quick = run.tier == 'quick'
    run.rule = ('seeded random functions (assign/aug/tuple, if/elif/else, while, for, break/continue/return, raise + '
                'try/except/else/finally, with, nested defs, global, and/or/not/if-expressions with side-effecting operands, '
                'comprehensions, attribute/subscript mutation of arguments, calls to module-level helpers) x decision vectors x '
                'option sets {recursive, features}; non-trivial = distinct program text containing a loop, try or jump; '
                'each evaluation = one (program, options, decision vector) run of original and converted')
    tie_ok = True
    try:
        generate()
    except c01_pipeline.Untranslatable as e:
        tie_ok = False
        tie_msg = str(e)
        run.note(tie_msg)
    if tie_ok:
        vlib.standard_proof_step(run, ['Lower/PassesCheck.vo', 'Lower/Compose.vo', 'Lower/Source.vo', 'Fn/FnProofs.vo', 'Fn/FnCheck.vo', 'Expr/ExprProofs.vo', 'Expr/ExprCheck.vo', 'Generated/C01_ops_gen.vo', 'Vars/VarProofs.vo', 'Vars/VarCheck.vo', 'Ops/CtlOpsProofs.vo', 'Ops/CtlCheck.vo', 'Generated/C01_ctl_gen.vo', 'Calls/CallProofs.vo', 'Calls/CallCheck.vo'])
    rnd = random.Random(run.seed * 104729 + 1)
    lower_bad, lower_programs = None, []
    nprog = 120 if quick else 1500
    streams = [
        ('main', progs.Opts(loop_else=False, reads='safe', mutation=True, boolops=True, comprehension=True, global_=True, delete=True,
                            nested_def=True, max_stmts=14, fresh_for_targets=True), 0.55),
        ('control', progs.Opts(loop_else=False, reads='safe', max_stmts=18, max_depth=5, fresh_for_targets=True), 0.2),
        ('helpers', progs.Opts(loop_else=False, reads='safe', boolops=True, max_stmts=10, helper_calls=True,
                               fresh_for_targets=True), 0.15),
        # dense early-exit shapes: return / raise inside try inside branches, with code after them
        ('return-try', progs.Opts(loop_else=False, reads='safe', max_stmts=12, max_depth=4, fresh_for_targets=True,
                                  only={'if', 'try', 'return', 'raise', 'expr', 'while'}), 0.2),
        # return statements whose value raises while being evaluated, inside try statements that go on afterwards
        ('return-raises', progs.Opts(loop_else=False, reads='safe', max_stmts=12, max_depth=4, fresh_for_targets=True, mutation=True,
                                     raising_return=True, append=False,
                                     only={'if', 'try', 'return', 'retattr', 'expr', 'while', 'for', 'attr'}), 0.12),
        # bound methods of an object that is falsy at the time of the call (converted recursively)
        ('methods', progs.Opts(loop_else=False, reads='safe', max_stmts=10, fresh_for_targets=True, methods=True, try_=False, with_=False), 0.08),
        # lambdas stored in variables and called later (closure variables are read late)
        ('lambda-closures', progs.Opts(loop_else=False, reads='safe', max_stmts=12, fresh_for_targets=True, lambda_closures=True,
                                       try_=False, with_=False), 0.1),
        # for-loop targets that are also assigned elsewhere: the shape of the known finding (root cause C07)
        ('for-target-reuse', progs.Opts(loop_else=False, reads='safe', max_stmts=14), 0.1),
    ]
    osets = option_sets()
    failures = []
    hist = {}
    srcs = []
    kinds = []
    for _ in range(nprog):
        name, opts, _w = rnd.choices(streams, [s[2] for s in streams])[0]
        srcs.append(progs.gen_function(rnd, opts))
        kinds.append((name, opts.mutation))
    for _ in range(max(6, nprog // 15)):
        srcs.append(gen_nested_try(rnd))
        kinds.append(('nested-try-typed', False))
    for g in jump_grid():
        srcs.append(g)
        kinds.append(('jump-grid', False))
    for g in closure_grid():
        srcs.append(g)
        kinds.append(('closure-grid', False))
    for g in tiny_grid():
        srcs.append(g)
        kinds.append(('tiny-grid', False))
    for g in jump_pairs_grid():
        srcs.append(g)
        kinds.append(('jump-pairs-grid', False))
    # corpus first
    cdir = os.path.join(vlib.ROOT, 'corpus', 'C01')
    corpus = []
    if os.path.isdir(cdir):
        for fnm in sorted(os.listdir(cdir)):
            if fnm.endswith('.py'):
                corpus.append(open(os.path.join(cdir, fnm)).read())
    csrcs = []
    cvecs = []
    for text in corpus:
        first, rest = text.split('\n', 1)
        csrcs.append(rest)
        cvecs.append(json.loads(first.split(':', 1)[1]))
    allsrc = csrcs + srcs
    allkinds = [('corpus', 'm, o' in s.split('\n')[0]) for s in csrcs] + kinds
    try:
        if tie_ok:
            # the thorough tier repeats the ties in batches of the quick size (one Coq file each)
            for batch in range(1 if quick else 6):
                for tie in (lowering_tie, functionalise_tie, expression_tie, variables_tie, control_ops_tie, call_trees_tie):
                    if not lower_bad:
                        lower_bad, lower_programs = tie(run, rnd, quick, batch)
        mod = convrun.load_module(allsrc, PRELUDE)
        nconv = 0
        for i, src in enumerate(allsrc):
            f = getattr(mod, 'f%d' % i)
            mutation = allkinds[i][1]
            vecs = ([cvecs[i]] if i < len(csrcs) else []) + (VECTORS[:6] if quick else VECTORS)
            my_osets = osets if (i % 4 == 0 or i < len(csrcs)) else [osets[i % len(osets)]]
            for kw in ('while', 'for', 'try', 'finally', 'break', 'continue', 'return', 'raise', 'with', 'global', 'def', ' and ', ' or ', ' if '):
                if kw in src:
                    hist[kw.strip()] = hist.get(kw.strip(), 0) + 1
            if re.search(r'\b(while|for|try|break|continue)\b', src):
                run.nontriv(src)
            for (rec, feats) in my_osets:
                try:
                    g = convert(f, rec, feats)
                    nconv += 1
                except Exception as e:  # noqa
                    failures.append(('conversion failed with %s: %s' % (type(e).__name__, str(e)[:200]), src, None, (rec, repr(feats)), None))
                    continue
                for dv in vecs:
                    a = convrun.run_one(mod, f, dv, mutation)
                    b = convrun.run_one(mod, g, dv, mutation)
                    run.count()
                    d = convrun.describe_diff(a, b)
                    if d:
                        if is_for_target_finding(src, a, b):
                            run.violation(d, {}, classify=KNOWN_FOR_TARGET)
                        elif is_lists_aug_finding(src, feats, b):
                            run.violation(d, {}, classify=KNOWN_LISTS_AUG)
                        elif is_dict_kwargs_finding(src, b):
                            run.violation(d, {}, classify=KNOWN_DICT_KW)
                        elif is_sole_star_finding(src) and 'external call log' in d:
                            run.violation(d, {}, classify=KNOWN_SOLE_STAR)
                        elif is_chained_equality_finding(src, feats, a, b):
                            run.violation(d, {}, classify=KNOWN_CHAIN_EQ)
                        elif is_lambda_closure_finding(src):
                            run.violation(d, {}, classify=KNOWN_LAMBDA)
                        else:
                            failures.append((d, src, dv, (rec, repr(feats)), None))
                        break
            if len(run.samples) < 4 and i >= len(csrcs):
                run.sample({'program': src, 'options': [(r, repr(x)) for r, x in my_osets], 'vectors': vecs[:3]})
        run.extra['programs'] = len(allsrc)
        run.extra['conversions'] = nconv
        run.extra['construct_histogram'] = hist
        # out-of-guarantee stream: loop-else must be rejected explicitly or converted correctly
        oog = [progs.gen_function(rnd, progs.Opts(loop_else=True, reads='safe', max_stmts=12)) for _ in range(30 if quick else 200)]
        oog = [s for s in oog if re.search(r'^\s+else:', s, re.M)]
        mod2 = convrun.load_module(oog, PRELUDE)
        rejected = 0
        for i, src in enumerate(oog):
            f = getattr(mod2, 'f%d' % i)
            try:
                g = convert(f, True, None)
            except Exception as e:  # noqa
                rejected += 1
                continue
            for dv in VECTORS[:5]:
                a = convrun.run_one(mod2, f, dv, False)
                b = convrun.run_one(mod2, g, dv, False)
                run.count()
                d = convrun.describe_diff(a, b)
                if d and not is_for_target_finding(src, a, b):
                    failures.append((d, src, dv, (True, 'None'), None))
                    break
        run.extra['out_of_guarantee_programs'] = len(oog)
        run.extra['out_of_guarantee_rejected'] = rejected
    finally:
        convrun.cleanup()
    seen = set()
    for what, src, dv, oset, _ in failures:
        key = re.sub(r'\d+', 'N', what)[:60]
        if key in seen:
            continue
        seen.add(key)
        run.violation('converted function is not observationally identical to the original: ' + what,
                      {'program': src, 'decisions': dv, 'recursive': oset[0], 'features': oset[1],
                       'prelude': PRELUDE, 'replay': 'bin/check C01 --replay <this file>'})
    if not failures and not tie_ok:
        run.violation('translator no longer recognises PyToPy.transform_ast: ' + tie_msg,
                      {'broken_tie': tie_msg, 'searched': 'differential oracle found no failing input'}, found_input=False)
    if not failures and lower_bad and lower_programs:
        try:
            found = search_on(lower_programs, rnd)
        finally:
            convrun.cleanup()
        if found:
            run.violation('converted function is not observationally identical to the original: ' + found[0],
                          {'program': found[1], 'decisions': found[2], 'recursive': True, 'features': 'None', 'prelude': PRELUDE,
                           'found_by': 'targeted search on programs where the lowering-pass model and the real pass disagree'})
            lower_bad = None
    if not failures and lower_bad:
        run.violation('correspondence between the models of the lowering / functionalisation passes and the code broke: ' + lower_bad[:300],
                      {'broken_correspondence': lower_bad, 'theorems_no_longer_applicable': ['break_lowering_correct', 'continue_lowering_correct',
                                                                                             'return_lowering_correct', 'lowering_correct', 'functionalise_correct'],
                       'searched': 'differential oracle found no failing input'}, found_input=False)
    run.assumptions += ['CPython 3.12 executes the generated module as the differential oracle',
                        'composition of all passes is validated by differential testing, proved only for the modelled factors (DESIGN.md 4/C01)']


def replay(path):
    doc = json.load(open(path))
    rp = doc.get('replay', {})
    if not rp.get('program'):
        print(json.dumps(doc, indent=1))
        return 0
    from malt.core import converter
    ft = rp.get('features')
    if ft in (None, 'None'):
        feats = None
    else:
        names = re.findall(r'Feature\.(\w+)', str(ft))
        feats = tuple(getattr(converter.Feature, n) for n in names) or None
    try:
        mod = convrun.load_module([rp['program']], rp.get('prelude', PRELUDE))
        g = convert(mod.f0, rp.get('recursive', True), feats)
        mut = 'm, o' in rp['program'].split('\n')[0]
        a = convrun.run_one(mod, mod.f0, rp['decisions'], mut)
        b = convrun.run_one(mod, g, rp['decisions'], mut)
        d = convrun.describe_diff(a, b)
        print(rp['program'])
        print('decisions', rp['decisions'])
        print(d or 'no difference')
        return 1 if d else 0
    finally:
        convrun.cleanup()
