"""C16 -- conversion-status context restored on every exit and isolated per thread (DESIGN.md 4/C16).

 1. regenerate coq/Generated/C16_gen.v from ag_ctx.py / function_wrappers.py / converters/functions.py /
    api.py (tools/translate/c16_ctx.py, fail closed)
 2. re-check the obligations in coq/Properties/C16 (balance for all call trees, status inside, assert never
    fires, thread isolation for all schedules, side conditions of the generated tables)
 3. correspondence: generated call trees are executed on the REAL API (tools/translate/c16_rt.py) on fresh
    threads, on the main thread and on 2..8 (thorough: ..16) concurrently scheduled threads; the sequence of
    (node, position, object identity, status, depth, user-requested-converted) seen through
    malt's control_status_ctx() is compared with the model evaluated in Coq on the generated tables
 4. property-level oracle, model free: every activation sees one and the same object at all its positions
    (before / after every child, returning or raising), the expected status inside do_not_convert /
    unspecified / with / user-requested converted regions, no assertion of ag_ctx fires, a thread's trace equals
    the trace of the same tree run alone whatever the other threads do.
    Inner functions of converted code (kinds nested / nestedg: a def nested one or two levels deep in an entity
    converted by convert() / to_graph() with every combination of user_requested / recursive, handed out as a
    closure) are callees like any other: called from the converted code's caller, from inside do_not_convert
    regions, with-blocks and plain code, wrapped by further decorators; they must see their call site's context.
"""
import itertools
import json
import os
import random
import shutil
import sys
import threading
import time
from concurrent.futures import ThreadPoolExecutor

from lib import vlib
from translate import c16_ctx

PID = 'C16'
ST = {'U': 'Unspecified', 'E': 'Enabled', 'D': 'Disabled'}


# ------------------------------------------------------------------ trees (plain data: JSON-able)
# node = [lbl, kind, dyn, catches, raise_at, exc, children]
def cexprs(rnd):
    return rnd.choice([('fresh', 'U'), ('fresh', 'E'), ('fresh', 'D'), ('at', 0), ('at', 1), ('at', 2), ('at', 9),
                       ('global', 'U'), ('global', 'E'), ('global', 'D')])


def rand_kind(rnd):
    r = rnd.random()
    if r < 0.14:
        return ('plain',)
    if r < 0.28:
        return ('dnc',)
    if r < 0.34:
        return ('unspec',)
    if r < 0.44:
        return ('with', cexprs(rnd))
    if r < 0.66:
        m = ('null',) if rnd.random() < 0.5 else cexprs(rnd)
        return ('convert', rnd.random() < 0.7, rnd.random() < 0.7, m)
    if r < 0.80:
        return ('internal', cexprs(rnd), rnd.random() < 0.6, rnd.random() < 0.6)
    if r < 0.87:
        return ('scope', rnd.random() < 0.6)
    if r < 0.93:
        return ('lscope', rnd.random() < 0.6)
    return ('tograph', rnd.random() < 0.6)


def rand_nested(rnd):
    """an inner function (nested def) of a converted entity: every conversion route and flag combination"""
    if rnd.random() < 0.3:
        return ('nestedg', rnd.random() < 0.5, rnd.random() < 0.3)
    return ('nested', rnd.random() < 0.6, rnd.random() < 0.5, rnd.random() < 0.3)


NESTED_KINDS = ('nested', 'nestedg')
ENTERS_NOTHING = ('plain', 'artifact', 'inner') + NESTED_KINDS

REP_KINDS = [('plain',), ('dnc',), ('unspec',), ('with', ('fresh', 'E')), ('with', ('at', 0)), ('with', ('global', 'D')),
             ('convert', True, True, ('null',)), ('convert', True, False, ('null',)), ('convert', False, True, ('null',)),
             ('convert', True, True, ('fresh', 'E')), ('convert', True, True, ('global', 'D')), ('convert', True, True, ('at', 1)),
             ('internal', ('at', 0), True, True), ('internal', ('fresh', 'D'), True, True),
             ('internal', ('fresh', 'U'), False, True), ('internal', ('global', 'E'), True, False),
             ('scope', True), ('scope', False), ('lscope', True), ('tograph', True),
             ('nested', True, False, False), ('nested', False, True, True), ('nestedg', False, False)]


LAYER_KINDS = [('dnc',), ('unspec',), ('with', ('fresh', 'E')), ('with', ('global', 'D')),
               ('convert', True, True, ('null',)), ('convert', False, True, ('null',)), ('convert', True, True, ('global', 'E')),
               ('convert', True, False, ('fresh', 'D')),
               ('internal', ('fresh', 'D'), True, True), ('internal', ('global', 'E'), True, True),
               ('internal', ('fresh', 'U'), False, True), ('scope', True), ('lscope', False), ('artifact',)]
INNER_KINDS = [('dnc',), ('unspec',), ('with', ('fresh', 'U')), ('convert', True, True, ('null',)),
               ('convert', True, True, ('fresh', 'E')), ('convert', False, True, ('null',)),
               ('internal', ('fresh', 'E'), True, True), ('internal', ('global', 'D'), True, False),
               ('scope', True), ('lscope', True), ('tograph', True), ('artifact',), ('inner',),
               ('nested', True, False, False), ('nested', True, True, True), ('nested', False, False, True),
               ('nestedg', False, False), ('nestedg', True, True)]


def no_at(k):
    return not any(isinstance(x, tuple) and x and x[0] == 'at' for x in k)


def rand_layers(rnd, kind):
    """wrappers stacked on the callable `kind` yields (only on artifacts, context arguments not stack-relative)"""
    if kind[0] == 'plain' or not no_at(kind) or rnd.random() > 0.3:
        return []
    out = []
    for _ in range(rnd.choice([1, 1, 1, 2, 2, 3])):
        while True:
            k = rand_kind(rnd) if rnd.random() < 0.5 else rnd.choice(LAYER_KINDS)
            if k[0] not in ('plain', 'tograph', 'inner') + NESTED_KINDS and no_at(k):
                break
        out.append(k)
    return out


def stack_trees():
    """exhaustive stream of decorators stacked on decorators: every representative wrapper applied to every
    representative wrapper's result / marked artifact / inner function of converted code, called from a plain, a
    do_not_convert'ed and a user-requested converted caller, the wrapped function returning or raising"""
    out = []
    for root in (('plain',), ('dnc',), ('convert', True, True, ('null',))):
        for lay, ki in itertools.product(LAYER_KINDS, INNER_KINDS):
            for raises in (False, True):
                inner = [2, ki, False, False, 0 if raises else None, 'E', [], [lay]]
                out.append([1, root, False, True, None, 'E', [inner], []])
    for l1, l2 in itertools.product(LAYER_KINDS, LAYER_KINDS):       # two wrappers on an artifact
        out.append([1, ('artifact',), False, False, None, 'E', [], [l1, l2]])
    return out


def rand_tree(rnd, max_nodes=12, max_depth=4):
    budget = [rnd.randint(1, max_nodes)]

    def mk(depth):
        budget[0] -= 1
        nch = 0
        if depth < max_depth and budget[0] > 0:
            nch = rnd.choice([0, 1, 1, 2, 2, 3])
        ch = []
        for _ in range(nch):
            if budget[0] <= 0:
                break
            ch.append(mk(depth + 1))
        raise_at = rnd.randint(0, len(ch)) if rnd.random() < 0.4 else None
        k = rand_kind(rnd)
        if rnd.random() < 0.14:
            k = rnd.choice([('artifact',), ('inner',), rand_nested(rnd), rand_nested(rnd)])
        return [0, k, rnd.random() < 0.15, rnd.random() < 0.5, raise_at, rnd.choice('EEB'), ch, rand_layers(rnd, k)]
    t = mk(1)
    relabel(t)
    return t


def relabel(t):
    c = [0]

    def go(n):
        c[0] += 1
        n[0] = c[0]
        for x in n[6]:
            go(x)
    go(t)
    return t


def pair_trees():
    """exhaustive two-level stream: representative outer kind x inner kind x inner raises x outer catches
    (+ outer raises after the child)"""
    out = []
    for ko, ki in itertools.product(REP_KINDS, REP_KINDS):
        for inner_raises, catches, outer_raises in ((False, False, False), (True, False, False), (True, True, False), (True, True, True)):
            inner = [2, ki, False, False, 0 if inner_raises else None, 'E', []]
            out.append([1, ko, False, catches, 1 if outer_raises else None, 'B', [inner], []])
    return out


def size(t):
    return 1 + len(outer_of(t)) + sum(size(c) for c in t[6])


def outer_of(t):
    return [norm_kind(k) for k in (t[7] if len(t) > 7 else [])]


def to_node(rt, t):
    return rt.N(t[0], norm_kind(t[1]), t[2], t[3], t[4], t[5], [to_node(rt, c) for c in t[6]], outer_of(t))


def norm_kind(k):
    return tuple(tuple(x) if isinstance(x, list) else x for x in k)


# ------------------------------------------------------------------ Coq terms
def coq_cexpr(c):
    if c[0] == 'fresh':
        return '(CFresh %s)' % ST[c[1]]
    if c[0] == 'global':
        return '(CGlobal %s)' % ST[c[1]]
    return '(CAt %d)' % c[1]


def coq_kind(k):
    k = norm_kind(k)
    b = vlib.coq_bool
    if k[0] == 'plain':
        return 'KPlain'
    if k[0] == 'dnc':
        return 'KDoNotConvert'
    if k[0] == 'unspec':
        return 'KUnspec'
    if k[0] == 'with':
        return '(KWith %s)' % coq_cexpr(k[1])
    if k[0] == 'convert':
        return '(KConvert %s %s %s)' % (b(k[1]), b(k[2]), 'MNull' if k[3][0] == 'null' else '(MCtx %s)' % coq_cexpr(k[3]))
    if k[0] == 'internal':
        return '(KInternal %s %s %s)' % (coq_cexpr(k[1]), b(k[2]), b(k[3]))
    if k[0] == 'scope':
        return '(KScope %s)' % b(k[1])
    if k[0] == 'lscope':
        return '(KLambdaScope %s)' % b(k[1])
    if k[0] == 'tograph':
        return '(KToGraph %s)' % b(k[1])
    if k[0] in ('artifact', 'inner'):
        return 'KArtifact'
    if k[0] == 'nested':
        return '(KNested %s %s)' % (b(k[1]), b(k[2]))
    if k[0] == 'nestedg':
        return '(KNestedG %s)' % b(k[1])
    raise ValueError(k)


def coq_tree(t):
    out = '(Node %d %s %s %s %s [%s])' % (t[0], coq_kind(t[1]), vlib.coq_bool(t[2]), vlib.coq_bool(t[3]),
                                           'None' if t[4] is None else '(Some %d)' % t[4],
                                           '; '.join(coq_tree(c) for c in t[6]))
    for k in reversed(outer_of(t)):
        out = '(Wrap %s %s)' % (coq_kind(k), out)
    return out


# ------------------------------------------------------------------ running the implementation
def canon_events(events):
    ids = {}
    out = []
    for (l, p, c, s, d, fi) in events:
        out.append((l, p, ids.setdefault(id(c), len(ids)), s, d, bool(fi[0] and fi[1])))
    return out


def run_solo(rt, t, globals_, on_main=False):
    """one tree on a fresh thread (or on the calling thread) -> (recorder, outcome)"""
    rec = rt.Recorder(0, None, globals_)
    res = {}

    def job():
        try:
            res['out'] = rt.run_tree(to_node(rt, t), rec)
        except BaseException as e:   # noqa
            res['out'] = 'X:harness %s: %s' % (type(e).__name__, e)
            rec.errors.append(res['out'])
    if on_main:
        job()
    else:
        th = threading.Thread(target=job)
        th.start()
        th.join(60)
        if th.is_alive():
            res['out'] = 'X:thread did not finish'
            rec.errors.append(res['out'])
    return rec, res.get('out', 'X:no outcome')


def run_threads(rt, trees, globals_, sched_seed, scheduled=True, repeat=1):
    """trees concurrently, one thread each -> list of (recorder, outcome) per thread (per repetition)"""
    n = len(trees)
    sched = rt.Scheduler(n, random.Random(sched_seed)) if scheduled else None
    recs = [[rt.Recorder(i, sched, globals_) for _ in range(repeat)] for i in range(n)]
    outs = [[None] * repeat for _ in range(n)]
    barrier = threading.Barrier(n) if not scheduled else None

    def job(i):
        try:
            if sched is not None:
                sched.wait_turn(i)
            else:
                barrier.wait(30)
            for r in range(repeat):
                try:
                    outs[i][r] = rt.run_tree(to_node(rt, trees[i]), recs[i][r])
                except BaseException as e:   # noqa
                    outs[i][r] = 'X:harness %s: %s' % (type(e).__name__, e)
                    recs[i][r].errors.append(outs[i][r])
        finally:
            if sched is not None:
                sched.done(i)
    ths = [threading.Thread(target=job, args=(i,)) for i in range(n)]
    for th in ths:
        th.start()
    if sched is not None:
        sched.start()
    for th in ths:
        th.join(120)
    for i, th in enumerate(ths):
        if th.is_alive():
            for r in range(repeat):
                if outs[i][r] is None:
                    outs[i][r] = 'X:thread did not finish'
                    recs[i][r].errors.append(outs[i][r])
    return [[(recs[i][r], outs[i][r] or 'X:no outcome') for r in range(repeat)] for i in range(n)], (sched.log if sched else None)


# ------------------------------------------------------------------ the property-level oracle (model free)
def status_of_cexpr(c, call_status):
    c = tuple(c)
    if c[0] in ('fresh', 'global'):
        return c[1]
    if c[0] == 'at' and c[1] == 0:
        return call_status
    return None


def expected_status(n, call_status):
    """The property text, for one call through a stack of wrappers (outermost first, the last one applied to the
    plain function): which status must the function observe, or must it see its caller's context object?
    -> (status letter or None when not determined, must-be-caller's-object, explanation)"""
    layers = outer_of(n) + [norm_kind(n[1])]
    dyn = n[2]
    cur, why, pushed = call_status, '', False
    for i, k in enumerate(layers):
        innermost = (i == len(layers) - 1)
        art_inner = any(x[0] != 'plain' for x in layers[i + 1:])
        if k[0] in ENTERS_NOTHING:
            continue            # incl. inner functions (nested defs) of converted code: calling them enters nothing
        if k[0] == 'dnc':
            cur, why, pushed = 'D', 'inside a do_not_convert region', True
        elif k[0] == 'unspec':
            cur, why, pushed = 'U', 'inside call_with_unspecified_conversion_status', True
        elif k[0] == 'with':
            cur, why, pushed = status_of_cexpr(k[1], cur), 'inside `with ctx:`', True
        elif k[0] in ('scope', 'lscope'):
            if k[1]:
                cur, why, pushed = 'E', 'inside a FunctionScope created with user_requested options', True
        elif k[0] == 'tograph':
            cur, why, pushed = 'E', 'inside a function converted by to_graph (user requested)', True
        elif k[0] == 'convert':
            if k[3][0] != 'null':
                cur, why, pushed = status_of_cexpr(k[3], cur), 'inside convert(conversion_ctx=ctx)', True
            if innermost and k[1] and not dyn:
                if cur is None:
                    pass
                elif cur != 'D':
                    cur, why, pushed = 'E', 'inside a user-requested converted function (convert(user_requested=True), effective status %s)' % cur, True
        elif k[0] == 'internal':
            if art_inner:
                continue            # internal_convert hands artifacts back unwrapped
            eff = status_of_cexpr(k[1], cur)
            pushed = True
            if eff is None:
                cur = None
            elif eff == 'D':
                cur, why = 'D', 'inside internal_convert with a DISABLED context'
            elif eff == 'U' and not k[2]:
                cur, why = 'U', 'inside internal_convert(convert_by_default=False) with an UNSPECIFIED context'
            else:
                cur, why = eff, 'inside internal_convert(ctx)'
                if innermost and k[3] and not dyn:
                    cur, why = 'E', 'inside a user-requested converted function (internal_convert, context %s)' % eff
    if not pushed:
        return None, '', True
    return cur, why, False


def judge(t, rec, out):
    """-> list of failure texts for one executed tree (property text judged on the recorded observations)"""
    fails = []
    ev = rec.events
    by = {}
    for i, e in enumerate(ev):
        by.setdefault(e[0], []).append((i, e))
    # (a) every activation (incl. the harness' root activation 0: before/after the whole call) sees ONE object
    for lbl, es in by.items():
        first = es[0][1]
        for _, e in es[1:]:
            if e[2] is not first[2]:
                fails.append('node %d: control_status_ctx() at position %d is a different object than at position %d '
                             '(status %s vs %s): the context was not restored after a call that %s' % (
                                 lbl, e[1], first[1], e[3], first[3], 'returned or raised'))
                break
            if e[3] != first[3]:
                fails.append('node %d: status of the current context changed from %s to %s' % (lbl, first[3], e[3]))
                break
    if 0 in by and len(by[0]) != 2:
        fails.append('root activation did not observe before and after the call')
    # (b) status inside the regions the property names
    parent = {}

    def walk(n, p):
        parent[n[0]] = p
        for c in n[6]:
            walk(c, n)
    walk(t, None)
    nodes = {}

    def coll(n):
        nodes[n[0]] = n
        for c in n[6]:
            coll(c)
    coll(t)
    for lbl, es in by.items():
        if lbl == 0:
            continue
        n = nodes[lbl]
        k = norm_kind(n[1])
        i0, e0 = es[0]
        call = ev[i0 - 1] if i0 > 0 else None       # the observation just before this activation started = call site
        p = parent[lbl]
        plbl = p[0] if p is not None else 0
        # call-site = last event of the parent before i0
        call_ev = None
        for j in range(i0 - 1, -1, -1):
            if ev[j][0] == plbl:
                call_ev = ev[j]
                break
        call_status = call_ev[3] if call_ev else None
        want, why, same_as_call = expected_status(n, call_status)
        for _, e in es:
            if want is not None and e[3] != want:
                fails.append('node %d (%s): status %s %s, expected %s' % (
                    lbl, ' '.join(x[0] + '(' for x in outer_of(n)) + k[0] + ')' * len(outer_of(n)), e[3], why, want))
                break
            if same_as_call and call_ev is not None and e[2] is not call_ev[2]:
                fails.append('node %d (%s): a call that enters no context sees a different context object than its caller%s' % (
                    lbl, k[0], '' if k[0] not in NESTED_KINDS else
                    ': an inner function (nested def) of an entity converted by %s reports %s where its call site reports %s' % (
                        'to_graph(recursive=%s)' % k[1] if k[0] == 'nestedg' else
                        'convert(recursive=%s, user_requested=%s)' % (k[2], k[1]), e[3], call_ev[3])))
                break
            if e[5] == (True, True) and e[3] != 'E':
                fails.append('node %d: running as a converted function with user_requested options but status is %s' % (lbl, e[3]))
                break
    # (c) nothing of the machinery itself failed
    for x in rec.errors:
        fails.append('unexpected error: ' + x[:300])
    if out.startswith('X'):
        fails.append('unexpected outcome ' + out[:300])
    return fails


def kind_text(k):
    k = norm_kind(k)
    if k[0] == 'nested':
        return 'nested[inner def%s of an entity converted by convert(user_requested=%s, recursive=%s)]' % (
            ', two levels deep,' if k[3] else '', k[1], k[2])
    if k[0] == 'nestedg':
        return 'nestedg[inner def%s of an entity converted by to_graph(recursive=%s)]' % (', two levels deep,' if k[2] else '', k[1])
    return ' '.join(str(x) for x in k)


def describe(t, indent=0):
    lay = ''.join('%s( ' % kind_text(k) for k in outer_of(t))
    s = '%s%d: %s%s%s%s%s\n' % ('  ' * indent, t[0], lay, kind_text(t[1]) + ' )' * len(outer_of(t)),
                              ' dyn' if t[2] else '', ' catches' if t[3] else '',
                              '' if t[4] is None else ' raises(%s)@%d' % (t[5], t[4]))
    for c in t[6]:
        s += describe(c, indent + 1)
    return s


# ------------------------------------------------------------------ model side
def coq_case(idx, t, cev, out, with_depth):
    es = '; '.join('(%d, %d, %d, %s, %d, %s)' % (l, p, i, ST.get(s, 'Unspecified'), d if d is not None else 0, vlib.coq_bool(u))
                   for (l, p, i, s, d, u) in cev)
    return '(%d, %s, [%s], %s, %s)' % (idx, coq_tree(t), es, vlib.coq_bool(with_depth), vlib.coq_bool(out == 'R'))


def eval_cases(cases, shard=400):
    """-> (list of failing indices, error text or None)"""
    shards = [cases[i:i + shard] for i in range(0, len(cases), shard)]

    def one(a):
        k, cs = a
        body = ['From Coq Require Import List Bool.', 'Import ListNotations.',
                'Require Import MV.Ctx.CtxSyntax MV.Ctx.Stack MV.Ctx.StackSpec MV.Generated.C16_gen MV.Ctx.StackCheck.',
                'Definition cases : list case := [', ';\n'.join(cs), '].',
                'Eval vm_compute in failing cases.']
        rc, o = vlib.coq_eval(PID, 'cases%d' % k, '\n'.join(body), timeout=600)
        bad = vlib.parse_coq_list_of_nat(o) if rc == 0 else None
        if bad is None:
            return None, 'model evaluation failed: ' + o[-600:]
        return bad, None
    bad = []
    err = None
    with ThreadPoolExecutor(max_workers=6) as ex:
        for b, e in ex.map(one, list(enumerate(shards))):
            if e:
                err = e
            else:
                bad += b
    return bad, err


# ------------------------------------------------------------------ driver
def generate():
    text = c16_ctx.translate(vlib.REPO)
    vlib.write_if_changed(os.path.join(vlib.COQ, 'Generated', 'C16_gen.v'), text)


def make_globals(rt):
    from malt.core import ag_ctx
    return {k: ag_ctx.ControlStatusCtx(status=rt.STATUS[k]) for k in 'UED'}


def replay_cmd(path):
    return 'cd /verif && bin/check C16 --replay %s' % path


def check(run):
    thorough = run.tier == 'thorough'
    tmp = vlib.ensure_dir(os.path.join(vlib.BUILD, 'tmp', str(os.getpid())))
    os.environ['TMPDIR'] = tmp
    import tempfile
    tempfile.tempdir = tmp
    try:
        _check(run, thorough)
    finally:
        shutil.rmtree(tmp, ignore_errors=True)


def _check(run, thorough):
    run.rule = ('call trees over {plain, do_not_convert, unspecified wrapper, with ctx (fresh / already on the stack / shared '
                'module-level object), convert(user_requested, recursive, conversion_ctx), internal_convert(ctx, '
                'convert_by_default, user_requested), FunctionScope, with_function_scope, to_graph} x dynamic/convertible '
                'function x raise at any position (Exception or BaseException) x swallowed by the parent or not; callees that are '
                'inner functions (defs nested one or two levels deep) of entities converted by convert(user_requested, recursive) / '
                'to_graph(recursive), called back from any node (do_not_convert regions, with-blocks, converted and plain code): an exhaustive '
                'two-level stream (%d representative kinds squared x 4 exception patterns), an exhaustive stream of stacked decorators '
                '(%d wrappers applied to %d wrapper results / marked artifacts / inner functions of converted code, under 3 callers, '
                'returning or raising; all pairs of wrappers on an artifact), seeded random trees with up to 3 stacked wrappers per call (<= 14 nodes, '
                'depth <= 4) on fresh threads and on the main thread, and the same trees on 2..8 (thorough ..16) threads under a '
                'seeded deterministic interleaving at every observation point plus free-running repetitions; distinct '
                'non-trivial = distinct (tree, thread count) with at least one context pushed') % (
                    len(REP_KINDS), len(LAYER_KINDS), len(INNER_KINDS))
    tie_msg = None
    try:
        generate()
    except c16_ctx.Untranslatable as e:
        tie_msg = str(e)
        run.note(tie_msg)
    except Exception as e:   # noqa  (source does not even parse / file missing)
        tie_msg = 'untranslatable: %s: %s' % (type(e).__name__, e)
        run.note(tie_msg)
    proofs_ok = False
    if tie_msg is None:
        ok, _ = vlib.standard_proof_step(run, ['Ctx/StackCheck.vo'])
        proofs_ok = ok and all(o.discharged() for o in run.obligations)

    # ---- the implementation
    rt_err = None
    try:
        from translate import c16_rt as rt
    except Exception as e:   # noqa
        rt = None
        rt_err = 'run-time support cannot import the API: %s: %s' % (type(e).__name__, e)
    failures = []      # (title, replay dict)
    cases = []
    case_info = []
    if rt is not None:
        rnd = random.Random(run.seed * 7919 + 16)
        glob = make_globals(rt)
        singles = pair_trees() + stack_trees()
        n_rand = 12000 if thorough else 600
        singles += [rand_tree(rnd) for _ in range(n_rand)]
        with_depth = True

        def record_case(t, rec, out, nthreads):
            cev = canon_events(rec.events)
            nonlocal with_depth
            if any(e[4] is None for e in cev):
                with_depth = False
            idx = len(cases)
            cases.append((t, cev, out))
            case_info.append((t, nthreads))
            return cev

        best = {}      # category -> (tree size, threads, failure text, replay dict): smallest witness per category

        CATS = ('is a different object', 'status of the current context changed', 'expected', 'sees a different context object than its caller',
                'with user_requested options but status', 'unexpected error', 'unexpected outcome',
                'than the same call tree run alone', 'root activation')

        def category(f):
            for key in CATS:
                if key in f:
                    if key.startswith('unexpected'):
                        return key + ':' + f.split(':')[2].strip()[:30] if f.count(':') >= 2 else key
                    return key
            return f[:40]

        def report(t, fs, ctx):
            for f in fs:
                c = category(f)
                rank = (ctx.get('threads', 1), size(t), CATS.index(c.split(':')[0]) if c.split(':')[0] in CATS else 99)
                if c not in best or rank < best[c][0]:
                    best[c] = (rank, f, dict(ctx, tree=t, tree_text=describe(t), failure=f))

        # -- single thread (fresh thread each)
        t0 = time.time()
        for i, t in enumerate(singles):
            rec, out = run_solo(rt, t, glob)
            run.count()
            if len(set(id(e[2]) for e in rec.events)) > 1:
                run.nontriv((json.dumps(t), 1))
            cev = record_case(t, rec, out, 1)
            fs = judge(t, rec, out)
            if fs:
                report(t, fs, {'mode': 'one fresh thread', 'observed': [list(e) for e in cev], 'outcome': out})
            if i % 211 == 0:
                run.sample({'tree': describe(t), 'outcome': out,
                            'observed (node, position, object#, status, depth, user-requested-converted)': [list(e) for e in cev][:12]})
        # -- main thread
        for t in [rand_tree(rnd) for _ in range(80 if not thorough else 1000)]:
            rec, out = run_solo(rt, t, glob, on_main=True)
            run.count()
            cev = record_case(t, rec, out, 1)
            fs = judge(t, rec, out)
            if fs:
                report(t, fs, {'mode': 'main thread', 'observed': [list(e) for e in cev], 'outcome': out})
                break      # the main thread's stack may be corrupted from here on
        run.extra['single_thread_trees'] = len(cases)
        run.extra['single_thread_seconds'] = round(time.time() - t0, 1)

        # -- threads: deterministic interleavings
        t0 = time.time()
        n_scen = 100 if not thorough else 1500
        max_thr = 8 if not thorough else 16
        nthreads_hist = {}
        for s in range(n_scen):
            nth = 1 + (s % max_thr) if s < max_thr else rnd.randint(2, max_thr)
            nth = max(nth, 2) if s >= 1 else 1
            trees = [rand_tree(rnd, max_nodes=8) for _ in range(nth)]
            solo = [run_solo(rt, t, glob) for t in trees]
            sseed = rnd.randint(0, 10 ** 9)
            res, slog = run_threads(rt, trees, glob, sseed, scheduled=True)
            nthreads_hist[nth] = nthreads_hist.get(nth, 0) + 1
            for i, t in enumerate(trees):
                rec, out = res[i][0]
                run.count()
                if len(set(id(e[2]) for e in rec.events)) > 1:
                    run.nontriv((json.dumps(t), nth))
                cev = record_case(t, rec, out, nth)
                ctx = {'mode': '%d threads, deterministic interleaving' % nth, 'threads': nth, 'thread': i, 'all_trees': trees,
                       'schedule_seed': sseed, 'observed': [list(e) for e in cev], 'outcome': out}
                fs = judge(t, rec, out)
                sev = canon_events(solo[i][0].events)
                if (sev, solo[i][1]) != (cev, out) and not judge(t, solo[i][0], solo[i][1]):
                    fs.append('thread %d of %d sees a different sequence of contexts than the same call tree run alone: '
                              'alone %s / concurrently %s' % (i, nth, [list(e[:4]) for e in sev][:8], [list(e[:4]) for e in cev][:8]))
                if fs:
                    report(t, fs, ctx)
            # objects (other than the shared module-level ones) seen as current context by two threads: harmless as long
            # as contexts are immutable (checked by the translator), so only counted
            owner = {}
            gl = set(id(x) for x in glob.values())
            for i in range(nth):
                for e in res[i][0][0].events:
                    if id(e[2]) not in gl and owner.setdefault(id(e[2]), i) != i:
                        run.extra['cross_thread_shared_objects'] = run.extra.get('cross_thread_shared_objects', 0) + 1
        # -- threads: free running
        old = sys.getswitchinterval()
        sys.setswitchinterval(1e-5)
        try:
            for s in range(6 if not thorough else 100):
                nth = rnd.randint(2, max_thr)
                trees = [rand_tree(rnd, max_nodes=8) for _ in range(nth)]
                solo = [run_solo(rt, t, glob) for t in trees]
                res, _ = run_threads(rt, trees, glob, 0, scheduled=False, repeat=5 if not thorough else 20)
                for i, t in enumerate(trees):
                    sev = canon_events(solo[i][0].events)
                    for rec, out in res[i]:
                        run.count()
                        cev = canon_events(rec.events)
                        fs = judge(t, rec, out)
                        if (sev, solo[i][1]) != (cev, out) and not judge(t, solo[i][0], solo[i][1]):
                            fs.append('thread %d of %d (free running) sees a different sequence of contexts than the same call '
                                      'tree run alone' % (i, nth))
                        if fs:
                            report(t, fs, {'mode': '%d threads, free running' % nth, 'threads': nth, 'thread': i, 'all_trees': trees,
                                           'observed': [list(e) for e in cev], 'outcome': out})
                            break
        finally:
            sys.setswitchinterval(old)
        run.extra['thread_scenarios'] = nthreads_hist
        run.extra['threads_seconds'] = round(time.time() - t0, 1)
        run.extra['tree_sizes'] = {'max': max(size(c[0]) for c in cases), 'mean': round(sum(size(c[0]) for c in cases) / len(cases), 2)}

    # ---- 3. correspondence, evaluated inside Coq
    corr_bad = None
    if tie_msg is None and rt is not None and cases:
        if not os.path.exists(os.path.join(vlib.COQ, 'Ctx', 'StackCheck.vo')):
            corr_bad = 'the checker Ctx/StackCheck.vo did not build'
        else:
            terms = [coq_case(i, t, cev, out, with_depth) for i, (t, cev, out) in enumerate(cases)]
            bad, err = eval_cases(terms)
            if err:
                corr_bad = err
            else:
                run.extra['traces_validated_against_impl'] = len(terms)
                run.extra['depth_compared'] = with_depth
                if bad:
                    b = bad[0]
                    corr_bad = ('model and implementation disagree on %d of %d executed trees, first: (%d thread(s))\n%s'
                                'implementation observed %s outcome %s' % (
                                    len(bad), len(terms), case_info[b][1], describe(cases[b][0]),
                                    [list(e) for e in cases[b][1]], cases[b][2]))
                    run.extra['corr_first_bad_tree'] = cases[bad[0]][0]

    # ---- 5. verdict
    if rt is not None:
        failures = [(v[1], v[2]) for _, v in sorted(best.items(), key=lambda kv: (kv[1][0][2], kv[1][0][0], kv[1][0][1]))]
    for f, rp in failures[:6]:
        rp = dict(rp)
        rp['replay'] = 'cd /verif && bin/check C16 --replay <this file>   (re-executes the tree(s) on the implementation)'
        run.violation(f, rp, classify=classify(rp))
    if not failures:
        searched = 'property-level oracle over %d executed call trees (1..%d threads) found no failing input' % (
            run.evaluations, 16 if thorough else 8)
        if rt_err:
            run.violation(rt_err, {'broken_tie': rt_err}, found_input=False)
        elif tie_msg is not None:
            run.violation('translator no longer recognises the source: ' + tie_msg,
                          {'broken_tie': tie_msg, 'searched': searched}, found_input=False)
        elif corr_bad:
            run.violation('correspondence model/implementation broken', {'broken_correspondence': corr_bad, 'searched': searched},
                          found_input=False)
        elif not proofs_ok:
            broken = [o.name for o in run.obligations if not o.discharged()]
            run.violation('proof obligation(s) no longer check: ' + ', '.join(broken),
                          {'broken_obligations': broken, 'searched': searched,
                           'log': [o.log[-1200:] for o in run.obligations if not o.discharged()][:2]}, found_input=False)
    run.assumptions += [
        'threading.local gives every thread its own attribute namespace (CPython run time; exercised with 1..16 real threads)',
        'context objects are only pushed/popped through ControlStatusCtx.__enter__/__exit__ (checked syntactically over all '
        'non-test modules of malt on every run)',
        'the thread theorem takes as a thread\'s program the event log of its own execution (pushes, identity-checked pops, '
        'observations); it does not model asynchronous exceptions delivered between append and the start of the with body',
        'functions wrapped in the trees are convertible plain functions or dynamic code; generators/coroutines are not covered',
    ]


def classify(rp):
    """No known finding is registered for C16."""
    return None


# ------------------------------------------------------------------ replay
def replay(path):
    doc = json.load(open(path))
    rp = doc.get('replay', {})
    print(doc.get('title'))
    if 'tree' not in rp:
        print(json.dumps(rp, indent=1))
        return 0
    tmp = vlib.ensure_dir(os.path.join(vlib.BUILD, 'tmp', str(os.getpid())))
    os.environ['TMPDIR'] = tmp
    import tempfile
    tempfile.tempdir = tmp
    try:
        from translate import c16_rt as rt
        glob = make_globals(rt)
        t = rp['tree']
        print(describe(t))
        nth = rp.get('threads', 1)
        allf = []
        if nth <= 1 or 'all_trees' not in rp:
            rec, out = run_solo(rt, t, glob, on_main=(rp.get('mode') == 'main thread'))
            allf = judge(t, rec, out)
            print('observed (node, position, object#, status, depth, user-requested-converted):')
            for e in canon_events(rec.events):
                print('  ', e)
            print('outcome', out)
        else:
            trees = rp['all_trees']
            solo = [run_solo(rt, x, glob) for x in trees]
            res, _ = run_threads(rt, trees, glob, rp.get('schedule_seed', 0), scheduled='schedule_seed' in rp,
                                 repeat=1 if 'schedule_seed' in rp else 20)
            for i, x in enumerate(trees):
                for rec, out in res[i]:
                    fs = judge(x, rec, out)
                    if (canon_events(solo[i][0].events), solo[i][1]) != (canon_events(rec.events), out):
                        fs.append('thread %d sees a different sequence of contexts than alone' % i)
                    allf += fs
        for f in allf:
            print('FAIL:', f)
        print('replay verdict:', 'property violated' if allf else 'no failure reproduced')
        return 1 if allf else 0
    finally:
        shutil.rmtree(tmp, ignore_errors=True)
