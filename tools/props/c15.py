"""C15 -- source recovery returns exactly the code of the function being converted (DESIGN.md 4/C15).

 1. regenerate coq/Generated/C15_gen.v from malt/pyct/parser.py (tools/translate/c15_lambda.py, fail closed):
    decision rules / span comparison of _parse_lambda, compared components of _node_matches_argspec, and the
    check that _unfold_continuations still is the textual replacement the Coq function unfold_cont models
 2. re-check the obligations in coq/Properties/C15 (dedent_preserves_tokens, ..., lambda_never_substituted,
    side conditions of the generated tables, refuted witnesses of the known findings)
 3. correspondence, evaluated in Coq by vm_compute:
      lex       Coq `lex` (the specification side) vs CPython's tokenize on generated module texts and blocks
      unfold    Coq `unfold_cont`  vs parser._unfold_continuations
      dedent    Coq `dedent_block` vs parser.dedent_block on the blocks inspect_utils.getimmediatesource returns
      safe      Coq guard `unfold_safe` vs the harness' classifier
      lambda    Coq `select_in_file` over the generated tables (decision rules, span comparison, signature components,
                text normalisation of parse()) and the file's own candidate table + number of leading
                whitespace-only lines vs parser._parse_lambda (which lambda / raises)
 4. property-level oracle on the real code: generated modules are written to build/tmp/<pid>/, imported, and
    for every function object  ast.dump(parse_entity(f, ())[0])  is compared with ast.dump of the FunctionDef
    that CPython compiled for it (found by co_name / co_firstlineno in ast.parse of the module text); for every
    lambda with the Lambda node at the code object's co_positions (cross-checked with the unique constant the
    generator puts into every lambda); an explicit UnsupportedLanguageElementError is accepted for lambdas and
    for mixed tab/space indentation only.
"""
import ast
import importlib.util
import inspect
import json
import os
import random
import shutil
import sys
from concurrent.futures import ThreadPoolExecutor

from lib import vlib
from translate import c15_gen, c15_lambda
from translate import c15_pylex as L

PID = 'C15'
CORPUS = os.path.join(vlib.ROOT, 'corpus', PID)

KF = {'string': 'c15-unfold-in-string', 'comment': 'c15-unfold-in-comment', 'glue': 'c15-unfold-glues-tokens',
      'linestart': 'c15-unfold-glues-tokens'}
KF_POSONLY = 'c15-lambda-posonly'
KF_SIGOVERRIDE = 'c15-lambda-signature-override'


def generate():
    text = c15_lambda.translate(vlib.REPO)
    vlib.write_if_changed(os.path.join(vlib.COQ, 'Generated', 'C15_gen.v'), text)


# ------------------------------------------------------------------ loading generated modules
def write_source(path, src, stamp=None):
    with open(path, 'w', encoding='utf-8', newline='\n') as f:
        f.write(src)
    if stamp is not None:          # make sure the edit is visible to linecache.checkcache (size/mtime)
        os.utime(path, (stamp, stamp))


def _with_alarm(fn, *a):
    import signal

    def _alarm(*_):
        raise TimeoutError('generated module runs too long')
    old = signal.signal(signal.SIGALRM, _alarm)
    signal.alarm(20)
    try:
        return fn(*a)
    finally:
        signal.alarm(0)
        signal.signal(signal.SIGALRM, old)


def edit_same_lines(src, rnd_no):
    """another version of a generated module: same names at the same lines, different bodies"""
    out = []
    for l in src.split('\n'):
        st = l.strip()
        ind = l[:len(l) - len(l.lstrip())]
        if st == 'pass':
            l = ind + 'x = %d' % (70 + rnd_no)
        elif st == 'return x':
            l = ind + 'return (x, %d)' % rnd_no
        elif st in ('"""doc"""', '"""class doc"""'):
            l = ind + '"""doc v%d"""' % rnd_no
        elif st == 'x = None' and ind:
            l = ind + 'x = None; y = %d' % rnd_no
        out.append(l)
    return '\n'.join(out)


def load_module(tmp, name, src, register=True):
    """register=False: the module is executed without being entered into sys.modules (inspect.getmodule then finds no module
    for its functions; the source file is readable all the same)"""
    path = os.path.join(tmp, name + '.py')
    write_source(path, src)
    spec = importlib.util.spec_from_file_location(name, path)
    mod = importlib.util.module_from_spec(spec)
    if register:
        sys.modules[name] = mod

    def _alarm(*a):
        raise TimeoutError('generated module runs too long')
    import signal
    old = signal.signal(signal.SIGALRM, _alarm)
    signal.alarm(20)
    try:
        spec.loader.exec_module(mod)
    finally:
        signal.alarm(0)
        signal.signal(signal.SIGALRM, old)
    return mod, path


# ------------------------------------------------------------------ CPython as oracle
def own_body_consts(lam_node):
    """integer constants in the body of a Lambda node, not looking into nested lambdas"""
    out = []
    stack = [lam_node.body]
    while stack:
        n = stack.pop()
        if isinstance(n, ast.Lambda):
            continue
        if isinstance(n, ast.Constant) and isinstance(n.value, int) and not isinstance(n.value, bool):
            out.append(n.value)
        stack.extend(ast.iter_child_nodes(n))
    return out


def expected_function_node(tree, fn):
    code = fn.__code__
    hits = []
    for n in ast.walk(tree):
        if isinstance(n, (ast.FunctionDef, ast.AsyncFunctionDef)) and n.name == code.co_name:
            first = min([n.lineno] + [d.lineno for d in n.decorator_list])
            if first == code.co_firstlineno:
                hits.append(n)
    return hits[0] if len(hits) == 1 else None


def expected_lambda_node(tree, lam):
    """the Lambda node whose body holds the positions of the code object's instructions (smallest such)"""
    code = lam.__code__
    pos = [(l, c, el, ec) for (l, el, c, ec) in code.co_positions()
           if l is not None and c is not None and not (c == 0 and ec == 0)]
    best = None
    for n in ast.walk(tree):
        if not (isinstance(n, ast.Lambda) and n.lineno == code.co_firstlineno):
            continue
        b = n.body
        lo, hi = (b.lineno, b.col_offset), (b.end_lineno, b.end_col_offset)
        if all(lo <= (l, c) and (el, ec) <= hi for (l, c, el, ec) in pos):
            size = (hi[0] - lo[0], hi[1] - lo[1] if hi[0] == lo[0] else hi[1])
            if best is None or size < best[0]:
                best = (size, n)
    return best[1] if best else None


def lambda_table(tree, intern):
    """the candidate table as _parse_lambda computes it: [(lineno, [(id, minl, maxl, sig, node)])]"""
    nodes = []
    lid = 0
    for top in tree.body:
        lams = []
        for n in ast.walk(top):
            if isinstance(n, ast.Lambda):
                minl, maxl = sys.maxsize, 0
                for m in ast.walk(n):
                    minl = min(minl, getattr(m, 'lineno', minl))
                    ln = getattr(m, 'lineno', maxl)
                    if getattr(m, 'end_lineno', None) is not None:
                        ln = m.end_lineno
                    maxl = max(maxl, ln)
                a = n.args
                sig = ([intern(x.arg) for x in a.posonlyargs], [intern(x.arg) for x in a.args],
                       [intern(a.vararg.arg)] if a.vararg else [], [intern(a.kwarg.arg)] if a.kwarg else [],
                       [intern(x.arg) for x in a.kwonlyargs])
                lams.append((lid, minl, maxl, sig, n))
                lid += 1
        nodes.append((getattr(top, 'lineno', 0), lams))
    return nodes


def lead_lines(text):
    """number of newline characters in the leading whitespace run of a file text (= the lines str.lstrip drops)"""
    return text[:len(text) - len(text.lstrip())].count('\n')


def coq_names(l):
    return '[%s]' % '; '.join(str(x) for x in l)


def coq_sig(sig):
    return '(mksig %s)' % ' '.join(coq_names(x) for x in sig)


# ------------------------------------------------------------------ the fix candidate used by the classifiers
def safe_unfold(code):
    """token-aware unfolding: only continuations in code are joined, a blank is kept where two tokens meet"""
    bad = dict(L.unsafe_continuations(code))
    out = []
    i = 0
    while i < len(code):
        if code[i] == '\\' and code[i + 1:i + 2] == '\n':
            k = bad.get(i)
            if k in ('string', 'comment', 'string-harmless'):
                out.append('\\\n')
            elif k is not None:
                out.append(' ')
            i += 2
        else:
            out.append(code[i])
            i += 1
    return ''.join(out)


class Harness(object):
    def __init__(self, run, tmp):
        from malt.pyct import parser, inspect_utils, errors
        self.parser, self.iu, self.errors = parser, inspect_utils, errors
        self.run = run
        self.tmp = tmp
        if tmp not in sys.path:
            sys.path.insert(0, tmp)      # importlib.reload finds the history modules there
        self.cases = []          # Coq case terms
        self.case_info = {}      # index -> description
        self.failures = []       # property-level: dict(kind, title, replay, classify)
        self.names = {}
        self.stats = {'functions': 0, 'lambdas': 0, 'lambda_raised': 0, 'mixed_refused': 0, 'modules': 0,
                      'fn_ok': 0, 'lam_ok': 0}
        self.nmod = 0

    def intern(self, name):
        return self.names.setdefault(name, len(self.names) + 1)

    def add_case(self, kind, rest, info):
        i = len(self.cases)
        self.cases.append('%s %d %s' % (kind, i, rest))
        self.case_info[i] = info

    # --- the property, on one function object
    def judge_function(self, fn, tree, ctx):
        parser = self.parser
        want = expected_function_node(tree, fn)
        if want is None:
            return
        self.stats['functions'] += 1
        self.run.count()
        try:
            got = parser.parse_entity(fn, ())[0]
            res = ast.dump(got)
        except self.errors.UnsupportedLanguageElementError as e:
            res = 'UNSUPPORTED: %s' % e
        except Exception as e:      # noqa
            res = 'RAISED %s: %s' % (type(e).__name__, e)
        if res == ast.dump(want):
            self.stats['fn_ok'] += 1
            return
        try:
            blk = self.iu.getimmediatesource(fn)
        except Exception as e:   # noqa
            blk = '<getimmediatesource raised %r>' % e
        if res.startswith('UNSUPPORTED') and 'mixing tabs and spaces' in res and ctx.get('style') == 'mixed':
            self.stats['mixed_refused'] += 1
            return
        classify = self.classify_unfold(fn, want, blk)
        self.failures.append({
            'title': 'parse_entity does not return the definition CPython compiled for %s' % fn.__qualname__,
            'classify': classify,
            'replay': dict(ctx, function=fn.__qualname__, co_firstlineno=fn.__code__.co_firstlineno,
                           block_returned_by_getimmediatesource=blk,
                           expected_ast=ast.dump(want)[:1500], observed=res[:1500],
                           command='write `module_source` to a file m.py, import it, then '
                                   'PYTHONPATH=/repo /venv/bin/python -c "import m, ast; from malt.pyct import parser; '
                                   'print(ast.unparse(parser.parse_entity(m.REG[KEY], ())[0]))"')})

    def classify_unfold(self, fn, want, blk):
        """known finding iff the block has an unsafe backslash-newline AND neutralising exactly those makes
        parse_entity return the right tree."""
        kinds = sorted(set(k for _, k in L.unsafe_continuations(blk)) - {'string-harmless'})
        if not kinds:
            return None
        parser = self.parser
        orig = parser._unfold_continuations
        parser._unfold_continuations = safe_unfold
        try:
            ok = ast.dump(parser.parse_entity(fn, ())[0]) == ast.dump(want)
        except Exception:   # noqa
            ok = False
        finally:
            parser._unfold_continuations = orig
        if not ok:
            return None
        # attribute to one kind: the first kind whose neutralisation alone suffices
        for k in kinds:
            def only(code, k=k):
                bad = dict(L.unsafe_continuations(code))
                out, i = [], 0
                while i < len(code):
                    if code[i] == '\\' and code[i + 1:i + 2] == '\n':
                        kk = bad.get(i)
                        if kk == k or kk == 'string-harmless':
                            out.append('\\\n' if kk in ('string', 'comment', 'string-harmless') else ' ')
                        i += 2
                    else:
                        out.append(code[i])
                        i += 1
                return ''.join(out)
            parser._unfold_continuations = only
            try:
                if ast.dump(parser.parse_entity(fn, ())[0]) == ast.dump(want):
                    return KF[k]
            except Exception:   # noqa
                pass
            finally:
                parser._unfold_continuations = orig
        return KF[kinds[0]]

    # --- the property, on one lambda object; also the lambda correspondence case
    def judge_lambda(self, key, lam, tree, table, ctx):
        parser = self.parser
        want = expected_lambda_node(tree, lam)
        marker = 1000 + int(key[1:]) if key[1:].isdigit() else None
        if want is None or (marker is not None and marker not in own_body_consts(want)):
            # the oracle itself could not locate the node: count, do not judge
            self.run.note('oracle could not locate lambda %s' % key) if want is None else None
            if want is None:
                return
            # fall back on the marker
            cands = [n for n in ast.walk(tree) if isinstance(n, ast.Lambda) and marker in own_body_consts(n)]
            if len(cands) != 1:
                return
            want = cands[0]
        self.stats['lambdas'] += 1
        self.run.count()
        raised = False
        got = None
        try:
            got = parser.parse_entity(lam, ())[0]
            res = ast.dump(got)
        except self.errors.UnsupportedLanguageElementError as e:
            raised = True
            res = 'UNSUPPORTED'
        except Exception as e:      # noqa
            res = 'RAISED %s: %s' % (type(e).__name__, e)
        # correspondence case for the selection model
        d = lam.__code__.co_firstlineno
        fs = inspect.getfullargspec(lam)
        spec = ([], [self.intern(x) for x in fs.args], [self.intern(fs.varargs)] if fs.varargs else [],
                [self.intern(fs.varkw)] if fs.varkw else [], [self.intern(x) for x in fs.kwonlyargs])
        found_id = None
        lead = lead_lines(ctx.get('module_source', ''))
        if got is not None:
            # which lambda of the file was returned: by text and columns; the line span only separates equal texts
            hits = [(lid, minl <= d <= maxl) for top in table for (lid, minl, maxl, sig, n) in top[1]
                    if n.col_offset == got.col_offset and n.end_col_offset == got.end_col_offset
                    and n.lineno - minl == got.lineno and ast.dump(n) == res]
            if len(hits) > 1:
                hits = [h for h in hits if h[1]]
            found_id = hits[0][0] if len(hits) == 1 else -1
        if raised or got is not None:
            nodes = '[%s]' % '; '.join('(%d, [%s])' % (ln, '; '.join(
                'mklam %d %d %d %s' % (lid, minl, min(maxl, 100000), coq_sig(sig)) for (lid, minl, maxl, sig, n) in lams))
                for ln, lams in table if ln <= d + 3 + lead)
            exp = 'None' if raised else '(Some %d)' % (found_id if found_id >= 0 else 99999)
            self.add_case('CLam', '%d %s %d %s %s' % (lead, nodes, d, coq_sig(spec), exp),
                          ('lambda', ctx.get('module'), key, d, 'raised' if raised else found_id))
        if raised:
            self.stats['lambda_raised'] += 1
            return
        if res == ast.dump(want):
            self.stats['lam_ok'] += 1
            self.run.nontriv(('lam', len([1 for top in table for l in top[1] if l[1] <= d <= l[2]]), res[:40]))
            if lead:
                self.stats['lambdas_in_files_with_leading_blank_lines'] = \
                    self.stats.get('lambdas_in_files_with_leading_blank_lines', 0) + 1
            return
        classify = None
        if want.args.posonlyargs and got is not None:
            classify = KF_POSONLY
        if '__signature__' in getattr(lam, '__dict__', {}) and got is not None:
            # known finding iff the SILENT substitution disappears once the foreign __signature__ attribute is taken
            # away: parse_entity then returns the creating lambda, or refuses explicitly (e.g. its ambiguity error
            # when a neighbour has the same own signature) -- nothing wider
            saved = lam.__dict__.pop('__signature__')
            try:
                if ast.dump(parser.parse_entity(lam, ())[0]) == ast.dump(want):
                    classify = KF_SIGOVERRIDE
            except self.errors.UnsupportedLanguageElementError:
                classify = KF_SIGOVERRIDE
            except Exception:   # noqa
                pass
            finally:
                lam.__signature__ = saved
        self.failures.append({
            'title': 'parse_entity returns a different lambda than the one that created %s' % key,
            'classify': classify,
            'replay': dict(ctx, lambda_key=key, co_firstlineno=d, expected=ast.unparse(want),
                           observed=(ast.unparse(got) if got is not None else res)[:1500],
                           command='write `module_source` to m.py; PYTHONPATH=/repo /venv/bin/python -c "import m, ast; '
                                   'from malt.pyct import parser; print(ast.unparse(parser.parse_entity(m.REG[%r], ())[0]))"' % key)})

    # --- text-function correspondence cases from one block / text
    def text_cases(self, text, what, lexcase=True):
        parser = self.parser
        if '$' in text or any(ord(c) > 126 or (ord(c) < 32 and c not in '\n\t') for c in text):
            return False      # outside the modelled alphabet: judged by the oracle only
        s = vlib.coq_str(text)
        self.add_case('CUnfold', '%s %s' % (s, vlib.coq_str(parser._unfold_continuations(text))), ('unfold', what, text))
        try:
            exp = '(Some %s)' % vlib.coq_str(parser.dedent_block(text))
        except self.errors.UnsupportedLanguageElementError:
            exp = 'None'
        except Exception as e:   # noqa
            exp = None
        if exp is not None:
            self.add_case('CDedent', '%s %s' % (s, exp), ('dedent', what, text))
        self.add_case('CSafe', '%s %s' % (s, vlib.coq_bool(not L.unsafe_continuations(text))), ('safe', what, text))
        if lexcase:
            try:
                r = L.render_tokenize(text)
            except Exception:   # noqa
                r = None
            if r is not None:
                self.add_case('CLex', '%s %s' % (s, vlib.coq_str(r)), ('lex', what, text))
        self.run.nontriv(('text', hash(text)))
        return True

    # --- one generated module
    def do_module(self, src, ctx, text_budget):
        self.nmod += 1
        name = 'c15m_%d_%d' % (os.getpid(), self.nmod)
        registered = self.nmod % 4 != 0          # every fourth module stays out of sys.modules
        ctx = dict(ctx, module=name, module_source=src, registered=registered)
        try:
            mod, path = load_module(self.tmp, name, src, registered)
        except Exception as e:   # noqa
            self.run.note('generated module does not import (%s: %s) -- skipped' % (type(e).__name__, e))
            return
        self.stats['modules'] += 1
        tree = ast.parse(src)
        table = lambda_table(tree, self.intern)
        seen = set()
        for key in sorted(mod.REG):
            f = mod.REG[key]
            if not inspect.isfunction(f) or id(f.__code__) in seen:
                continue
            seen.add(id(f.__code__))
            if self.iu.islambda(f):
                self.judge_lambda(key, f, tree, table, ctx)
            else:
                self.judge_function(f, tree, dict(ctx, KEY=key))
                if text_budget[0] > 0:
                    try:
                        blk = self.iu.getimmediatesource(f)
                    except Exception:   # noqa
                        continue
                    if len(blk) < 1500:
                        if self.text_cases(blk, '%s:%s' % (name, key)):
                            text_budget[0] -= 1
        sys.modules.pop(name, None)

    # --- histories: the same location holds different definitions over time
    def judge_objects(self, reg, tree, ctx, lambdas=True):
        seen = set()
        for key in sorted(reg):
            f = reg[key]
            if not inspect.isfunction(f) or id(f.__code__) in seen:
                continue
            seen.add(id(f.__code__))
            if self.iu.islambda(f):
                if lambdas:
                    self.judge_lambda(key, f, tree, lambda_table(tree, self.intern), ctx)
            else:
                self.judge_function(f, tree, dict(ctx, KEY=key))

    def do_file_history(self, src, ctx, rounds, how):
        """write, import, recover; then `rounds` times: rewrite the file (same names / lines, other bodies),
        reload or re-import, recover the NEW objects -- each judged against the text compiled for that object"""
        import time
        self.nmod += 1
        name = 'c15m_h%d_%d' % (os.getpid(), self.nmod)
        path = os.path.join(self.tmp, name + '.py')
        texts = [src]
        stamp = int(time.time()) - 1000
        try:
            mod, _ = load_module(self.tmp, name, src)
        except Exception as e:   # noqa
            self.run.note('history module does not import (%s) -- skipped' % type(e).__name__)
            return
        os.utime(path, (stamp, stamp))
        self.stats['histories'] = self.stats.get('histories', 0) + 1
        self.judge_objects(mod.REG, ast.parse(src), dict(ctx, module=name, module_source=src, history_step=0))
        for r in range(1, rounds + 1):
            text = edit_same_lines(src, r)
            texts.append(text)
            write_source(path, text, stamp + 10 * r)
            try:
                if how == 'reload' or (how == 'alternate' and r % 2):
                    mod = _with_alarm(importlib.reload, mod)
                    step = 'importlib.reload'
                else:
                    sys.modules.pop(name, None)
                    spec = importlib.util.spec_from_file_location(name, path)
                    mod = importlib.util.module_from_spec(spec)
                    sys.modules[name] = mod
                    _with_alarm(spec.loader.exec_module, mod)
                    step = 're-import'
            except Exception as e:   # noqa
                self.run.note('history step does not import (%s: %s)' % (type(e).__name__, e))
                break
            self.judge_objects(mod.REG, ast.parse(text), dict(
                ctx, module=name, module_source=text, history=list(texts), history_step=r, history_how=step,
                note='the file was rewritten %d time(s) with other bodies at the same lines and %sed; the object '
                     'judged is the one compiled from the LAST text' % (r, step)))
        sys.modules.pop(name, None)

    def do_exec_history(self, src, ctx, rounds):
        """exec'd code whose text lives only in linecache; the entry is replaced and the code exec'd again"""
        import linecache
        self.nmod += 1
        fname = '<c15-exec-%d-%d>' % (os.getpid(), self.nmod)
        texts = []
        for r in range(rounds + 1):
            text = src if r == 0 else edit_same_lines(src, r)
            texts.append(text)
            linecache.cache[fname] = (len(text), None, [l + '\n' for l in text.split('\n')[:-1]], fname)
            ns = {'__name__': 'c15m_exec'}
            try:
                _with_alarm(exec, compile(text, fname, 'exec'), ns)
            except Exception as e:   # noqa
                self.run.note('exec history does not run (%s: %s)' % (type(e).__name__, e))
                break
            self.stats['exec_steps'] = self.stats.get('exec_steps', 0) + 1
            self.judge_objects(ns['REG'], ast.parse(text), dict(
                ctx, module=fname, module_source=text, history=list(texts), history_step=r, history_how='exec+linecache',
                note='code exec()d from a string under the file name %s with linecache.cache[%r] set to its text; '
                     'step %d' % (fname, fname, r)), lambdas=False)
        linecache.cache.pop(fname, None)


ADVERSARIAL = [
    'x = 1\n', '', '\n', '   \n', 'a\\\nb', '\\\n', '\\\\\n\n', 'a \\\n b\n', "s = 'a\\\nb'\n", '# c \\\nx\n',
    '    def f():\n\treturn 1\n', '\tdef f():\n\t    return 1\n', '\tdef f():\n\t\treturn 1\n\t# c\n',
    '  def f(a,\nb):\n      return (a,\n b)\n\n  \n', '    def f():\n        """d\n  x\n"""\n        return 1',
    '  @d\n  def f(): pass\n', '    class C:\n     x = 1\n     def g(self):\n            pass\n     y = 2\n',
    '  def f():\n    if x:\n         y\n    # c\n      # d\n    z = [\n1,\n          2]\n',
    " def f():\n  s = r'''a\\\nb'''\n", " def f():\n  x = not\\\nx\n", " def f():\n  x = 1 # c \\\n  x = 2\n",
    '  def f():\n    x = 1 +\\\n  2\n    return\\\n x\n',
]


def check(run):
    run.rule = ('seeded generated modules (spaces / tabs / mixed indentation, nesting in class/def/if/for/while/with/try, '
                'comments at any column, blank lines, bracket and backslash continuations, triple-quoted/raw/bytes/f-strings '
                'with under-indented lines, decorators, multi-line signatures, 1-3 lambdas per line with equal/different '
                'signatures, nested and multi-line lambdas; every second module with a file layout: prologue of blank / '
                'blanks-only / form-feed lines, comment header or docstring before the first statement, trailing blank lines / '
                'no final newline, columns of 2-4 lambdas on consecutive lines) + an unsafe stream with the known-finding constructs + corpus; '
                'one evaluation = one function or lambda object judged against CPython\'s own AST; distinct non-trivial = '
                'distinct block texts / lambda situations')
    tmp = vlib.ensure_dir(os.path.join(vlib.BUILD, 'tmp', str(os.getpid())))
    os.environ['TMPDIR'] = tmp
    try:
        _check(run, tmp)
    finally:
        shutil.rmtree(tmp, ignore_errors=True)
        if tmp in sys.path:
            sys.path.remove(tmp)
        for k in [k for k in sys.modules if k.startswith('c15m_')]:
            sys.modules.pop(k, None)


def _check(run, tmp):
    tie_msg = None
    try:
        generate()
    except c15_lambda.Untranslatable as e:
        tie_msg = str(e)
        run.note(tie_msg)
    make_ok = True
    if tie_msg is None:
        make_ok, _ = vlib.standard_proof_step(run, ['Lexer/DedentCheck.vo'])
    h = Harness(run, tmp)
    thorough = (run.tier == 'thorough')
    nmod = 1500 if thorough else 200
    text_budget = [4000 if thorough else 450]
    rnd = random.Random(run.seed)
    lay = random.Random('c15-layout-%s' % run.seed)
    # corpus first: the witnesses of the known findings and earlier finds
    if os.path.isdir(CORPUS):
        for fn in sorted(os.listdir(CORPUS)):
            if fn.endswith('.py'):
                with open(os.path.join(CORPUS, fn)) as f:
                    h.do_module(f.read(), {'origin': 'corpus/C15/' + fn, 'style': 'spaces'}, text_budget)
    for i in range(nmod):
        style = ['spaces', 'spaces', 'tabs', 'spaces', 'mixed', 'spaces', 'tabs', 'spaces'][i % 8]
        unsafe = (i % 6 == 5)
        seed = rnd.randrange(1 << 30)
        # every second module also gets a file layout (prologue / epilogue / columns of lambdas on consecutive
        # lines) from an independent stream: the modules of the main stream keep their text
        layout = lay.randrange(1 << 30) if i % 2 else None
        src, g = c15_gen.gen_module(seed, style=style, unsafe=unsafe, size=rnd.choice([4, 6, 8, 10]), layout=layout)
        h.do_module(src, {'origin': 'c15_gen.gen_module(%d, style=%r, unsafe=%r, layout=%r)' % (seed, style, unsafe, layout),
                          'style': style, 'unsafe': unsafe}, text_budget)
        if i < 4:
            h.text_cases(src, 'module text %d' % i)
    # histories (the property quantifies over the definitions a location holds over time)
    nh = 60 if thorough else 10
    for i in range(nh):
        seed = rnd.randrange(1 << 30)
        style = ['spaces', 'tabs', 'spaces'][i % 3]
        layout = lay.randrange(1 << 30) if i % 2 else None
        src, g = c15_gen.gen_module(seed, style=style, unsafe=False, size=rnd.choice([4, 6]), layout=layout)
        how = ['reload', 're-import', 'alternate'][i % 3]
        org = 'history of c15_gen.gen_module(%d, style=%r, layout=%r) edited by c15.edit_same_lines, %s' % (
            seed, style, layout, how)
        if i % 5 == 4:
            h.do_exec_history(src, {'origin': org, 'style': style}, 3)
        else:
            h.do_file_history(src, {'origin': org, 'style': style}, 3, how)
    for j, t in enumerate(ADVERSARIAL):
        h.text_cases(t, 'adversarial %d' % j, lexcase=(j < 10))
    # random character soup over the lexically relevant alphabet (unfold / safe / lex-free)
    for j in range(200 if thorough else 40):
        t = ''.join(rnd.choice(['\\', '\n', ' ', 'a', '#', "'", '"', '(', ')', '\t', '\\\n', "'''", 'r'])
                    for _ in range(rnd.randint(1, 30)))
        s = vlib.coq_str(t)
        h.add_case('CUnfold', '%s %s' % (s, vlib.coq_str(h.parser._unfold_continuations(t))), ('unfold', 'soup', t))
        h.add_case('CSafe', '%s %s' % (s, vlib.coq_bool(not L.unsafe_continuations(t))), ('safe', 'soup', t))
    run.extra.update(h.stats)
    run.extra['correspondence_cases'] = len(h.cases)
    for f in h.failures[:3]:
        pass
    run.sample({'functions_judged': h.stats['functions'], 'lambdas_judged': h.stats['lambdas']})
    # --- model vs implementation in Coq
    corr_bad = None
    if tie_msg is None and make_ok:
        shards = [list(range(k, min(k + 120, len(h.cases)))) for k in range(0, len(h.cases), 120)]

        def one(idx_shard):
            n, idxs = idx_shard
            body = ['From Coq Require Import List String Bool Ascii.', 'Import ListNotations.',
                    'Require Import MV.Lexer.PyLex MV.Lexer.Dedent MV.Lexer.LambdaSyntax MV.Lexer.LambdaSel '
                    'MV.Generated.C15_gen MV.Lexer.DedentCheck.',
                    'Local Open Scope string_scope.',
                    'Definition cases : list case := [', ';\n'.join(h.cases[i] for i in idxs), '].',
                    'Eval vm_compute in failing cases.']
            rc, out = vlib.coq_eval(PID, 'cases%d' % n, '\n'.join(body), timeout=600)
            bad = vlib.parse_coq_list_of_nat(out) if rc == 0 else None
            return rc, out, bad
        with ThreadPoolExecutor(max_workers=8) as ex:
            results = list(ex.map(one, enumerate(shards)))
        bad_all = []
        for rc, out, bad in results:
            if bad is None:
                corr_bad = 'model evaluation failed: ' + out[-600:]
            else:
                bad_all += bad
        run.extra['traces_validated_against_impl'] = len(h.cases)
        if bad_all and corr_bad is None:
            info = h.case_info[bad_all[0]]
            corr_bad = 'model and implementation disagree on %d case(s), first: %r' % (len(bad_all), info)
            run.extra['disagreements'] = [repr(h.case_info[i])[:600] for i in bad_all[:10]]
    elif tie_msg is None:
        corr_bad = 'Coq development does not build'
    # --- verdict
    reported = set()
    real = 0
    for f in h.failures:
        key = (f['classify'], f['title'].split(' for ')[0]) if f['classify'] else f['title']
        if key in reported:
            continue
        reported.add(key)
        if run.violation(f['title'], f['replay'], classify=f['classify']):
            real += 1
        if real >= 5:
            break
    if not real:
        if tie_msg is not None:
            run.violation('translator no longer recognises parser.py: ' + tie_msg,
                          {'broken_tie': tie_msg,
                           'searched': 'oracle over %d functions and %d lambdas found no unknown failing input' % (
                               h.stats['functions'], h.stats['lambdas'])}, found_input=False)
        elif corr_bad:
            run.violation('correspondence model/implementation broken', {
                'broken_correspondence': corr_bad, 'details': run.extra.get('disagreements'),
                'searched': 'oracle over %d functions and %d lambdas found no unknown failing input' % (
                    h.stats['functions'], h.stats['lambdas'])}, found_input=False)
    run.assumptions += [
        "CPython's tokenize/untokenize, inspect.findsource/getblock, linecache and ast.parse are the oracle, not modelled "
        'beyond PyLex (validated against tokenize each run); f-strings are lexed as ordinary strings (no reuse of the '
        'enclosing quote inside a replacement field in generated sources)',
        'blanks are space and tab; no form feed / carriage return / non-ASCII characters in the modelled texts',
        'indentation widths are compared by character count (equivalent to the tokenizer column rule on sources it accepts)',
        'the function object of a lambda reports via getfullargspec the signature of the lambda expression that created it',
    ]


def replay(path):
    doc = json.load(open(path))
    rp = doc.get('replay', {})
    src = rp.get('module_source')
    if not src:
        print(json.dumps(doc, indent=1))
        return 0
    from malt.pyct import parser
    tmp = vlib.ensure_dir(os.path.join(vlib.BUILD, 'tmp', 'replay%d' % os.getpid()))
    try:
        hist = rp.get('history') or [src]
        sys.path.insert(0, tmp)
        if rp.get('history_how') == 'exec+linecache':
            import linecache
            fname = rp.get('module') or '<c15-replay>'
            for text in hist:
                linecache.cache[fname] = (len(text), None, [l + '\n' for l in text.split('\n')[:-1]], fname)
                ns = {'__name__': 'c15m_exec'}
                exec(compile(text, fname, 'exec'), ns)
                f0 = ns['REG'].get(rp.get('KEY'))
                if f0 is not None and text is not hist[-1]:
                    try:
                        parser.parse_entity(f0, ())
                    except Exception:   # noqa
                        pass

            class _M(object):
                REG = ns['REG']
            mod = _M
        else:
            mod, path = load_module(tmp, 'c15m_replay', hist[0], rp.get('registered', True) or len(hist) > 1)
            for r, text in enumerate(hist[1:], 1):
                f0 = mod.REG.get(rp.get('KEY'))
                if f0 is not None:
                    try:
                        parser.parse_entity(f0, ())      # the earlier recovery is part of the history
                    except Exception:   # noqa
                        pass
                write_source(path, text, 2000000000 + 10 * r)
                mod = importlib.reload(mod)
        key = rp.get('KEY') or rp.get('lambda_key')
        f = mod.REG[key]
        print('object:', key, f)
        print('expected:', rp.get('expected') or rp.get('expected_ast'))
        try:
            print('observed now:', ast.unparse(parser.parse_entity(f, ())[0]))
        except Exception as e:   # noqa
            print('observed now: raised %s: %s' % (type(e).__name__, e))
    finally:
        shutil.rmtree(tmp, ignore_errors=True)
        if tmp in sys.path:
            sys.path.remove(tmp)
    return 0
