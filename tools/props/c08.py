"""C08 -- the activity (scope) analysis matches Python's own binding rules (DESIGN.md 4/C08).

Model   coq/Scope/Ast.v        uniform tree (kinds = the node classes activity.py has visitors for)
        coq/Scope/Activity.v   H: executable model of Scope / ActivityAnalyzer (finalize merging, isolated vs
                               surrogate scopes, isolated_names, comprehension state, args visited twice, ...)
        coq/Scope/Binders.v    S: CPython's binding rule + evaluation rule (facts of a block)
        coq/Generated/C08_gen.v  G: the three measured behaviours of visit_arg (tools/translate/c08_quirks.py)
Theorems (coq/Properties/C08):
   activity_matches_binders (+ _now for the measured quirks)  full: bound-globals-nonlocals / globals / nonlocals /
        params of every def / lambda = CPython's rule, modulo comprehension targets, except names (+ nested params
        while the known finding activity-nested-params-leak is present)
   stmt_reads_writes_complete_partial    reads / writes / deletes of simple statements are in read / modified / deleted
   activity_param_leak_refuted, activity_walrus_in_comprehension_refuted   witnesses of the two known findings
Ties, checked on every run on generated programs:
   * Activity.records(tree) = the Scope objects activity.resolve put on the real tree (SCOPE, COND/BODY/ORELSE/
     ITERATE/ARGS_AND_BODY scopes; read, modified, bound, deleted, globals, nonlocals, params, isolated_names)
   * Binders (locals, parameters, declared globals, nonlocals of every def / lambda) = symtable.symtable(source)
   * Binders (FRead / FWrite / FDel of a statement) contain what CPython really does when it executes the statement
Property-level oracle on the implementation (no model involved):
   * static: per def / lambda at any depth, bound - globals - nonlocals / globals / nonlocals / params / free_vars
     of the real Scope objects against symtable
   * dynamic: every variable read / written / deleted by an instrumented run (sys.monitoring, tools/lib/pyrt.py)
     is in read / modified / deleted of the scope of the statement (or header) on that line
"""
import ast
import json
import os
import random
import symtable
from concurrent.futures import ThreadPoolExecutor

from lib import vlib, pyrt
from gen import c08_progs
from translate import c08_export as X
from translate import c08_quirks

KF_LEAK = 'activity-nested-params-leak'
KF_WALRUS = 'activity-walrus-in-comprehension'
KF_FREE = 'activity-free-vars-name-based'
KF_CUT = 'activity-lambda-in-annotation-ends-pass'
KF_PAREN = 'activity-parenthesized-annotation-binds'
COMPS = ('listcomp', 'setcomp', 'dictcomp', 'genexpr')


def generate():
    return c08_quirks.generate()


# ------------------------------------------------------------------------------------------------
# helpers on the Python ast (independent of the Coq model)

def fn_params(fn):
    a = fn.args
    return [p for p in a.posonlyargs + a.args + ([a.vararg] if a.vararg else []) + a.kwonlyargs + ([a.kwarg] if a.kwarg else [])]


def block_walk(fn):
    """nodes of the block of def / lambda fn: its body, not entering nested def / lambda / class bodies but entering
    what is evaluated in this block (decorators, defaults, annotations, bases).  Yields (node, in_comprehension)."""
    def rec(n, incomp):
        yield n, incomp
        if isinstance(n, (ast.FunctionDef, ast.AsyncFunctionDef, ast.Lambda)):
            a = n.args
            outer = list(a.defaults) + [d for d in a.kw_defaults if d is not None] + list(getattr(n, 'decorator_list', []))
            outer += [p.annotation for p in fn_params(n) if p.annotation is not None]
            if getattr(n, 'returns', None) is not None:
                outer.append(n.returns)
            for c in outer:
                for x in rec(c, incomp):
                    yield x
            return
        if isinstance(n, ast.ClassDef):
            for c in list(n.bases) + list(n.keywords) + list(n.decorator_list):
                for x in rec(c, incomp):
                    yield x
            return
        inc = incomp or isinstance(n, (ast.ListComp, ast.SetComp, ast.DictComp, ast.GeneratorExp))
        for c in ast.iter_child_nodes(n):
            for x in rec(c, inc):
                yield x
    body = fn.body if isinstance(fn.body, list) else [fn.body]
    for s in body:
        for x in rec(s, False):
            yield x


def exempt_names(fn):
    """the two exemptions of the property: comprehension targets and except-clause names of the block"""
    ex = set()
    for n, _ in block_walk(fn):
        if isinstance(n, ast.comprehension):
            ex.update(t.id for t in ast.walk(n.target) if isinstance(t, ast.Name))
        if isinstance(n, ast.ExceptHandler) and n.name:
            ex.add(n.name)
    return ex


def outer_iter_names(nodes, enter_functions=False):
    """names loaded inside the nodes at a position where CPython resolves them in the block the nodes are written in
    although the same name is a comprehension target somewhere in that block -- NOT covered by the
    comprehension-target exemption:
      * the leftmost iterable of a comprehension is evaluated directly in the enclosing scope (language reference
        6.2.4), even when it mentions the clause's own target: `[x for x in x]`
      * inside a comprehension, a name that is a target neither of that comprehension nor of one enclosing it is the
        enclosing function's variable, even when a comprehension nested further inside (already finished) used the
        same name as its target: `[sum(k for k in row) + k for row in rows]`
    Lambda / def / class bodies are not entered."""
    out = set()

    def targets_of(c):
        return set(t.id for g in c.generators for t in ast.walk(g.target) if isinstance(t, ast.Name))

    def rec(n, scope):
        if isinstance(n, (ast.FunctionDef, ast.AsyncFunctionDef, ast.Lambda, ast.ClassDef)):
            return
        if isinstance(n, ast.Name):
            if isinstance(n.ctx, ast.Load) and n.id not in scope:
                out.add(n.id)
            return
        if isinstance(n, (ast.ListComp, ast.SetComp, ast.DictComp, ast.GeneratorExp)):
            first = n.generators[0]
            rec(first.iter, scope)
            inner = scope | targets_of(n)
            for c in ast.iter_child_nodes(n):
                if c is first:
                    for c2 in list(first.ifs):
                        rec(c2, inner)
                else:
                    rec(c, inner)
            return
        if isinstance(n, ast.comprehension):
            rec(n.iter, scope)
            for c2 in n.ifs:
                rec(c2, scope)
            return
        for c in ast.iter_child_nodes(n):
            rec(c, scope)
    for n in nodes:
        rec(n, set())
    return out


_CUT_ACTIVE = {}


def cut_active():
    """does a lambda inside a parameter annotation end the annotation pass of the enclosing def (known finding
    activity-lambda-in-annotation-ends-pass)?  Measured on the implementation, so that the finding explains nothing
    once the behaviour is gone."""
    if vlib.REPO not in _CUT_ACTIVE:
        from malt.pyct import anno
        from malt.pyct.static_analysis.annos import NodeAnno
        try:
            n = X.analyze('def f():\n    def g(a: (lambda: 0), b):\n        pass\n')
            sc = anno.getanno(n, NodeAnno.ARGS_AND_BODY_SCOPE)
            _CUT_ACTIVE[vlib.REPO] = 'b' in simple(sc.bound)
        except Exception:   # noqa
            _CUT_ACTIVE[vlib.REPO] = False
    return _CUT_ACTIVE[vlib.REPO]


def annotation_pass_cut(d):
    """def d: the parameters (declaration order) that follow the first parameter whose annotation contains a lambda.
    -> (their names, the names their annotations mention, ids of the lambdas inside their annotations)"""
    ps = fn_params(d)
    for i, p in enumerate(ps):
        if p.annotation is not None and any(isinstance(x, ast.Lambda) for x in ast.walk(p.annotation)):
            later = ps[i + 1:]
            names = set(q.arg for q in later)
            mentioned = set()
            lams = set()
            for q in later:
                if q.annotation is not None:
                    for x in ast.walk(q.annotation):
                        if isinstance(x, ast.Name):
                            mentioned.add(x.id)
                        elif isinstance(x, ast.arg):
                            mentioned.add(x.arg)
                        elif isinstance(x, ast.Lambda):
                            lams.add(id(x))
            return names, mentioned, lams
    return set(), set(), set()


def paren_annotation_names(fn):
    """names x of value-less annotated assignments with a parenthesised target, `(x): T` (AnnAssign.simple == 0): CPython
    neither stores nor binds x (symtable.c binds an annotated name only when the target is simple or there is a value)"""
    return set(n.target.id for n, _ in block_walk(fn)
               if isinstance(n, ast.AnnAssign) and isinstance(n.target, ast.Name) and not n.simple and n.value is None)


def nested_param_names(fn):
    return set(p.arg for n, _ in block_walk(fn) if isinstance(n, (ast.FunctionDef, ast.Lambda)) for p in fn_params(n))


def walrus_in_comp_names(fn):
    return set(n.target.id for n, inc in block_walk(fn) if inc and isinstance(n, ast.NamedExpr))


def own_annotation_names(fn):
    out = set()
    for p in fn_params(fn):
        if p.annotation is not None:
            out.update(q.id for q in ast.walk(p.annotation) if isinstance(q, ast.Name))
    return out


def nested_blocks(fn):
    """def / lambda / class nodes strictly inside fn (any depth)"""
    out = []
    for n in ast.walk(fn):
        if n is not fn and isinstance(n, (ast.FunctionDef, ast.Lambda, ast.ClassDef)):
            out.append(n)
    return out


def name_based_free_var_names(fn):
    """names for which the name-based upward propagation `read - bound` of nested isolated scopes is known to differ
    from CPython's resolution (known finding activity-free-vars-name-based):
      * declared global in a nested block (CPython: the module's variable whatever the enclosing blocks bind;
        visit_Global also counts the declaration itself as a read)
      * bound in a nested class body, or a parameter of a function written in a nested class body (CPython: class
        locals are invisible to the functions nested in the class; the analysis subtracts the class's bound set)"""
    out = set()
    for b in nested_blocks(fn):
        for n in ast.walk(b):
            if isinstance(n, ast.Global):
                out.update(n.names)
        if isinstance(b, ast.ClassDef):
            for s in b.body:
                for n in ast.walk(s):
                    if isinstance(n, ast.Name) and isinstance(n.ctx, (ast.Store, ast.Del)):
                        out.add(n.id)
                    elif isinstance(n, (ast.FunctionDef, ast.ClassDef)):
                        out.add(n.name)
                    elif isinstance(n, ast.alias):
                        out.add((n.asname or n.name).split('.')[0])
                    elif isinstance(n, ast.ExceptHandler) and n.name:
                        out.add(n.name)
                    elif isinstance(n, ast.arg):
                        out.add(n.arg)
    return out


# ------------------------------------------------------------------------------------------------
# symtable side

def sym_functions(src):
    st = symtable.symtable(src, '<c08>', 'exec')
    out = []

    def rec(t, chain):
        for c in t.get_children():
            ch2 = chain + [c]
            if c.get_type() == 'function' and c.get_name() not in COMPS:
                out.append((c, ch2))
            rec(c, ch2)
    rec(st, [st])
    return out


def match_functions(fns, src):
    """AST def / lambda nodes -> (symtable table, chain) ; None when a node cannot be identified uniquely"""
    groups = {}
    for t, chain in sym_functions(src):
        key = (t.get_lineno(), t.get_name(), tuple(t.get_parameters()))
        groups.setdefault(key, []).append((t, chain))
    out = []
    for fn in fns:
        a = fn.args
        # symtable lists the parameters in the order symtable.c visits them: positional-only, positional, keyword-only,
        # then *args and **kwargs (NOT the declaration order of fn_params)
        sym_order = [p.arg for p in a.posonlyargs + a.args + a.kwonlyargs] + \
            ([a.vararg.arg] if a.vararg else []) + ([a.kwarg.arg] if a.kwarg else [])
        key = (fn.lineno, getattr(fn, 'name', 'lambda'), tuple(sym_order))
        g = groups.get(key, [])
        if len(g) != 1:
            return None
        out.append(g[0])
    return out


def fv_cpython(t):
    """names referenced in function table t or in blocks nested in it that resolve outside t"""
    out = set()

    def rec(b, chain):
        for s in b.get_symbols():
            n = s.get_name()
            if s.is_global():
                if s.is_referenced():
                    out.add(n)
            elif s.is_free():
                # free by use or by a nonlocal declaration (write-only included): co_freevars
                res = False
                for p in reversed(chain[:-1]):
                    if p.get_type() == 'function':
                        try:
                            ps = p.lookup(n)
                        except KeyError:
                            continue
                        if ps.is_local():
                            res = True
                            break
                        if ps.is_global():
                            break
                if not res:
                    out.add(n)
        for c in b.get_children():
            rec(c, chain + [c])
    rec(t, [t])
    return out


def simple(qns):
    return set(str(q) for q in qns if q.is_simple())


# ------------------------------------------------------------------------------------------------
# property-level oracle, static part: the real Scope objects against symtable

def oracle_static(src, node, quirks):
    """-> (failures, known) ; failures: list of (what, detail) ; known: set of known-finding ids seen"""
    from malt.pyct import anno
    from malt.pyct.static_analysis.annos import NodeAnno
    fns = [n for n in ast.walk(node) if isinstance(n, (ast.FunctionDef, ast.Lambda))]
    failures = []
    known = set()
    # the known finding activity-nested-params-leak can only explain a difference while the implementation
    # shows the behaviour (measured by tools/translate/c08_quirks.py); after the fix it explains nothing
    leak_active = bool(quirks) and any(quirks.get(k) for k in ('q_leak', 'q_annfn', 'q_annmiss'))
    # a walrus inside a comprehension hides the name for everything nested in that comprehension (lambdas)
    w_all = set()
    for c in ast.walk(node):
        if isinstance(c, (ast.ListComp, ast.SetComp, ast.DictComp, ast.GeneratorExp)):
            w_all.update(n.target.id for n in ast.walk(c) if isinstance(n, ast.NamedExpr))
    enclosing_targets = {}

    def enc(n, tg):
        if isinstance(n, (ast.FunctionDef, ast.Lambda)):
            enclosing_targets[id(n)] = set(tg)
        if isinstance(n, (ast.ListComp, ast.SetComp, ast.DictComp, ast.GeneratorExp)):
            tg = tg | set(t.id for g in n.generators for t in ast.walk(g.target) if isinstance(t, ast.Name))
        for c in ast.iter_child_nodes(n):
            enc(c, tg)
    enc(node, set())
    in_class = set()
    for c in ast.walk(node):
        if isinstance(c, ast.ClassDef):
            in_class.update(id(x) for x in ast.walk(c))
    # known finding activity-lambda-in-annotation-ends-pass: per def, the parameters after the first one whose
    # annotation holds a lambda are declared in the defining block and their annotations are never analysed
    cut = {}
    unvisited = set()
    if cut_active():
        for d in ast.walk(node):
            if isinstance(d, ast.FunctionDef):
                names, mentioned, lams = annotation_pass_cut(d)
                if names:
                    cut[id(d)] = names | mentioned
                    for p in fn_params(d):
                        if p.arg in names and p.annotation is not None:
                            unvisited.update(id(x) for x in ast.walk(p.annotation))
    for fn in fns:
        m = match_functions([fn], src)
        if m is None:
            continue
        t, chain = m[0]
        sc = anno.getanno(fn, NodeAnno.ARGS_AND_BODY_SCOPE, default=None)
        asc = anno.getanno(fn.args, anno.Static.SCOPE, default=None)
        where = '%s at line %d' % (getattr(fn, 'name', 'lambda'), fn.lineno)
        if (sc is None or asc is None) and id(fn) in unvisited:
            known.add(KF_CUT)
            continue
        if sc is None or asc is None:
            failures.append(('scope annotation missing', where))
            continue
        cut_names = set()
        for b, _ in block_walk(fn):
            cut_names |= cut.get(id(b), set())
        paren_deep = paren_annotation_names(fn)
        for b in nested_blocks(fn):
            if not isinstance(b, ast.ClassDef):
                paren_deep |= paren_annotation_names(b)
        cut_deep = set(cut_names)
        for b in nested_blocks(fn):
            cut_deep |= cut.get(id(b), set())
        ex = exempt_names(fn)
        declg = simple(sc.globals)
        decln = simple(sc.nonlocals)
        h_loc = simple(sc.bound) - declg - decln - ex
        s_loc = set(t.get_locals()) - ex
        extra, missing = h_loc - s_loc, s_loc - h_loc
        if extra and leak_active and extra <= nested_param_names(fn):
            known.add(KF_LEAK)
            extra = set()
        if missing and missing <= walrus_in_comp_names(fn) | w_all:
            known.add(KF_WALRUS)
            missing = set()
        if extra and extra <= cut_names:
            known.add(KF_CUT)
            extra = set()
        if extra and extra <= paren_annotation_names(fn):
            known.add(KF_PAREN)
            extra = set()
        if extra or missing:
            failures.append(('bound locals differ from CPython', '%s: analysis-only %s, CPython-only %s' % (where, sorted(extra), sorted(missing))))
        s_declg = set(s.get_name() for s in t.get_symbols() if s.is_declared_global())
        if declg != s_declg:
            failures.append(('declared globals differ from CPython', '%s: analysis %s, CPython %s' % (where, sorted(declg), sorted(s_declg))))
        if decln != set(t.get_nonlocals()):
            failures.append(('declared nonlocals differ from CPython', '%s: analysis %s, CPython %s' % (where, sorted(decln), sorted(t.get_nonlocals()))))
        h_par = simple(asc.params.keys())
        if h_par != set(t.get_parameters()):
            failures.append(('parameters differ from CPython', '%s: analysis %s, CPython %s' % (where, sorted(h_par), sorted(t.get_parameters()))))
        # free variables: names the function or the blocks nested in it refer to and that resolve outside it.
        # Exempt here: comprehension targets / except names of the block, of the blocks nested in it, and the
        # targets of the comprehensions the function itself is written in.
        ex_fv = ex | enclosing_targets.get(id(fn), set())
        for b in nested_blocks(fn):
            if not isinstance(b, ast.ClassDef):
                ex_fv |= exempt_names(b)
        for b in ast.walk(fn):
            if isinstance(b, ast.comprehension):
                ex_fv.update(t.id for t in ast.walk(b.target) if isinstance(t, ast.Name))
            if isinstance(b, ast.ExceptHandler) and b.name:
                ex_fv.add(b.name)
        body_nodes = fn.body if isinstance(fn.body, list) else [fn.body]
        # ... except where CPython itself resolves such a read outside the function (3.12 inlines list / set / dict
        # comprehensions into the function: a name that is only ever a target / read inside inlined comprehensions
        # is a local of the function for CPython, and stays exempt)
        for nme in outer_iter_names(body_nodes):
            try:
                sy = t.lookup(nme)
            except KeyError:
                continue
            if sy.is_global() or sy.is_free():
                ex_fv.discard(nme)
        ex_fv |= enclosing_targets.get(id(fn), set())
        ex_fv |= set(b.name for b in ast.walk(fn) if isinstance(b, ast.ExceptHandler) and b.name)   # except names stay exempt
        declared = declg | decln
        h_fv = simple(sc.free_vars) - declared - ex_fv
        s_fv = fv_cpython(t) - declared - ex_fv
        leak = nested_param_names(fn) | own_annotation_names(fn)
        for b in nested_blocks(fn):
            if not isinstance(b, ast.ClassDef):
                leak |= nested_param_names(b) | own_annotation_names(b)
        name_based = name_based_free_var_names(fn)
        unexplained = set()
        for nme in (h_fv - s_fv) | (s_fv - h_fv):
            if nme in leak and leak_active:
                known.add(KF_LEAK)
            elif nme in w_all:
                known.add(KF_WALRUS)
            elif nme in cut_deep:
                known.add(KF_CUT)
            elif nme in paren_deep:
                known.add(KF_PAREN)
            elif nme in name_based:
                known.add(KF_FREE)
            else:
                unexplained.add(nme)
        if unexplained:
            failures.append(('free variables differ from CPython', '%s: analysis-only %s, CPython-only %s' % (
                where, sorted(unexplained & h_fv), sorted(unexplained & s_fv))))
    return failures, known


# ------------------------------------------------------------------------------------------------
# property-level oracle, dynamic part

def line_scopes(node):
    """function name -> {line: [Scope,...]} for statements and statement headers ; and line -> ast node (for S2)"""
    from malt.pyct import anno
    from malt.pyct.static_analysis.annos import NodeAnno
    per_fn = {}
    stmts = {}

    def add(fname, line, sc, stmt_nodes):
        per_fn.setdefault(fname, {}).setdefault(line, []).append(sc)
        stmts.setdefault((fname, line), []).extend(stmt_nodes)

    def rec(n, fname):
        if isinstance(n, ast.FunctionDef):
            add(fname, n.lineno, anno.getanno(n, anno.Static.SCOPE, default=None), [n])
            for s in n.body:
                rec(s, n.name)
            return
        if isinstance(n, (ast.If, ast.While)):
            add(fname, n.test.lineno, anno.getanno(n.test, anno.Static.SCOPE, default=None), [n.test])
        elif isinstance(n, ast.For):
            add(fname, n.lineno, anno.getanno(n.iter, anno.Static.SCOPE, default=None), [n.target, n.iter])
            add(fname, n.lineno, anno.getanno(n, NodeAnno.ITERATE_SCOPE, default=None), [])
        elif isinstance(n, ast.With):
            for it in n.items:
                add(fname, n.lineno, anno.getanno(it, anno.Static.SCOPE, default=None), [it])
        elif isinstance(n, ast.ExceptHandler):
            # the handler's own scope is not recorded by the analysis: its header line has no statement scope
            per_fn.setdefault(fname, {}).setdefault(n.lineno, None)
        elif isinstance(n, ast.stmt) and not isinstance(n, (ast.Try, ast.ClassDef, ast.Pass, ast.Break, ast.Continue)):
            add(fname, n.lineno, anno.getanno(n, anno.Static.SCOPE, default=None), [n])
        for f in ('body', 'handlers', 'orelse', 'finalbody'):
            for s in getattr(n, f, []) or []:
                if isinstance(s, ast.AST):
                    rec(s, fname)
    for s in node.body:
        rec(s, node.name)
    add(node.name, node.lineno, None, [])
    return per_fn, stmts


def run_events(src, dv):
    world = pyrt.World(dv)
    glb = world.globals()

    class _GO(object):
        pass
    go = _GO()
    go.p = 1
    go.d = {}
    glb['GO'] = go
    glb['GV'] = 5
    glb['GH'] = lambda *a: go
    glb['TY'] = int
    glb['GW'] = (3, 4)
    glb['GX'] = glb['GY'] = 0
    glb['DEC'] = lambda *a: (lambda fn: fn)
    exec(compile(src, '<c08>', 'exec'), glb)
    codes = {}
    todo = [glb['f'].__code__]
    while todo:
        c = todo.pop()
        codes[c.co_name] = c
        todo.extend(k for k in c.co_consts if hasattr(k, 'co_code'))
    kind, val, events = pyrt.run_var_events(glb['f'], (1, 2, 3), world)
    return kind, val, events, codes


def oracle_dynamic(src, node, dvs, quirks=None):
    """-> (failures, per-line observed events {(fname, line): (R, W, D)}, number of events judged)"""
    per_fn, stmts = line_scopes(node)
    handler_names = {}
    comp_targets = {}
    for fn in [n for n in ast.walk(node) if isinstance(n, ast.FunctionDef)]:
        ex_h = set(n.name for n, _ in block_walk(fn) if isinstance(n, ast.ExceptHandler) and n.name)
        handler_names[fn.name] = ex_h
        comp_targets[fn.name] = exempt_names(fn) - ex_h
    failures = []
    observed = {}
    judged = 0
    known = set()
    leak_active = bool(quirks) and any(quirks.get(k) for k in ('q_leak', 'q_annfn', 'q_annmiss'))
    def_annots = {}     # (function name, line of a def statement) -> names read by its parameter annotations
    for fn in [n for n in ast.walk(node) if isinstance(n, ast.FunctionDef)]:
        for s in ast.walk(fn):
            if isinstance(s, ast.FunctionDef) and s is not fn:
                def_annots.setdefault((fn.name, s.lineno), set()).update(own_annotation_names(s))
    outer_reads = dict((key, outer_iter_names(nodes)) for key, nodes in stmts.items())
    from malt.pyct import anno as _anno
    from malt.pyct.static_analysis.annos import NodeAnno as _NodeAnno
    fn_scopes = dict((n.name, _anno.getanno(n, _NodeAnno.ARGS_AND_BODY_SCOPE, default=None))
                     for n in ast.walk(node) if isinstance(n, ast.FunctionDef))
    classified = set()
    for dv in dvs:
        try:
            kind, val, events, codes = run_events(src, dv)
        except RecursionError:
            continue
        for e in events:
            if e[0] not in ('R', 'W', 'D', 'GR', 'GW'):
                continue
            k, code, line, var = e
            if code not in per_fn:
                continue            # lambda / generator-expression frames: not statements of their own
            # how the running function stores a name tells how CPython's compiler classified it: STORE_GLOBAL =
            # declared global, a store into a free variable's cell = declared nonlocal, any other store = local
            fsc = fn_scopes.get(code)
            if fsc is not None and k in ('W', 'GW') and (code, k, var) not in classified \
                    and var not in comp_targets[code] and var not in handler_names[code]:
                classified.add((code, k, var))
                judged += 1
                is_free = var in codes[code].co_freevars if code in codes else False
                h_g, h_n = var in simple(fsc.globals), var in simple(fsc.nonlocals)
                want_g, want_n = k == 'GW', k == 'W' and is_free
                if (h_g, h_n) != (want_g, want_n):
                    failures.append(('a name the running function stores as %s is reported as %s' % (
                        'a global' if want_g else 'a nonlocal (free variable)' if want_n else 'a local',
                        'declared global' if h_g else 'declared nonlocal' if h_n else 'an ordinary bound local'),
                        '%s line %d: store of %r; globals(%s) = %s, nonlocals(%s) = %s' % (
                            code, line, var, code, sorted(simple(fsc.globals)), code, sorted(simple(fsc.nonlocals))), dv))
            if var in handler_names[code]:
                continue            # exemption of the property
            if var in comp_targets[code] and not (k in ('R', 'GR') and var in outer_reads.get((code, line), ())):
                continue            # exemption of the property -- but the leftmost iterable of a comprehension is
                                    # evaluated in the statement's own scope: that read is the statement's read
            scs = per_fn[code].get(line, 'none')
            if scs is None or scs == 'none':
                continue            # except header (no scope recorded) / a line that is not a statement
            judged += 1
            if any(s is None for s in scs):
                failures.append(('scope annotation missing on an executed statement', '%s line %d' % (code, line), dv))
                continue
            want = {'R': 'read', 'GR': 'read', 'W': 'modified', 'GW': 'modified', 'D': 'deleted'}[k]
            have = set()
            for s in scs:
                have |= simple(getattr(s, want))
            o = observed.setdefault((code, line), (set(), set(), set()))
            o[{'read': 0, 'modified': 1, 'deleted': 2}[want]].add(var)
            if var not in have and leak_active and want == 'read' and var in def_annots.get((code, line), ()):
                known.add(KF_LEAK)     # the def statement evaluates its parameter annotations; its scope misses them
            elif var not in have:
                failures.append(('variable %s by an executed statement is not in its %s set' % (
                    {'read': 'read', 'modified': 'rebound', 'deleted': 'deleted'}[want], want),
                    '%s line %d: %s of %r; %s set of the statement scope = %s' % (code, line, k, var, want, sorted(have)), dv))
    return failures, observed, stmts, judged, known


# ------------------------------------------------------------------------------------------------
# cases for the model

def binder_case(idx, src, ex, term):
    m = match_functions(ex.functions, src)
    if m is None:
        return None
    infos = []
    nm = ex.names
    for t, chain in m:
        infos.append('(%s, %s, %s, %s)' % (
            X.nat_list(nm.n(x) for x in t.get_parameters()), X.nat_list(nm.n(x) for x in t.get_locals()),
            X.nat_list(nm.n(s.get_name()) for s in t.get_symbols() if s.is_declared_global()),
            X.nat_list(nm.n(x) for x in t.get_nonlocals())))
    return '(%d, %d, %s, [%s])' % (idx, nm.count(), term, '; '.join(infos))


def coq_cases(name, cases, ctype, call, run, shard=150):
    if not cases:
        return []
    shards = [cases[i:i + shard] for i in range(0, len(cases), shard)]

    def one(args):
        i, sh = args
        body = ['From Coq Require Import List Arith Bool.', 'Import ListNotations.',
                'Require Import MV.Scope.Ast MV.Scope.Activity MV.Scope.Binders MV.Scope.ScopeCheck MV.Generated.C08_gen.',
                'Definition cases : list %s := [' % ctype, ';\n'.join(sh), '].',
                'Eval vm_compute in %s cases.' % call]
        return vlib.coq_eval('C08', '%s_%d' % (name, i), '\n'.join(body), timeout=900)

    with ThreadPoolExecutor(max_workers=8) as exr:
        results = list(exr.map(one, enumerate(shards)))
    bad = []
    for rc, out in results:
        r = vlib.parse_coq_list_of_nat(out) if rc == 0 else None
        if r is None:
            run.note('coq evaluation of %s cases failed: %s' % (name, out[-400:]))
            return None
        bad.extend(r)
    return bad


def decision_vectors(rnd, n):
    out = [[], [1], [1, 0, 1], [2, 1, 0, 2, 1, 0, 1], [0, 1, 1, 3, 1]]
    while len(out) < n:
        out.append([rnd.choice([0, 1, 1, 2, 3]) for _ in range(rnd.randint(1, 10))])
    return out[:n]


STATIC_STREAMS = [
    ('main', 0.40, dict()),
    ('ctor', 0.10, dict(ctor=True)),
    ('no-nested-params', 0.20, dict(nested_params=False, annotations=False)),     # the known findings cannot fire here
    ('flat', 0.10, dict(classes=False, declarations=False, nested_params=False, annotations=False)),
    ('beyond-model', 0.20, dict(walrus_in_comp=True)),                            # oracle only where the exporter refuses
]


def corpus():
    d = os.path.join(vlib.ROOT, 'corpus', 'C08')
    out = []
    if os.path.isdir(d):
        for fn in sorted(os.listdir(d)):
            if fn.endswith('.py'):
                out.append((fn, open(os.path.join(d, fn)).read()))
    return out


def check(run):
    quick = run.tier == 'quick'
    n_static = 700 if quick else 9000
    n_dynamic = 130 if quick else 1500
    n_vec = 5 if quick else 12
    run.rule = ('static: seeded random single functions (tools/gen/c08_progs.py gen_static: nested defs/lambdas/classes/comprehensions, '
                'global/nonlocal, all parameter kinds, annotations, decorators, defaults, imports, with/except targets, del, walrus, '
                'attribute/subscript targets; pool of 9 names) kept when they compile; dynamic: runnable functions (gen_dynamic over '
                'tools/gen/progs.py) x decision vectors; non-trivial = program with a nested def/lambda/class/comprehension or a '
                'global/nonlocal declaration; distinct by source text')
    tie_broken = None
    quirks = None
    try:
        quirks = generate()
    except c08_quirks.Untranslatable as e:
        tie_broken = str(e)
    vlib.standard_proof_step(run, ['Scope/ScopeCheck.vo', 'Generated/C08_gen.vo'])
    run.extra['measured_quirks'] = quirks

    rnd = random.Random(run.seed * 104729 + 8)
    scope_cases, binder_cases, event_cases = [], [], []
    meta = []               # case index -> source
    failures = []           # (what, detail, src, decisions)
    known_seen = {}
    hist = {}
    unsupported = {}
    seen = set()
    progs = [('corpus:' + n, s) for n, s in corpus()]
    names = [s[0] for s in STATIC_STREAMS]
    weights = [s[1] for s in STATIC_STREAMS]
    opts = dict((s[0], s[2]) for s in STATIC_STREAMS)
    while len(progs) < n_static:
        sname = rnd.choices(names, weights)[0]
        src = c08_progs.gen_static(rnd, c08_progs.SOpts(**opts[sname]))
        if src in seen or not c08_progs.compiles(src):
            continue
        seen.add(src)
        progs.append((sname, src))
    dyn = []
    while len(dyn) < n_dynamic:
        src = c08_progs.gen_dynamic(rnd)
        if src in seen or not c08_progs.compiles(src):
            continue
        seen.add(src)
        dyn.append(('dynamic', src))

    def one_program(sname, src, dynamic):
        try:
            node = X.analyze(src)
        except Exception as e:   # noqa
            failures.append(('activity.resolve raised %s' % type(e).__name__, str(e)[:300], src, None))
            return
        run.count()
        if any(isinstance(n, (ast.Lambda, ast.ClassDef, ast.ListComp, ast.SetComp, ast.DictComp, ast.GeneratorExp, ast.Global, ast.Nonlocal))
               or (isinstance(n, ast.FunctionDef) and n is not node) for n in ast.walk(node)):
            run.nontriv(src)
        fs, known = oracle_static(src, node, quirks)
        for k in known:
            known_seen.setdefault(k, src)
        for what, detail in fs:
            failures.append((what, detail, src, None))
        idx = len(meta)
        try:
            ex = X.Exporter(scopes=X.get_scope)
            term = ex.ex(node)
            recs = []
            for tag, sc in ex.records:
                if sc is None:
                    raise X.Unsupported('scope annotation missing')
                recs.append('(%d, %s)' % (tag, X.scope_term(sc, ex.names)))
            meta.append(src)
            scope_cases.append('(%d, %s, [%s])' % (idx, term, '; '.join(recs)))
            for k, v in ex.kinds.items():
                hist[k] = hist.get(k, 0) + v
            bc = binder_case(idx, src, ex, term)
            if bc is not None:
                binder_cases.append(bc)
        except X.Unsupported as e:
            unsupported[str(e)] = unsupported.get(str(e), 0) + 1
            ex = None
        if dynamic:
            fs, observed, stmts, judged, known = oracle_dynamic(src, node, decision_vectors(rnd, n_vec), quirks)
            for k in known:
                known_seen.setdefault(k, src)
            run.count(judged)
            for what, detail, dv in fs:
                failures.append((what, detail, src, dv))
            if ex is not None:
                for (fname, line), (r, w, d) in sorted(observed.items()):
                    nodes = stmts.get((fname, line), [])
                    if not nodes:
                        continue
                    try:
                        ex2 = X.Exporter(names=ex.names)
                        t = X.N('KGen', [ex2.ex(n) for n in nodes])
                    except X.Unsupported:
                        continue
                    event_cases.append('(%d, %s, %s, %s, %s)' % (idx, t, X.nat_list(ex.names.n(x) for x in sorted(r)),
                                                                 X.nat_list(ex.names.n(x) for x in sorted(w)),
                                                                 X.nat_list(ex.names.n(x) for x in sorted(d))))
            if len(run.samples) < 3 and observed:
                run.sample({'program': src, 'events_per_line': {'%s:%d' % k: [sorted(x) for x in v] for k, v in sorted(observed.items())}})

    for sname, src in progs:
        one_program(sname, src, False)
    for sname, src in dyn:
        one_program(sname, src, True)
    for s in [p for p in progs if p[0] == 'main'][:3]:
        run.sample({'program': s[1]})

    run.extra['programs_static'] = len(progs)
    run.extra['programs_dynamic'] = len(dyn)
    run.extra['scope_cases'] = len(scope_cases)
    run.extra['binder_cases_vs_symtable'] = len(binder_cases)
    run.extra['event_cases_vs_cpython'] = len(event_cases)
    run.extra['outside_model'] = unsupported
    run.extra['node_histogram'] = dict(sorted(hist.items(), key=lambda kv: -kv[1])[:40])

    q = 'quirks_now'
    bad_scopes = coq_cases('scope', scope_cases, 'scope_case', 'failing_scopes %s' % q, run)
    bad_binders = coq_cases('binder', binder_cases, 'binder_case', 'failing_binders', run)
    bad_events = coq_cases('event', event_cases, 'event_case', 'failing_events', run, shard=400)

    for k, src in sorted(known_seen.items()):
        run.violation('known finding %s is not listed in known_findings.json' % k, {'program': src}, classify=k)
    reported = set()
    for what, detail, src, dv in failures:
        if what in reported:
            continue
        reported.add(what)
        run.violation(what, {'program': src, 'detail': detail, 'decisions': dv, 'replay': 'bin/check C08 --replay <this file>'})

    broken = []
    if tie_broken:
        broken.append(tie_broken)
    if bad_scopes is None or bad_binders is None or bad_events is None:
        broken.append('model evaluation failed')
    else:
        if bad_scopes:
            broken.append('Activity.records(model) differs from the scopes activity.resolve recorded, e.g. on\n' + meta[sorted(set(bad_scopes))[0]])
        if bad_binders:
            broken.append('Binders (the binding rule) differs from symtable, e.g. on\n' + meta[sorted(set(bad_binders))[0]])
        if bad_events:
            broken.append('Binders (FRead/FWrite/FDel) does not contain the events of a CPython run, e.g. on\n' + meta[sorted(set(bad_events))[0]])
    if broken and not failures:
        run.violation('correspondence between the Coq model and the implementation broke: ' + broken[0].split('\n')[0],
                      {'broken': broken,
                       'searched': '%d static and %d dynamic programs judged by the symtable / instrumented-run oracle: no property-level failure' % (len(progs), len(dyn))},
                      found_input=False)
    run.assumptions += [
        'comprehension targets and except-clause names are exempt (property text)',
        'free variables are compared in the inclusive sense (names the function or blocks nested in it refer to and that resolve outside it)',
        'dynamic part: events of the function\'s own frame and of nested defs; lambda / generator-expression frames are not statements',
        'the `annotations` set of Scope is not modelled']


def replay(path):
    doc = json.load(open(path))
    rp = doc.get('replay', {})
    src = rp.get('program')
    if not src:
        print(json.dumps(doc, indent=1))
        return 0
    print(src)
    node = X.analyze(src)
    quirks = c08_quirks.probe()
    fs, known = oracle_static(src, node, quirks)
    out = [(w, d) for w, d in fs]
    if rp.get('decisions') is not None:
        f2, _, _, _, k2 = oracle_dynamic(src, node, [rp['decisions']], quirks)
        known |= k2
        out += [(w, d) for w, d, _ in f2]
    for w, d in out:
        print('FAIL: %s -- %s' % (w, d))
    for k in sorted(known):
        print('known finding seen: %s' % k)
    if not out:
        print('no property-level failure on this program')
    return 1 if out else 0
