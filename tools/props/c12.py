"""C12 -- errors in converted code are reported at the original source location (DESIGN.md 4/C12).

 1. regenerate coq/Generated/C12_gen.v from malt/pyct/error_utils.py + malt/impl/api.py (fail closed)
 2. re-check the obligations in coq/Properties/C12
 3. correspondence, evaluated inside Coq on harness-written cases:
      - _stack_trace_inside_mapped_code / ErrorMetadataBase.__init__ on generated frame lists and maps
      - the same two on the REAL tracebacks and source maps recorded while the generated programs run,
        and the whole chain of nested converted calls (`run`), with the hypotheses of daisy_chain
        evaluated on the real data
      - create_exception on every builtin exception type, malt's own types and user classes
      - create_source_map on annotated trees (synthetic origins that exercise the overlap rules,
        and the real trees of the conversions, per generated line)
 4. property-level oracle (CPython is the oracle): generated programs with one failing statement
    (tools/translate/c12_progs.py) run unconverted and through malt.convert; type, message,
    translated_stack vs traceback.extract_tb of the original; every ag_source_map entry vs the
    statement it was generated from (unique integer markers).
 5. verdict
"""
import ast
import importlib.util
import json
import os
import random
import re
import shutil
import sys
import tempfile
import traceback
from concurrent.futures import ThreadPoolExecutor

from lib import vlib
from translate import c12_errors
from translate import c12_progs as G

PID = 'C12'

# --------------------------------------------------------------------------------------------
# specification side of the type rule, independent of the implementation:
# "takes a plain message and defines no initialiser of its own"
PLAIN_BUILTINS = ['Exception', 'ArithmeticError', 'AssertionError', 'AttributeError', 'BufferError', 'EOFError',
                  'FloatingPointError', 'IndexError', 'LookupError', 'MemoryError', 'NameError',
                  'NotImplementedError', 'OverflowError', 'RecursionError', 'ReferenceError', 'RuntimeError',
                  'StopIteration', 'SystemError', 'TypeError', 'UnboundLocalError', 'ValueError',
                  'ZeroDivisionError']
# builtins whose C-level initialiser does more than store the arguments
OWN_INIT_BUILTINS = ['OSError', 'SyntaxError', 'ImportError', 'UnicodeError', 'UnicodeDecodeError',
                     'UnicodeEncodeError', 'UnicodeTranslateError']
_HEAPTYPE = 1 << 9


def plain_spec(T):
    """True: the re-raised exception must have type T; False: StagingError; None: not judged;
    'key': KeyError (re-raised as a KeyError that prints the message)."""
    import builtins
    if T.__module__ == 'malt.pyct.error_utils':
        return None                               # malt's own KeyError subclass: only survival is judged
    for base in T.__mro__:
        if base.__flags__ & _HEAPTYPE:            # class defined in Python
            if '__init__' in vars(base):
                return False
            continue
        if base is KeyError:
            return 'key' if T is KeyError else None
        if base.__module__ == 'builtins' and base.__name__ in PLAIN_BUILTINS and getattr(builtins, base.__name__) is base:
            return True
        for n in OWN_INIT_BUILTINS:
            if issubclass(base, getattr(builtins, n)):
                return False
        return None
    return None


def qualname(T):
    return '%s.%s' % (T.__module__, T.__qualname__)


# --------------------------------------------------------------------------------------------
# encoding of Python values as Gallina terms
class Enc(object):
    def __init__(self):
        self.tok = {}

    def s(self, x, pre='s'):
        if x is None:
            x = '<None>'
        if x not in self.tok:
            self.tok[x] = '%s%d' % (pre, len(self.tok))
        return '"%s"' % self.tok[x]

    def frame(self, f):
        return '(mkframe %s %d %s %s)' % (self.s(f[0], 'F'), f[1], self.s(f[2], 'n'), self.s(f[3], 'c'))

    def frames(self, fs):
        return '[%s]' % '; '.join(self.frame(f) for f in fs)

    def origin(self, o):
        return '(mkorigin %s %d %d %s %s)' % (self.s(o.loc.filename, 'F'), o.loc.lineno, o.loc.col_offset,
                                            self.s(o.function_name, 'n'), self.s(o.source_code_line, 'c'))

    def smap(self, items):
        return '[%s]' % '; '.join('((%s, %d), %s)' % (self.s(k[0], 'F'), k[1], self.origin(o)) for k, o in items)

    def fi(self, x):
        return '(mkfi %s %d %s %s %s %s)' % (self.s(x.filename, 'F'), x.lineno, self.s(x.function_name, 'n'),
                                           self.s(x.code, 'c'), vlib.coq_bool(x.is_converted),
                                           vlib.coq_bool(x.is_allowlisted))

    def outcome(self, md):
        if md is None:
            return 'NoMeta'
        if md == 'crash':
            return 'Crash'
        return '(Meta [%s] %s)' % ('; '.join(self.fi(x) for x in md.translated_stack), self.s(md.cause_message, 'm'))


def restrict_map(sm, frames, rnd=None, extra=2):
    """the entries of a real source map that a lookup of one of the frames can hit (+ a few others)"""
    keys = set((f[0], f[1]) for f in frames)
    items = [((k.filename, k.lineno), o) for k, o in sm.items() if (k.filename, k.lineno) in keys]
    if rnd is not None and extra:
        rest = sorted(((k.filename, k.lineno), o) for k, o in sm.items() if (k.filename, k.lineno) not in keys)
        rnd.shuffle(rest)
        items += rest[:extra]
    return sorted(items, key=lambda e: e[0])


def tb_tuples(tb):
    return [(f[0], f[1], f[2], f[3]) for f in tb]


# --------------------------------------------------------------------------------------------
# recording hooks (monkey-patching; nothing in the repo is changed)
class Recorder(object):
    def __init__(self):
        self.attach = []      # (tb tuples, cause md or None, message, source_map, conv filename, result md or 'crash')
        self.convs = []       # (entity name, transformed function)
        self.smaps = []       # (entries [(key, origin)], result dict, filepath)


REC = Recorder()
SEEN_CODES = {}
_installed = {}


def install_hooks():
    from malt.impl import api
    from malt.pyct import origin_info, parser, ast_util, anno
    if _installed:
        return
    from malt.pyct import error_utils
    real_init = error_utils.ErrorMetadataBase.__init__

    def recording_init(self, callsite_tb, cause_metadata, cause_message, source_map, converter_filename):
        try:
            real_init(self, callsite_tb, cause_metadata, cause_message, source_map, converter_filename)
        except IndexError:
            REC.attach.append((tb_tuples(callsite_tb), cause_metadata, cause_message, source_map,
                               converter_filename, 'crash'))
            raise
        REC.attach.append((tb_tuples(callsite_tb), cause_metadata, cause_message, source_map,
                           converter_filename, self))
    error_utils.ErrorMetadataBase.__init__ = recording_init
    _installed['init'] = real_init

    real_conv = api._convert_actual

    def convert_actual(entity, program_ctx):
        t = real_conv(entity, program_ctx)
        REC.convs.append((getattr(entity, '__name__', '?'), t))
        return t
    api._convert_actual = convert_actual
    _installed['conv'] = real_conv

    real_csm = origin_info.create_source_map

    def create_source_map(nodes, code, filepath):
        result = real_csm(nodes, code, filepath)
        try:
            REC.smaps.append((walk_entries(nodes, code, filepath), result, filepath))
        except Exception as e:  # noqa
            REC.smaps.append((None, result, filepath))
        return result
    origin_info.create_source_map = create_source_map
    _installed['csm'] = real_csm


def uninstall_hooks():
    from malt.impl import api
    from malt.pyct import origin_info
    if not _installed:
        return
    from malt.pyct import error_utils
    error_utils.ErrorMetadataBase.__init__ = _installed['init']
    api._convert_actual = _installed['conv']
    origin_info.create_source_map = _installed['csm']
    _installed.clear()


def walk_entries(nodes, code, filepath):
    """The (generated location, ORIGIN) pairs create_source_map folds over, in walk order.  Everything
    but the fold is the implementation's own machinery (parser, resolve, parallel_walk)."""
    from malt.pyct import origin_info, parser, ast_util, anno
    reparsed = parser.parse(code, preamble_len=0, single_node=False)
    for node in reparsed:
        origin_info.resolve(node, code, filepath, node.lineno, node.col_offset)
    out = []
    for before, after in ast_util.parallel_walk(nodes, reparsed):
        o = anno.getanno(before, anno.Basic.ORIGIN, default=None)
        fin = anno.getanno(after, anno.Basic.ORIGIN, default=None)
        if o is None or fin is None:
            continue
        if getattr(after, 'lineno', None) is None:
            # resolve() only annotates nodes that have a position; a position-less re-parsed node with an ORIGIN is
            # one of the interpreter-wide singletons ast.Load()/Store()/operators, carrying whatever ORIGIN
            # copy_origin stamped on it last (in some earlier transformed tree)
            SHARED_KEYS.add((fin.loc.filename, fin.loc.lineno))
        out.append(((fin.loc.filename, fin.loc.lineno), o))
    return out


SHARED_KEYS = set()


# --------------------------------------------------------------------------------------------
# running one generated program
def load_module(text, name, tmpdir):
    path = os.path.join(tmpdir, name + '.py')
    with open(path, 'w') as f:
        f.write(text)
    spec = importlib.util.spec_from_file_location(name, path)
    m = importlib.util.module_from_spec(spec)
    spec.loader.exec_module(m)
    return m, path


class ProgInfo(object):
    def __init__(self, text):
        self.lines = text.split('\n')
        tree = ast.parse(text)
        self.top = {}        # top-level function name -> 'C' | 'U'
        self.encl = {}       # line -> name of the innermost enclosing def
        for n in tree.body:
            if isinstance(n, ast.FunctionDef):
                self.top[n.name] = 'U' if n.decorator_list else 'C'
        for n in ast.walk(tree):
            if isinstance(n, ast.FunctionDef):
                for ln in range(n.lineno, n.end_lineno + 1):
                    prev = self.encl.get(ln)
                    if prev is None or prev[1] <= n.lineno:
                        self.encl[ln] = (n.name, n.lineno)

    def enclosing(self, line):
        return self.encl.get(line, (None, 0))[0]


def expected_stack(user_frames, info, recursive):
    """What the property says translated_stack lists (user frames, innermost first):
    one frame per separately converted function on the call path -- its innermost frame -- and every
    frame of code that is not converted.  -> list of (line, function name, converted)"""
    units = []
    converted_ctx = True
    for i, f in enumerate(user_frames):
        if f.name in info.top and info.enclosing(f.lineno) == f.name:
            if i == 0:
                conv = True
            else:
                conv = converted_ctx and info.top[f.name] == 'C' and recursive
            if not conv:
                converted_ctx = False
            units.append([conv, [f]])
        else:
            units[-1][1].append(f)
    out = []
    for conv, frames in units:
        if conv:
            f = frames[-1]
            name = f.name if not f.name.startswith('<') else info.enclosing(f.lineno)
            out.append((f.lineno, name, True))
        else:
            out.extend((f.lineno, f.name, False) for f in frames)
    out.reverse()
    return out, units


def run_program(pr, name, recursive, tmpdir):
    """-> dict with everything observed (original run, converted run, records)"""
    import malt
    from malt.impl import api
    m, path = load_module(pr['text'], name, tmpdir)
    res = {'path': path, 'recursive': recursive}
    # Functions of an EARLIER program file with an equal code object (code equality ignores co_filename; the text,
    # name and first line coincide): the conversion cache is keyed by the code object, so such a function reuses
    # the earlier file's generated code and source map (known finding c12-equal-code-objects-share-conversion).
    # The code objects are kept alive on purpose: whether the weak cache entry survives must not depend on the GC.
    alias = set()
    for v in list(vars(m).values()):
        co = getattr(getattr(v, '__wrapped__', v), '__code__', None)
        if co is not None and getattr(v, '__module__', None) == name:
            # ALL earlier files: the cache bucket of a code object holds one conversion per option set, each made
            # from whichever file asked first with those options
            earlier = SEEN_CODES.setdefault(co, [])
            alias.update(earlier)
            earlier.append(path)
    res['alias'] = alias
    try:
        m.f0(G.P_VALUE)
        res['orig'] = None
    except Exception as e:   # noqa
        res['orig'] = e
        res['orig_tb'] = traceback.extract_tb(e.__traceback__)[1:]
    REC.attach, REC.convs, REC.smaps = [], [], []
    try:
        malt.convert(recursive=recursive)(m.f0)(G.P_VALUE)
        res['conv'] = None
    except Exception as e:   # noqa
        res['conv'] = e
    res['attach'], res['convs'], res['smaps'] = REC.attach, REC.convs, REC.smaps
    REC.attach, REC.convs, REC.smaps = [], [], []
    sys.modules.pop(name, None)
    return res


MARK = re.compile(r'(?<![\w.])1\d{3}(?![\w.])')


def judge_program(pr, res, info):
    """The property text, judged on the real run.  -> list of (kind, detail dict)"""
    from malt.impl import api
    from malt.pyct import error_utils
    fails = []
    path = res['path']
    orig, conv = res['orig'], res['conv']
    if orig is None:
        return [('generator', {'what': 'original program did not raise'})]
    T = type(orig)
    if conv is None:
        return [('no-exception', {'what': 'converted function returned normally, original raised %s' % T.__name__})]
    md = getattr(conv, 'ag_error_metadata', None)
    if md is None:
        return [('no-metadata', {'what': 'exception from the converted function carries no ag_error_metadata: %r' % (conv,)})]
    # the exception raised inside the converted code (re-raised from it by the wrapper)
    src = conv.__context__
    if src is None or getattr(src, 'ag_error_metadata', None) is not md:
        return [('no-source', {'what': 'the re-raised exception does not chain to the exception raised in converted code'})]
    if type(src) is not T or str(src) != str(orig):
        # the converted code failed differently from the original: a semantic divergence (property C01), the
        # error report cannot be compared with the original traceback
        return [('divergence', {'original': '%s: %s' % (T.__name__, orig), 'converted_code_raised': '%s: %s' % (type(src).__name__, src)})]
    # --- type
    spec = plain_spec(T)
    if spec is True and type(conv) is not T:
        fails.append(('type', {'expected_type': qualname(T), 'observed_type': qualname(type(conv)),
                               'why': 'type takes a plain message and defines no initialiser of its own'}))
    elif spec == 'key' and not (isinstance(conv, KeyError) and type(conv).__name__ == 'KeyError'):
        fails.append(('type', {'expected_type': 'a KeyError', 'observed_type': qualname(type(conv))}))
    elif spec is False and type(conv) is not api.StagingError:
        fails.append(('type', {'expected_type': 'malt.impl.api.StagingError', 'observed_type': qualname(type(conv)),
                               'why': 'type defines an initialiser of its own'}))
    # --- message
    want_msg = '%s: %s' % (T.__name__, orig)
    text = str(conv)
    if md.cause_message != want_msg:
        fails.append(('message', {'expected': want_msg, 'observed': md.cause_message}))
    tl = text.split('\n')
    pos = 0
    for line in want_msg.split('\n'):
        try:
            pos = tl.index('    ' + line, pos) + 1
        except ValueError:
            fails.append(('message', {'expected_line_in_str': '    ' + line, 'observed_str': text}))
            break
    # --- stack
    user = [f for f in res['orig_tb'] if f.filename == path]
    want, units = expected_stack(user, info, res['recursive'])
    got_all = list(md.translated_stack)
    alias = res.get('alias', set())
    cited = sorted(set(fi.filename for fi in got_all if fi.filename in alias))
    if cited:
        fails.append(('file-alias', {'what': 'frames of %s are reported with the name of an earlier file that holds an equal code object: %s' % (path, cited)}))
    got = [(fi.lineno, fi.function_name, bool(fi.is_converted)) for fi in got_all if fi.filename == path or fi.filename in alias]
    if got != want:
        fails.append(('stack', {'expected_user_frames_innermost_first': want, 'observed': got,
                                'original_traceback': [(f.name, f.lineno) for f in user]}))
    if not got_all or got_all[0 if not want else 0] is None:
        pass
    # the innermost user frame listed is the innermost user frame of the original traceback
    if user and got and got[0][0] != user[-1].lineno:
        if not any(k == 'stack' for k, _ in fails):
            fails.append(('stack', {'expected_innermost_line': user[-1].lineno, 'observed': got[0]}))
    malt_dir = os.path.join(os.path.realpath(vlib.REPO), 'malt') + os.sep
    for fi in got_all:
        if fi.filename in alias:
            import linecache
            src = linecache.getline(fi.filename, fi.lineno).strip() or None     # (may differ from ours in a comment)
            if (fi.code or '').strip() != src:
                fails.append(('code-line', {'line': fi.lineno, 'expected': src, 'observed': fi.code}))
        elif fi.filename == path:
            src = info.lines[fi.lineno - 1].strip() if 0 < fi.lineno <= len(info.lines) else None
            if (fi.code or '').strip() != src:
                fails.append(('code-line', {'line': fi.lineno, 'expected': src, 'observed': fi.code}))
            if fi.is_converted and fi.is_allowlisted:
                fails.append(('flags', {'frame': tuple(fi)}))
        elif not os.path.realpath(fi.filename).startswith(malt_dir):
            fails.append(('foreign-frame', {'frame': tuple(fi)}))
    # the message text lists the same frames, outermost first
    pos = 0
    for fi in reversed(got_all):
        hdr = '    File "%s", line %d, in %s' % (fi.filename, fi.lineno, fi.function_name)
        idx = [i for i in range(pos, len(tl)) if tl[i].startswith(hdr)]
        if not idx:
            fails.append(('message-frames', {'missing': hdr}))
            break
        pos = idx[0] + 1
    return fails


def judge_source_maps(pr, res, info):
    """every ag_source_map entry against the statement it was generated from"""
    fails = []
    nent = 0
    own = (pr, res['path'], info)
    for ename, t in res['convs']:
        pr, path, info = own
        sm = t.ag_source_map
        gfile = t.ag_module.__file__
        try:
            glines = open(gfile).read().split('\n')
        except OSError:
            continue
        # A conversion handed out by the cache for an EQUAL code object of an earlier file (known finding
        # c12-equal-code-objects-share-conversion, reported by judge_program when an error cites that file): it was
        # made from that file's text (equal code; comments and dead code after a return may differ), so its map is
        # judged against that text.
        ofiles = set(o.loc.filename for k, o in sm.items() if k.filename == gfile)
        if len(ofiles) == 1 and list(ofiles)[0] in res.get('alias', ()):
            path = list(ofiles)[0]
            try:
                atext = open(path).read()
            except OSError:
                continue
            info = ProgInfo(atext)
            pr = {'markers': {}}
            for i, l in enumerate(atext.split('\n'), 1):
                for x in MARK.findall(l.split('#')[0]):
                    pr['markers'].setdefault(int(x), i)
        shared = []
        for k, o in sm.items():
            nent += 1
            bad = None
            if k.filename != gfile and (k.filename, k.lineno) in SHARED_KEYS:
                shared.append((k.filename, k.lineno, o.loc.lineno))
                continue
            if k.filename != gfile or not (0 < k.lineno <= len(glines)):
                bad = 'key is not a line of the generated file'
            elif o.loc.filename != path or not (0 < o.loc.lineno <= len(info.lines)):
                bad = 'origin is not a line of the original file'
            else:
                src = info.lines[o.loc.lineno - 1]
                if (o.source_code_line or '').strip() != src.strip():
                    bad = 'source_code_line is not the text of the original line'
                elif o.function_name != info.enclosing(o.loc.lineno):
                    bad = 'function_name %r is not the enclosing def %r' % (o.function_name, info.enclosing(o.loc.lineno))
                else:
                    ms = set(int(x) for x in MARK.findall(glines[k.lineno - 1]))
                    ms = set(pr['markers'][x] for x in ms if x in pr['markers'])
                    if ms and ms != {o.loc.lineno}:
                        bad = 'generated line carries code of original line(s) %s but is sent to line %d' % (
                            sorted(ms), o.loc.lineno)
            if bad:
                fails.append(('source-map', {'what': bad, 'converted_function': ename, 'generated_line': k.lineno,
                                             'generated_text': glines[k.lineno - 1] if 0 < k.lineno <= len(glines) else None,
                                             'origin': [o.loc.filename, o.loc.lineno, o.loc.col_offset, o.function_name]}))
                break
        if shared:
            fails.append(('source-map-shared', {'what': 'entries whose key is not a generated line: (file, line, origin line) %s' % shared[:4],
                                                'converted_function': ename}))
        # every generated line that carries a marker of an original statement is in the map
        for i, gl in enumerate(glines, 1):
            ms = set(int(x) for x in MARK.findall(gl))
            ms = set(pr['markers'][x] for x in ms if x in pr['markers'])
            if ms and not any(kk.lineno == i for kk in sm if kk.filename == gfile):
                fails.append(('source-map', {'what': 'generated line with code of original line %s has no entry' % sorted(ms),
                                             'converted_function': ename, 'generated_line': i, 'generated_text': gl}))
                break
    return fails, nent


# --------------------------------------------------------------------------------------------
# known findings (narrow classifiers)
F_IDENTITY = 'c12-init-identity-test'
# mirror of ExcRule.required_known
REQUIRED_KNOWN = ['AssertionError', 'AttributeError', 'NameError', 'NotImplementedError', 'RuntimeError',
                  'StopIteration', 'TypeError', 'UnboundLocalError', 'ValueError']
F_RECURSION = 'c12-recursion-shares-source-map'
F_SINGLETON = 'c12-origin-on-shared-ast-singletons'
F_REWRAP = 'c12-keyerror-rewrap'
F_CODEALIAS = 'c12-equal-code-objects-share-conversion'

NEST_TEXT = '''import malt


def w0(exc):
  raise exc


c0 = malt.convert()(w0)


def w1(exc):
  return c0(exc)


c1 = malt.convert()(w1)


def w2(exc):
  return c1(exc)


c2 = malt.convert(recursive=True)(w2)
WRAPPERS = (c0, c1, c2)
LINES = (5, 12, 19)
'''


def is_key_error(e):
    return isinstance(e, KeyError) and type(e).__name__ == 'KeyError'


def classify_rewrap(T, depth, first, observed):
    """A KeyError (exactly) that crossed at least two wrappers: the first wrapper produced
    MultilineMessageKeyError, a further one re-raises that as StagingError because create_exception tests
    `preferred_type is KeyError`."""
    from malt.impl import api
    from malt.pyct import error_utils
    return (T is KeyError and depth >= 2 and type(first) is error_utils.MultilineMessageKeyError
            and type(observed) is api.StagingError)


def nesting_oracle(types, fact_of, tmpdir, enc, cases, descr, failures, run):
    """depth 1..3 of nested user-requested wrappers x every exception class of the table:
    the type that reaches the caller must survive further conversion boundaries; message and one
    stack entry per wrapper."""
    from malt.impl import api
    m, path = load_module(NEST_TEXT, 'c12nest', tmpdir)
    n = 0
    for T in types:
        def make():
            try:
                return T('m %s' % T.__name__)
            except Exception:   # noqa
                return T.__new__(T)
        try:
            str(make())
        except Exception:   # noqa
            continue          # no printable instance without class-specific arguments
        spec = plain_spec(T)
        got = []
        for d, w in enumerate(m.WRAPPERS, 1):
            inst = make()
            want_msg = '%s: %s' % (T.__name__, inst)
            try:
                w(inst)
                e = None
            except Exception as ex:   # noqa
                e = ex
            got.append(e)
            n += 1
            run.count()
            run.nontriv(('nest', qualname(T) if '<locals>' not in qualname(T) else T.__name__, d))
            bad = None          # about the type (may belong to a known finding)
            loc_bad = None      # about the reported locations / message (never excused by a type finding)
            md = getattr(e, 'ag_error_metadata', None)
            if e is None or md is None:
                bad = 'no exception with ag_error_metadata reached the caller (%r)' % (e,)
            elif spec is True and type(e) is not T:
                bad = 'type %s arrives as %s' % (T.__name__, qualname(type(e)))
            elif spec == 'key' and not is_key_error(e):
                bad = 'KeyError arrives as %s' % qualname(type(e))
            elif spec is False and type(e) is not api.StagingError:
                bad = 'type %s (own initialiser) arrives as %s instead of StagingError' % (T.__name__, qualname(type(e)))
            elif d > 1 and got[0] is not None and type(e) is not type(got[0]):
                bad = 'type changes at a further conversion boundary: %s after one wrapper, %s after %d' % (
                    qualname(type(got[0])), qualname(type(e)), d)
            if md is not None:
                # whatever the type: the message and one location per converted function on the path, both in the
                # metadata (innermost first) and in the MESSAGE the caller reads (outermost first)
                st = [(fi.lineno, fi.function_name, bool(fi.is_converted)) for fi in md.translated_stack if fi.filename == path]
                want = [(m.LINES[i], 'w%d' % i, True) for i in range(d)]
                text = str(e)
                tl = text.split('\n')
                listed = []
                for line in tl:
                    mm = re.match(r'^    File "(.*)", line (\d+), in (\S+)', line)
                    if mm and mm.group(1) == path:
                        listed.append((int(mm.group(2)), mm.group(3)))
                want_listed = [(m.LINES[i], 'w%d' % i) for i in reversed(range(d))]
                if md.cause_message != want_msg:
                    loc_bad = 'message %r arrives as %r' % (want_msg, md.cause_message)
                elif st != want:
                    loc_bad = 'translated_stack %r, expected one entry per wrapper %r' % (st, want)
                elif listed != want_listed:
                    loc_bad = ('the message of the exception lists the locations %r, expected one per converted function on the '
                               'path, outermost first: %r' % (listed, want_listed))
                else:
                    pos = 0
                    for line in want_msg.split('\n'):
                        if ('    ' + line) in tl[pos:]:
                            pos = tl.index('    ' + line, pos) + 1
                        else:
                            loc_bad = 'the message of the exception does not carry the original message line %r' % line
                            break
            for which, b in (('type', bad), ('loc', loc_bad)):
                if not b:
                    continue
                cls = None
                if which == 'type' and e is not None and classify_rewrap(T, d, got[0], e):
                    cls = F_REWRAP
                elif which == 'type' and e is not None and classify_identity(T, type(e)):
                    cls = F_IDENTITY
                title = 'exception crossing %d malt.convert wrapper(s): %s' % (d, b)
                if cls:
                    title = 'exception crossing nested malt.convert wrappers arrives with the wrong type'
                elif which == 'loc':
                    title = 'exception crossing nested malt.convert wrappers does not report one location per converted function'
                failures.append((title, {'what': b, 'exception_class': qualname(T), 'wrappers_crossed': d,
                                         'program': NEST_TEXT, 'observed_message': None if e is None else str(e),
                                         'how': 'import the program; WRAPPERS[%d](%s(...)) ; compare type / str(e) / ag_error_metadata' % (d - 1, T.__name__)},
                                 cls))
        # model: the chain of re-creations
        if all(g is not None for g in got):
            names = []
            facts = []
            cur = T
            for g in got:
                facts.append(bool(fact_of(cur)))
                cur = type(g)
                names.append(qualname(cur))
            name0 = qualname(T)
            if T.__module__ != 'builtins' and '<locals>' in name0:
                name0 = 'harness.' + T.__name__
            final = names[-1] if '<locals>' not in names[-1] else 'harness.' + type(got[-1]).__name__
            cid = len(cases)
            cases.append('CThrough %d "%s" [%s] "%s"' % (cid, name0, '; '.join(vlib.coq_bool(f) for f in facts), final))
            descr[cid] = ('through', {'type': name0, 'facts': facts, 'implementation_types': names})
    sys.modules.pop('c12nest', None)
    return n


def corpus_oracle(failures, run, tmpdir):
    d = os.path.join(vlib.ROOT, 'corpus', PID)
    for fn in sorted(os.listdir(d)) if os.path.isdir(d) else []:
        if not fn.endswith('.py'):
            continue
        spec = importlib.util.spec_from_file_location('c12corpus_' + fn[:-3], os.path.join(d, fn))
        mod = importlib.util.module_from_spec(spec)
        spec.loader.exec_module(mod)
        if getattr(mod, 'KIND', 'keyerror') == 'alias':
            a_path, b_path, cited = mod.run(tmpdir)
            run.count()
            if any(c != b_path for c in cited) or not cited:
                cls = F_CODEALIAS if cited and all(c in (a_path, b_path) for c in cited) else None
                failures.append(('error reported with the name of another file',
                                 {'what': 'error raised in %s is reported at %r' % (b_path, cited),
                                  'program': open(os.path.join(d, fn)).read(), 'corpus': 'corpus/%s/%s' % (PID, fn)}, cls))
            continue
        res = mod.run()
        run.count(len(res))
        for depth, e in res:
            if not is_key_error(e):
                cls = F_REWRAP if classify_rewrap(KeyError, depth, res[0][1], e) else None
                failures.append(('exception crossing nested malt.convert wrappers arrives with the wrong type',
                                 {'what': 'KeyError arrives as %r after %d wrapper(s)' % (type(e), depth),
                                  'program': open(os.path.join(d, fn)).read(), 'corpus': 'corpus/%s/%s' % (PID, fn)}, cls))


def classify_identity(T, observed_type):
    """IndexError/ZeroDivisionError/... (and classes derived from builtins without an initialiser of their
    own) re-raised as StagingError because `T.__init__ is Exception.__init__` compares slot wrappers by
    identity and the type is not in KNOWN_STRING_CONSTRUCTOR_ERRORS."""
    from malt.pyct import error_utils
    from malt.impl import api
    if T.__module__ == 'builtins' and T.__name__ in REQUIRED_KNOWN:
        return False          # these must be in the table (Coq: required_known / known_errors_keep_type)
    return (plain_spec(T) is True and observed_type is api.StagingError
            and T.__init__ is not Exception.__init__
            and T not in error_utils.KNOWN_STRING_CONSTRUCTOR_ERRORS and T is not KeyError
            and not any('__init__' in vars(b) for b in T.__mro__ if b.__flags__ & _HEAPTYPE))


def classify_recursion(want, got, res, units):
    """A converted function that is on the call path twice (same conversion => same generated file and
    source map): every enclosing activation reports the frame of the innermost activation that shares
    its map.  Exactly that, nothing else."""
    recs = res['attach']          # innermost first, one per converted unit
    conv_units = [u for u in units if u[0]]
    if len(recs) != len(conv_units) or len(recs) < 2:
        return False
    maps = [id(r[3]) for r in reversed(recs)]          # outermost first
    if len(set(maps)) == len(maps):
        return False
    pred = []
    ci = 0
    conv_entries = [w for w in reversed(want)]         # outermost first
    # rebuild: for converted units, the entry of the deepest unit sharing the map
    conv_idx = [i for i, w in enumerate(conv_entries) if w[2]]
    if len(conv_idx) != len(maps):
        return False
    out = list(conv_entries)
    for a, i in enumerate(conv_idx):
        deepest = max(b for b in range(len(maps)) if maps[b] == maps[a])
        out[i] = conv_entries[conv_idx[deepest]]
    out.reverse()
    return out == got and out != want


# --------------------------------------------------------------------------------------------
def generate():
    text = c12_errors.translate(vlib.REPO)
    vlib.write_if_changed(os.path.join(vlib.COQ, 'Generated', 'C12_gen.v'), text)


HEADER = ['From Coq Require Import List String Bool.', 'Import ListNotations.',
          'Require Import MV.Errors.StackTrace MV.Errors.SourceMap MV.Errors.ExcSyntax MV.Errors.ExcRule '
          'MV.Generated.C12_gen MV.Errors.ErrorsCheck.', 'Local Open Scope string_scope.', 'Local Open Scope list_scope.']


def eval_cases(cases, tag):
    """cases: list of Gallina `case` terms -> (failing ids, outside-hypotheses ids, several-per-line ids) or error"""
    shards = [cases[i:i + 250] for i in range(0, len(cases), 250)] or [[]]

    def one(a):
        i, sh = a
        body = HEADER + ['Definition cases : list case := [', ';\n'.join(sh), '].',
                         'Eval vm_compute in (failing cases, outside_hyps cases, several_per_line cases).']
        rc, out = vlib.coq_eval(PID, '%s_%d' % (tag, i), '\n'.join(body), timeout=600)
        m = re.search(r'=\s*\((\[[^\]]*\]|nil)\s*,\s*(\[[^\]]*\]|nil)\s*,\s*(\[[^\]]*\]|nil)\)', out)
        if rc != 0 or not m:
            return None, out[-1500:]
        return [[int(x) for x in re.findall(r'\d+', m.group(j))] for j in (1, 2, 3)], ''
    with ThreadPoolExecutor(max_workers=8) as ex:
        results = list(ex.map(one, enumerate(shards)))
    bad, outside, several = [], [], []
    for r, log in results:
        if r is None:
            return None, log
        bad += r[0]
        outside += r[1]
        several += r[2]
    return (bad, outside, several), ''


def synthetic_stack_cases(rnd, n, enc, cases, descr):
    """generated frame lists / maps: real _stack_trace_inside_mapped_code and ErrorMetadataBase vs the model"""
    from malt.pyct import error_utils, origin_info
    files = ['/gen/a.py', '/gen/b.py', '/malt/impl/api.py', '/user/u.py', '/lib/l.py']
    conv = '/malt/impl/api.py'
    fails = []
    for _ in range(n):
        def mk_tb():
            w = rnd.choice([[1, 1, 1, 1, 1], [3, 1, 4, 2, 1], [1, 0, 6, 3, 0], [0, 0, 5, 5, 0]])
            return [(rnd.choices(files, w)[0], rnd.randint(1, 4), rnd.choice(['f', 'g', 'converted_call', 'h']),
                     rnd.choice(['x = 1', 'call()', '']))
                    for _ in range(rnd.choice([0, 1, 2, 3, 4, 5, 6, 8]))]

        def mk_sm():
            sm = {}
            for _ in range(rnd.choice([0, 1, 2, 3, 5])):
                k = origin_info.LineLocation(rnd.choice(files[:3] if rnd.random() < 0.9 else files), rnd.randint(1, 4))
                sm[k] = origin_info.OriginInfo(origin_info.Location('/user/u.py', rnd.randint(1, 30), rnd.randint(0, 8)),
                                               rnd.choice(['f', 'g']), rnd.choice(['a = b', 'return c']), None)
            return sm
        tb, sm = mk_tb(), mk_sm()
        items = sorted(((k.filename, k.lineno), o) for k, o in sm.items())
        cid = len(cases)
        try:
            real = error_utils._stack_trace_inside_mapped_code(tb, sm, conv)
        except Exception as e:   # noqa
            fails.append('_stack_trace_inside_mapped_code raised %r on tb=%r source_map keys=%r' % (e, tb, [k for k, _ in items]))
            continue
        cases.append('CScan %d %s %s %s [%s]' % (cid, enc.frames(tb), enc.smap(items), enc.s(conv, 'F'),
                                                '; '.join(enc.fi(x) for x in real)))
        descr[cid] = ('scan', {'tb': tb, 'source_map': [(k, tuple(o.loc), o.function_name) for k, o in items],
                               'converter_filename': conv, 'implementation': [tuple(x) for x in real]})
        # daisy chain: 1-3 nested levels built the way converted_call does it
        cause = None
        for lvl in range(rnd.choice([1, 2, 3])):
            tb2, sm2 = mk_tb(), mk_sm()
            items2 = sorted(((k.filename, k.lineno), o) for k, o in sm2.items())
            msg = None if cause is not None else 'ValueError: m%d' % rnd.randint(0, 3)
            try:
                md = error_utils.ErrorMetadataBase(tb2, cause, msg, sm2, conv)
            except IndexError:
                md = 'crash'
            except Exception as e:   # noqa
                fails.append('ErrorMetadataBase(...) raised %r on tb=%r' % (e, tb2))
                break
            cid = len(cases)
            cases.append('CAttach %d %s %s %s %s %s %s' % (cid, enc.frames(tb2), enc.outcome(cause), enc.s(msg, 'm'),
                                                         enc.smap(items2), enc.s(conv, 'F'), enc.outcome(md)))
            descr[cid] = ('attach', {'tb': tb2, 'cause': None if cause is None else [tuple(x) for x in cause.translated_stack],
                                     'source_map': [(k, tuple(o.loc)) for k, o in items2],
                                     'implementation': md if md == 'crash' else [tuple(x) for x in md.translated_stack]})
            if md == 'crash':
                break
            cause = md
    return fails


def exception_cases(enc, cases, descr, fact_name):
    """create_exception on real types: every builtin exception, malt's own, user classes"""
    import builtins
    from malt.impl import api
    from malt.pyct import error_utils, errors

    class P1(Exception):
        pass

    class P2(P1):
        pass

    class C1(Exception):
        def __init__(self, a, b):
            Exception.__init__(self, a, b)

    class C2(C1):
        pass

    class N1(Exception):
        def __new__(cls, *a):
            return Exception.__new__(cls, *a)

    class B1(ValueError):
        pass

    class B2(IndexError):
        pass

    class B3(ZeroDivisionError):
        pass

    class B4(OSError):
        pass

    class K1(KeyError):
        pass

    class M1(P1, TypeError):
        pass

    class S1(api.StagingError):
        pass
    types = [getattr(builtins, n) for n in sorted(dir(builtins))
             if isinstance(getattr(builtins, n), type) and issubclass(getattr(builtins, n), Exception)]
    seen = set()
    types = [t for t in types if not (id(t) in seen or seen.add(id(t)))]
    types += [errors.PyCTError, errors.UnsupportedLanguageElementError, errors.InaccessibleSourceCodeError,
              api.AutoGraphError, api.ConversionError, api.StagingError, error_utils.MultilineMessageKeyError,
              P1, P2, C1, C2, N1, B1, B2, B3, B4, K1, M1, S1]
    obs = []
    for T in types:
        if fact_name == 'identity':
            fact = T.__init__ is Exception.__init__
        elif fact_name.startswith('call:'):
            fact = bool(getattr(error_utils, fact_name[5:])(T))
        else:
            fact = False
        md = api._ErrorMetadata([], None, 'X: m', {}, 'nofile')
        try:
            src = T.__new__(T)
        except TypeError:
            continue          # ExceptionGroup: no instance without arguments
        try:
            exc = md.create_exception(src)
            if type(exc) is error_utils.MultilineMessageKeyError:
                kind = 'MultilineKeyError'      # (also when T is that class: it cannot be built from a message alone)
            elif type(exc) is T:
                kind = 'Same'
            elif type(exc) is api.StagingError:
                kind = 'Staging'
            else:
                kind = 'Other:' + qualname(type(exc))
        except Exception as e:   # noqa
            kind = 'Raised:%s' % type(e).__name__
        name = qualname(T)
        if T.__module__ != 'builtins' and '<locals>' in name:
            name = 'harness.' + T.__name__
        spec = plain_spec(T)
        cid = len(cases)
        obs.append((cid, T, name, fact, kind, spec))
        if kind in ('Same', 'MultilineKeyError', 'Staging'):
            cases.append('CExc %d (mkexc "%s" %s %s) %s' % (cid, name, vlib.coq_bool(fact),
                                                          vlib.coq_bool(spec is True), kind))
        else:
            cases.append('CExc %d (mkexc "%s" %s %s) Staging' % (cid, name, vlib.coq_bool(fact), vlib.coq_bool(spec is True)))
        descr[cid] = ('create_exception', {'type': name, 'code_test_holds': fact, 'implementation': kind})
    return obs, types


def synthetic_smap_cases(rnd, n, enc, cases, descr):
    """annotated trees with random origins: real create_source_map vs the model's fold"""
    from malt.pyct import origin_info, parser, anno
    src = 'def f(a, b):\n  x = g(a, b) + h(b)\n  y = [x, a]; z = (a, b)\n  return x if y else k(z)\n'
    for _ in range(n):
        nodes = parser.parse(src, preamble_len=0, single_node=False)
        pool_lines = rnd.choice([[5], [5, 6], [5, 6, 7, 8]])
        for nd in nodes:
            for x in ast.walk(nd):
                if hasattr(x, 'lineno') and rnd.random() < 0.7:
                    o = origin_info.OriginInfo(origin_info.Location(rnd.choice(['/u/a.py', '/u/a.py', '/u/b.py']),
                                                                    rnd.choice(pool_lines), rnd.randint(0, 5)),
                                               'f', 'line', None)
                    anno.setanno(x, anno.Basic.ORIGIN, o)
        real = _installed['csm'](nodes, src, '/gen/g.py') if _installed else origin_info.create_source_map(nodes, src, '/gen/g.py')
        entries = walk_entries(nodes, src, '/gen/g.py')
        cid = len(cases)
        items = sorted(((k.filename, k.lineno), o) for k, o in real.items())
        cases.append('CSmap %d %s %s' % (cid, enc.smap(entries), enc.smap(items)))
        descr[cid] = ('create_source_map', {'entries': [(k, tuple(o.loc)) for k, o in entries],
                                            'implementation': [(k, tuple(o.loc)) for k, o in items]})


def program_cases(rnd, res, enc, cases, descr, label):
    """cases from one real run: every attach call, the whole chain, source maps per generated line"""
    recs = res['attach']
    ids = {'attach': [], 'run': None, 'smap': []}
    if recs:
        full = recs[-1][0]
        for (tb, cause, msg, sm, conv, md) in recs:
            cid = len(cases)
            cases.append('CAttach %d %s %s %s %s %s %s' % (cid, enc.frames(tb), enc.outcome(cause), enc.s(msg, 'm'),
                                                         enc.smap(restrict_map(sm, tb, rnd)), enc.s(conv, 'F'), enc.outcome(md)))
            descr[cid] = ('attach-real', {'program': label, 'tb': [(f[0], f[1], f[2]) for f in tb]})
            ids['attach'].append(cid)
        # levels, outermost first
        ok = all(r[5] != 'crash' for r in recs)
        levels = []
        for j in range(len(recs) - 1, -1, -1):
            tb = recs[j][0]
            if j == 0:
                seg, cc = tb, (recs[j][4], 0, 'converted_call', '')
            else:
                inner = recs[j - 1][0]
                if len(tb) < len(inner) + 1 or tb[len(tb) - len(inner):] != inner:
                    ok = False
                    break
                seg = tb[:len(tb) - len(inner) - 1]
            if j == len(recs) - 1:
                cc = (recs[j][4], 0, 'converted_call', '')
            levels.append((recs[j][3], cc, seg))
            if j > 0:
                cc = tb[len(tb) - len(recs[j - 1][0]) - 1]     # converted_call's frame of the next level
        if ok:
            cid = len(cases)
            lv = '; '.join('mklevel %s %s %s' % (enc.smap(restrict_map(sm, full)), enc.frame(cc), enc.frames(seg))
                           for sm, cc, seg in levels)
            cases.append('CRun %d [%s] [] %s %s %s' % (cid, lv, enc.s(recs[0][2], 'm'), enc.s(recs[0][4], 'F'),
                                                      enc.outcome(recs[-1][5])))
            descr[cid] = ('run-real', {'program': label, 'levels': len(levels)})
            ids['run'] = cid
    for entries, result, filepath in res['smaps']:
        if entries is None:
            continue
        lines = sorted(set(k[1] for k, _ in entries if k[0] == filepath))
        rnd.shuffle(lines)
        pick = set(lines[:5])
        sub = [(k, o) for k, o in entries if k[1] in pick and k[0] == filepath]
        items = sorted(((k.filename, k.lineno), o) for k, o in result.items() if k.lineno in pick and k.filename == filepath)
        cid = len(cases)
        cases.append('CSmap %d %s %s' % (cid, enc.smap(sub), enc.smap(items)))
        descr[cid] = ('create_source_map-real', {'program': label, 'generated_lines': sorted(pick)})
        ids['smap'].append(cid)
    return ids


def check(run):
    tier = run.tier
    nprog = 150 if tier == 'quick' else 2000
    run.rule = ('programs: call chains f0->..->f(d-1), d<=4, over {C plain def, U do_not_convert def, N nested def, '
                'L lambda, R direct recursion} (all %d admissible chains round-robin) x %d failure kinds '
                '(explicit raise of builtin/user classes with and without constructors, failing builtins, '
                'KeyError/IndexError/ZeroDivisionError/TypeError/AttributeError/assert/del/unpack) x hot statement at a '
                'random position and nesting depth (if/elif/else/for/while/try-finally/try-except/with, in headers, '
                'comprehensions, conditional and boolean expressions) x recursive in {True,False}; '
                'distinct non-trivial = distinct (chain, failure kind, recursive, nesting path of the hot statement); '
                'plus: every exception class of the table (builtins, malt, user classes) x 1..3 nested user-requested '
                'malt.convert wrappers (type must survive every further conversion boundary), and the corpus'
                % (len(G.all_chains()), len(G.ALL_FAIL)))
    tmpdir = vlib.ensure_dir(os.path.join(vlib.BUILD, 'tmp', str(os.getpid())))
    old_tmp = os.environ.get('TMPDIR')
    os.environ['TMPDIR'] = tmpdir
    tempfile.tempdir = None
    try:
        _check(run, nprog, tmpdir)
    finally:
        uninstall_hooks()
        if old_tmp is None:
            os.environ.pop('TMPDIR', None)
        else:
            os.environ['TMPDIR'] = old_tmp
        tempfile.tempdir = None
        shutil.rmtree(tmpdir, ignore_errors=True)


def _check(run, nprog, tmpdir):
    rnd = random.Random(run.seed)
    # 1. regenerate
    tie_msg = None
    try:
        generate()
    except c12_errors.Untranslatable as e:
        tie_msg = str(e)
        run.note(tie_msg)
    # 2. proofs
    if tie_msg is None:
        vlib.standard_proof_step(run, ['Errors/ErrorsCheck.vo'])
    gen_text = ''
    try:
        gen_text = open(os.path.join(vlib.COQ, 'Generated', 'C12_gen.v')).read()
    except OSError:
        pass
    m = re.search(r'Definition fact_name : string := "([^"]*)"', gen_text)
    fact_name = m.group(1) if (m and tie_msg is None) else 'identity'

    from malt.impl import api
    from malt.pyct import error_utils
    install_hooks()
    enc = Enc()
    cases, descr = [], {}
    failures = []        # property-level failures: (title, replay dict, classify id or None)

    # 3a. synthetic correspondence
    synth_fails = synthetic_stack_cases(rnd, 120 if run.tier == 'quick' else 1500, enc, cases, descr)
    exc_obs, exc_types = exception_cases(enc, cases, descr, fact_name)

    def fact_of(T):
        if fact_name == 'identity':
            return T.__init__ is Exception.__init__
        if fact_name.startswith('call:'):
            return bool(getattr(error_utils, fact_name[5:])(T))
        return False
    synthetic_smap_cases(rnd, 60 if run.tier == 'quick' else 600, enc, cases, descr)
    run.count(len(cases))

    # property-level judgement of the type rule on real types (the spec side is plain_spec)
    for cid, T, name, fact, kind, spec in exc_obs:
        bad = None
        if kind.startswith(('Other', 'Raised')):
            bad = 'create_exception on %s: %s' % (name, kind)
        elif spec is True and kind != 'Same':
            bad = '%s takes a plain message and defines no initialiser of its own but is re-created as %s' % (name, kind)
        elif spec is False and kind != 'Staging' and name not in ('malt.impl.api.StagingError',):
            bad = '%s defines an initialiser of its own but is re-created as %s' % (name, kind)
        elif spec == 'key' and kind != 'MultilineKeyError':
            bad = 'KeyError is re-created as %s' % kind
        if bad:
            cls = F_IDENTITY if (kind == 'Staging' and classify_identity(T, api.StagingError)) else None
            failures.append((bad, {'what': bad, 'type': name,
                                   'replay': "PYTHONPATH=%s /venv/bin/python -c \"from malt.impl import api; T=%s; print(type(api._ErrorMetadata([], None, 'm', {}, 'x').create_exception(T.__new__(T))))\"" % (vlib.REPO, T.__name__ if T.__module__ == 'builtins' else 'type(%r, %r, {})' % (T.__name__, tuple(b.__name__ for b in T.__bases__)))},
                             cls))

    # 4a. corpus first, then nested wrappers x every exception class of the table
    corpus_oracle(failures, run, tmpdir)
    run.extra['nested_wrapper_runs'] = nesting_oracle(exc_types, fact_of, tmpdir, enc, cases, descr, failures, run)

    # 3b + 4. generated programs
    chains = G.all_chains()
    order = list(range(len(chains)))
    rnd.shuffle(order)
    kinds = list(G.ALL_FAIL)
    rnd.shuffle(kinds)
    prog_of_case = {}
    stats = {'programs': 0, 'original_did_not_raise': 0, 'source_map_entries': 0, 'conversions': 0,
             'by_depth': {}, 'by_type': {}, 'size_lines': []}
    for i in range(nprog):
        chain = chains[order[i % len(order)]]
        fk = kinds[(i + i // len(kinds)) % len(kinds)]
        recursive = rnd.random() < 0.8
        sub = rnd.randrange(1 << 30)
        prnd = random.Random(sub)
        pr = G.make_program(prnd, chain, fk, prnd.choice([0, 1, 1, 2]))
        label = 'chain=%s fail=%s recursive=%s subseed=%d' % (pr['chain'], fk, recursive, sub)
        info = ProgInfo(pr['text'])
        try:
            res = run_program(pr, 'c12prog_%d' % i, recursive, tmpdir)
        except Exception as e:   # noqa
            failures.append(('harness could not run a generated program: %r' % (e,), {'program': pr['text'], 'label': label}, None))
            continue
        stats['programs'] += 1
        run.count()
        if res['orig'] is None:
            stats['original_did_not_raise'] += 1
            continue
        stats['by_depth'][len(chain)] = stats['by_depth'].get(len(chain), 0) + 1
        tn = type(res['orig']).__name__
        stats['by_type'][tn] = stats['by_type'].get(tn, 0) + 1
        stats['size_lines'].append(len(info.lines))
        stats['conversions'] += len(res['convs'])
        hot_depth = max((len(l) - len(l.lstrip())) // 2 for l in info.lines if l.strip()) if info.lines else 0
        user = [f for f in res['orig_tb'] if f.filename == res['path']]
        inner_line = info.lines[user[-1].lineno - 1] if user else ''
        run.nontriv((pr['chain'], fk, recursive, (len(inner_line) - len(inner_line.lstrip())) // 2,
                     tuple(f.lineno for f in user)))
        if i % 37 == 0:
            run.sample({'label': label, 'original_traceback': [(f.name, f.lineno, f.line) for f in user],
                        'original_exception': '%s: %s' % (tn, res['orig']),
                        'converted_exception_type': type(res['conv']).__name__ if res['conv'] is not None else None,
                        'program_lines': len(info.lines)})
        # property-level oracle
        pf = judge_program(pr, res, info)
        sf, nent = judge_source_maps(pr, res, info)
        stats['source_map_entries'] += nent
        for kind, det in pf + sf:
            cls = None
            if kind == 'generator':
                continue
            if kind == 'divergence':
                stats['semantic_divergence_C01'] = stats.get('semantic_divergence_C01', 0) + 1
                if stats['semantic_divergence_C01'] <= 3:
                    run.note('converted code fails differently from the original (C01, not judged here): %s | %s' % (label, det))
                continue
            if kind == 'type' and classify_identity(type(res['orig']), type(res['conv'])):
                cls = F_IDENTITY
            if kind == 'file-alias':
                cls = F_CODEALIAS
            if kind == 'source-map-shared':
                # entries keyed by a line of an ORIGINAL file: ORIGIN stamped by copy_origin on the interpreter-wide
                # ast.Load()/Store()/operator singletons is read back from the "re-parsed" tree (same objects)
                cls = F_SINGLETON
            if kind == 'stack':
                want, units = expected_stack(user, info, recursive)
                if 'observed' in det and classify_recursion(want, det['observed'], res, units):
                    cls = F_RECURSION
            title = {'type': 'exception re-raised with the wrong type',
                     'message': 'original message not carried',
                     'stack': 'translated_stack does not list the frames of the original traceback',
                     'source-map': 'ag_source_map entry does not point to the statement it was generated from',
                     'file-alias': 'error reported with the name of another file',
                     'source-map-shared': 'ag_source_map has entries that are not lines of the generated file',
                     }.get(kind, 'error metadata: ' + kind)
            failures.append((title, dict(det, label=label, program=pr['text'], entry='f0', argument=G.P_VALUE,
                                         recursive=recursive,
                                         how='write program to a file, import it, compare traceback.extract_tb of f0(p) '
                                             'with malt.convert(recursive=%s)(f0)(p).ag_error_metadata.translated_stack' % recursive),
                             cls))
        # correspondence cases from the real run (skip when there are too many already)
        if len(cases) < (1400 if run.tier == 'quick' else 12000):
            ids = program_cases(rnd, res, enc, cases, descr, label)
            for c in ids['attach'] + ids['smap'] + ([ids['run']] if ids['run'] is not None else []):
                prog_of_case[c] = (pr, label, 'R' in chain)
    run.extra['input_distribution'] = {
        'programs': stats['programs'], 'original_did_not_raise': stats['original_did_not_raise'],
        'conversions_observed': stats['conversions'], 'semantic_divergence_C01_skipped': stats.get('semantic_divergence_C01', 0), 'source_map_entries_checked': stats['source_map_entries'],
        'chain_depth_histogram': stats['by_depth'], 'exception_type_histogram': stats['by_type'],
        'program_lines_min_median_max': (lambda s: [s[0], s[len(s) // 2], s[-1]] if s else [])(sorted(stats['size_lines']))}
    if stats['programs'] and stats['original_did_not_raise'] * 10 > stats['programs']:
        failures.append(('generator defect: too many programs whose original does not raise', {'stats': stats}, None))

    # 3c. evaluate the model on all cases
    corr_bad = None
    if synth_fails:
        corr_bad = 'implementation raised on generated frame lists (%d), first: %s' % (len(synth_fails), synth_fails[0][:1200])
    if tie_msg is None:
        r, log = eval_cases(cases, 'cases')
        if r is None:
            corr_bad = 'model evaluation failed: ' + log
        else:
            bad, outside, several = r
            run.extra['traces_validated_against_impl'] = len(cases)
            run.extra['real_runs_outside_daisy_chain_hypotheses'] = len(outside)
            run.extra['source_maps_with_several_original_lines_per_generated_line'] = len(several)
            if bad and not corr_bad:
                d = descr.get(bad[0])
                corr_bad = 'model and implementation disagree on %d case(s), first: %s %s' % (
                    len(bad), d[0] if d else '?', json.dumps(d[1], default=str)[:1500] if d else '')
            # hypotheses of daisy_chain on real runs: may only fail for direct recursion (known finding)
            for c in outside:
                pr, label, has_rec = prog_of_case.get(c, (None, '?', False))
                if not has_rec:
                    failures.append(('a real run is outside the hypotheses of daisy_chain (a source map knows a frame below its level, '
                                     'or a level has no mapped frame)', {'label': label, 'program': pr and pr['text']}, None))
            # "one statement per line" on real conversions
            for c in several:
                if c in prog_of_case:
                    pr, label, _ = prog_of_case[c]
                    failures.append(('nodes from several original lines printed on one generated line',
                                     {'label': label, 'program': pr['text'], 'generated_lines': descr[c][1].get('generated_lines')}, None))

    # 5. verdict
    seen = set()
    for title, rep, cls in failures:
        key = (title, cls)
        if key in seen:
            continue
        seen.add(key)
        run.violation(title, rep, classify=cls)
    real_fail = [f for f in failures if f[2] is None or f[2] not in [k['id'] for k in run.known]]
    if not real_fail:
        if tie_msg is not None:
            run.violation('translator no longer recognises error_utils.py / api.py: ' + tie_msg,
                          {'broken_tie': tie_msg, 'searched': '%d generated programs, no failing input' % stats['programs']},
                          found_input=False)
        elif corr_bad:
            run.violation('correspondence model/implementation broken', {'broken_correspondence': corr_bad,
                          'searched': '%d generated programs, no failing input' % stats['programs']}, found_input=False)
    run.assumptions += [
        'interpretation: "same type" for KeyError means a KeyError subclass named KeyError (MultilineMessageKeyError prints the message unescaped)',
        'interpretation: a frame of a lambda/comprehension is named after the innermost enclosing def (lambdas have no name of their own in OriginInfo)',
        'interpretation: "user frames" are frames of the program file; frames of malt/operators listed for failing builtins are ignored',
        'spec of "takes a plain message and defines no initialiser of its own": no Python-level class in the MRO defines __init__/__new__ and the first builtin base is one of %s' % ', '.join(PLAIN_BUILTINS),
        'origin inheritance through the 13 passes is not modelled: it is judged by the oracle (markers) on the generated programs only',
        'traceback.extract_tb / frame objects / the loader are outside the model (exercised by the correspondence on real runs)',
    ]


def replay(path):
    doc = json.load(open(path))
    rep = doc.get('replay', {})
    prog = rep.get('program')
    if not prog:
        print(json.dumps(doc, indent=1))
        return 0
    tmpdir = vlib.ensure_dir(os.path.join(vlib.BUILD, 'tmp', 'replay%d' % os.getpid()))
    os.environ['TMPDIR'] = tmpdir
    tempfile.tempdir = None
    try:
        install_hooks()
        pr = {'text': prog, 'markers': {}}
        for i, l in enumerate(prog.split('\n'), 1):
            for x in MARK.findall(l):
                pr['markers'].setdefault(int(x), i)
        info = ProgInfo(prog)
        res = run_program(pr, 'c12replay', rep.get('recursive', True), tmpdir)
        fails = judge_program(pr, res, info) + judge_source_maps(pr, res, info)[0]
        print(prog)
        print('original :', repr(res['orig']), [(f.name, f.lineno) for f in res.get('orig_tb', []) if f.filename == res['path']])
        md = getattr(res['conv'], 'ag_error_metadata', None)
        print('converted:', type(res['conv']).__name__, md and [(x.function_name, x.lineno) for x in md.translated_stack])
        for k, d in fails:
            print('FAIL', k, json.dumps(d, default=str)[:600])
        return 1 if fails else 0
    finally:
        uninstall_hooks()
        shutil.rmtree(tmpdir, ignore_errors=True)
