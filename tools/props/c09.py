"""C09 -- converted functions keep the original calling interface and environment (DESIGN.md 4/C09).

 1. regenerate coq/Generated/C09_gen.v from malt/pyct/transpiler.py and malt/converters/functions.py
    (tools/translate/c09_iface.py, fail closed)
 2. re-check the obligations in coq/Properties/C09 (config_ok_current is the per-run side condition)
 3. correspondence: for every generated function the real run is observed through hooks
    (parameter list entering/leaving transform_ast, FunctionTransformer level, the arguments of
    _PythonFnFactory.instantiate, the factory code's co_freevars, the symbol tables of the generated
    module as CPython's symtable sees them, the resulting function object) and written as a `case`;
    the model (MV.Iface.Factory.convert over the generated config) is evaluated in Coq on it
 4. property-level oracle on the real code: inspect.signature equality, __defaults__/__kwdefaults__
    identity, __globals__ identity, per-name closure cell identity, rebinding seen on both sides,
    no user default expression / decorator evaluated by the conversion, calls binding every
    parameter kind (valid and invalid) with equal outcome, bound methods, shared code objects
"""
import ast
import inspect
import itertools
import json
import linecache
import os
import random
import re
import shutil
import symtable
import sys
import textwrap
import types

import gc
import weakref

from lib import vlib
from translate import c09_iface
from translate import c09_cache

KF_CLEARED = 'c09-cleared-defaults'

CLOSURE_POOL = ['zeta', 'alpha', 'mid', 'b', '_u', 'Kappa', 'x9', 'omega', 'c2', 'Delta', 'fscope', 'do_return']
PARAM_POOL = ['p', 'q', 'r', 's', 't', 'u', 'v', 'w', 'aa', 'zz']


def generate():
    text, _ = c09_iface.translate(vlib.REPO)
    vlib.write_if_changed(os.path.join(vlib.COQ, 'Generated', 'C09_gen.v'), text)
    text, _ = c09_cache.translate(vlib.REPO)
    vlib.write_if_changed(os.path.join(vlib.COQ, 'Generated', 'C09_cache_gen.v'), text)


# =========================================================================================
# run-time support living in every generated module's globals
# =========================================================================================
class Tag(object):
    """The value of a default expression: one new object per evaluation."""

    def __init__(self, j, val):
        self.j, self.val = j, val

    def __repr__(self):
        return 'Tag(%d,%r)' % (self.j, self.val)


class Support(object):
    def __init__(self):
        self.log = []

    def d(self, j, val=None):
        self.log.append(('eval', j))
        return Tag(j, val)

    def deco(self, i):
        def apply(f):
            self.log.append(('deco', i))
            return f
        return apply

    def plain(self, f):
        self.log.append(('deco', 100))
        return f


# =========================================================================================
# generator of specs -> module source
# =========================================================================================
def gen_signature(r, allow_self=False):
    names = list(PARAM_POOL)
    r.shuffle(names)
    it = iter(names)
    sig = {'posonly': [next(it) for _ in range(r.choice([0, 0, 1, 2]))],
           'args': [next(it) for _ in range(r.choice([0, 1, 2, 3]))],
           'vararg': next(it) if r.random() < 0.4 else None,
           'kwonly': [next(it) for _ in range(r.choice([0, 0, 1, 2, 3]))],
           'kwarg': next(it) if r.random() < 0.4 else None}
    npos = len(sig['posonly']) + len(sig['args'])
    sig['ndefaults'] = r.randint(0, npos) if r.random() < 0.7 else 0
    sig['kwdefault'] = [r.random() < 0.5 for _ in sig['kwonly']]
    sig['annot'] = r.random() < 0.2
    return sig


def gen_spec(r, idx):
    kind = r.choice(['nested', 'nested', 'nested', 'nested', 'toplevel', 'lambda', 'method', 'method', 'decorated'])
    spec = {'idx': idx, 'kind': kind, 'sig': gen_signature(r)}
    nv = 0 if kind == 'toplevel' else r.choice([0, 1, 2, 3, 4, 5])
    names = r.sample(CLOSURE_POOL, nv)
    modes = ['read', 'read', 'write', 'inner', 'cond_write', 'nonlocal_only', 'loop_write']
    if kind == 'lambda':
        # a second lambda on the line makes malt match lambdas by argument names, which never succeeds for
        # positional-only parameters (parser._node_matches_argspec ignores posonlyargs: a C15 matter)
        modes = ['read', 'inner'] if not spec['sig']['posonly'] else ['read']
    spec['closure'] = [(n, r.choice(modes)) for n in names]
    spec['empty'] = [n for n, m in spec['closure'] if m in ('read', 'inner') and r.random() < 0.08]
    # several function objects sharing ONE code object (the enclosing function called repeatedly): they are served by
    # one cached factory.  `bases` are the values their (distinct) cells hold at conversion time -- equal contents,
    # different contents and mixtures, since cells compare by contents
    spec['instances'] = 3 if (kind in ('nested', 'lambda', 'method', 'decorated') and r.random() < 0.3) else 1
    spec['bases'] = r.choice([[0, 0, 0], [0, 50, 100], [0, 0, 50], [50, 0, 0]])
    spec['default_kind'] = [r.choice(['tag', 'tag', 'local', 'mutable', 'const']) for _ in range(12)]
    spec['bound'] = r.random() < 0.6
    spec['ndeco'] = r.choice([1, 1, 2]) if kind == 'decorated' else 0
    spec['plain_deco'] = r.random() < 0.5
    spec['cleared'] = None
    spec['order'] = r.random()
    spec['uses_global'] = r.random() < 0.7
    return spec


def render(spec):
    """-> (source text, description of the default expressions in order, decorator ids)"""
    sig = spec['sig']
    r = random.Random(spec['order'])
    cvars = [n for n, _ in spec['closure']]
    defaults_src = []
    counter = itertools.count(1)

    def default_expr():
        j = next(counter)
        k = spec['default_kind'][j % len(spec['default_kind'])]
        if k == 'local' and cvars and spec['kind'] != 'toplevel':
            inner = r.choice(cvars) if not spec['empty'] else '0'
        elif k == 'mutable':
            inner = r.choice(['[]', '{}', '[1, 2]'])
        elif k == 'const':
            inner = r.choice(['None', '3', "'s'"])
        else:
            inner = str(j * 7)
        defaults_src.append(j)
        return '_d(%d, %s)' % (j, inner)

    def ann(p):
        return '%s: int' % p if sig['annot'] else p
    pos = sig['posonly'] + sig['args']
    if spec['kind'] == 'method':
        pos = ['self'] + pos
    first_default = len(pos) - sig['ndefaults']
    parts = []
    for i, p in enumerate(pos):
        is_posonly_end = (spec['kind'] == 'method' and i == len(sig['posonly'])) or \
                         (spec['kind'] != 'method' and i == len(sig['posonly']) - 1)
        s = ann(p) if spec['kind'] != 'lambda' else p
        if i >= first_default and not (spec['kind'] == 'method' and i == 0):
            s += ('=' if spec['kind'] == 'lambda' or not sig['annot'] else ' = ') + default_expr()
        parts.append(s)
        if sig['posonly'] and is_posonly_end:
            parts.append('/')
    if sig['vararg']:
        parts.append('*' + sig['vararg'])
    elif sig['kwonly']:
        parts.append('*')
    for k, has in zip(sig['kwonly'], sig['kwdefault']):
        s = ann(k) if spec['kind'] != 'lambda' else k
        if has:
            s += ('=' if spec['kind'] == 'lambda' or not sig['annot'] else ' = ') + default_expr()
        parts.append(s)
    if sig['kwarg']:
        parts.append('**' + sig['kwarg'])
    plist = ', '.join(parts)
    allp = pos + ([sig['vararg']] if sig['vararg'] else []) + sig['kwonly'] + ([sig['kwarg']] if sig['kwarg'] else [])
    reads = [n for n, m in spec['closure'] if m in ('read', 'write', 'cond_write', 'loop_write')]
    inner_reads = [n for n, m in spec['closure'] if m == 'inner']
    r.shuffle(reads)
    ret_items = list(allp) + reads
    if inner_reads:
        ret_items.append('_inner()')
    if spec['uses_global']:
        ret_items.append('G')
    ret = '(%s,)' % ', '.join(ret_items) if ret_items else '()'

    body = []
    nl = [n for n, m in spec['closure'] if m in ('write', 'cond_write', 'nonlocal_only', 'loop_write')]
    if nl:
        shuffled = list(nl)
        r.shuffle(shuffled)
        body.append('nonlocal ' + ', '.join(shuffled))
    stmts = []
    for n, m in spec['closure']:
        if m == 'write':
            stmts.append(['%s = %s + 1' % (n, n)])
        elif m == 'cond_write':
            stmts.append(['if G > 0:', '    %s = %s + 10' % (n, n), 'else:', '    %s = %s - 10' % (n, n)])
        elif m == 'loop_write':
            stmts.append(['for _i in range(2):', '    %s = %s + 100' % (n, n)])
    r.shuffle(stmts)
    for s in stmts:
        body.extend(s)
    if inner_reads:
        body.append('def _inner():')
        body.append('    return (%s,)' % ', '.join(inner_reads))
    body.append('return ' + ret)

    decos = list(range(1, spec['ndeco'] + 1))
    if decos and spec.get('plain_deco'):
        decos = [100] * len(decos)

    def deco_line(i):
        return '@_plain' if i == 100 else '@_deco(%d)' % i
    L = []
    L.append('G = 41')
    kind = spec['kind']
    if kind == 'toplevel':
        for i in decos:
            L.append(deco_line(i))
        L.append('def f(%s):' % plist)
        L.extend('    ' + b for b in body)
        L.append('def mk(base):')
        L.append('    return f, None, None')
    else:
        L.append('def mk(base):')
        order = list(cvars)
        r.shuffle(order)
        for k, n in enumerate(order):
            L.append('    %s = base + %d' % (n, (k + 1) * 1000))
        L.append('    unused_local = 5')
        if kind == 'lambda':
            ret_l = ret if not inner_reads else ret.replace('_inner()', '(lambda _z=0: (%s,))()' % ', '.join(inner_reads))
            L.append('    f = lambda %s: %s' % (plist, ret_l))
        elif kind == 'method':
            L.append('    class C(object):')
            L.append('        def f(%s):' % plist)
            L.extend('            ' + b for b in body)
            L.append('    f = C().f' if spec['bound'] else '    f = C.f')
        else:
            for i in decos:
                L.append('    ' + deco_line(i))
            L.append('    def f(%s):' % plist)
            L.extend('        ' + b for b in body)
        L.append('    def get_all():')
        L.append('        return {%s}' % ', '.join('%r: %s' % (n, n) for n in cvars if n not in spec['empty']))
        L.append('    def set_var(_name, _val):')
        if cvars:
            L.append('        nonlocal ' + ', '.join(cvars))
        for n in cvars:
            L.append('        if _name == %r:' % n)
            L.append('            %s = _val' % n)
        L.append('        return None')
        for n in spec['empty']:
            L.append('    del %s' % n)
        L.append('    return f, get_all, set_var')
    return '\n'.join(L) + '\n', defaults_src, decos


CORPUS = [
    # (name, source, how to obtain the target from mk's result) -- special shapes
    ('super_method', '''
G = 41
class B(object):
    def f(self, p, q=_d(1, 2)):
        return ('B', p)
def mk(base):
    class C(B):
        def f(self, p, q=_d(1, 2)):
            return ('C', q, G) + super().f(p)
    return C().f, None, None
'''),
    ('dunder_class', '''
G = 41
def mk(base):
    class C(object):
        def f(self, p=_d(1, 2)):
            return (__class__.__name__, p)
    return C.f, None, None
'''),
    ('kwonly_many', '''
G = 41
def mk(base):
    omega = base + 1
    alpha = base + 2
    def f(*, zz=_d(1, omega), aa, q=_d(2, []), **rest):
        nonlocal alpha
        alpha = alpha + omega
        return (zz, aa, q, rest, alpha, omega)
    def get_all():
        return {'omega': omega, 'alpha': alpha}
    def set_var(_name, _val):
        nonlocal omega, alpha
        if _name == 'omega':
            omega = _val
        if _name == 'alpha':
            alpha = _val
    return f, get_all, set_var
'''),
    ('passthrough_only', '''
G = 41
def mk(base):
    zeta = base + 1
    Alpha = base + 2
    def f(p, /, q=_d(1, zeta)):
        def h():
            def hh():
                return (zeta, Alpha)
            return hh()
        return (p, q) + h()
    def get_all():
        return {'zeta': zeta, 'Alpha': Alpha}
    def set_var(_name, _val):
        nonlocal zeta, Alpha
        if _name == 'zeta':
            zeta = _val
        if _name == 'Alpha':
            Alpha = _val
    return f, get_all, set_var
'''),
    ('while_closure', '''
G = 41
def mk(base):
    n = 3
    acc = base
    def f(step=_d(1, 1), *more, scale=_d(2, 2)):
        nonlocal acc
        i = 0
        while i < n:
            acc = acc + 1
            i = i + 1
        return (acc, step, more, scale, n)
    def get_all():
        return {'n': n, 'acc': acc}
    def set_var(_name, _val):
        nonlocal n, acc
        if _name == 'n':
            n = _val
        if _name == 'acc':
            acc = _val
    return f, get_all, set_var
'''),
    ('global_decl', '''
G = 41
H = 5
def mk(base):
    zeta = base
    def f(p=_d(1, 0)):
        global H
        H = H + 1
        return (p, H, G, zeta)
    def get_all():
        return {'zeta': zeta}
    def set_var(_name, _val):
        nonlocal zeta
        if _name == 'zeta':
            zeta = _val
    return f, get_all, set_var
'''),
]


# names the generated module binds around the converted function: the two factories and the transformed
# function itself (`ag__` -- the factory parameter -- is a known C11 matter and lives in OUT_OF_GUARANTEE)
WRAPPER_NAMES = ['inner_factory', 'outer_factory', 'ag__f', 'ag__lam', 'inner_factory_1', 'outer_factory_1']


def wrapper_name_items():
    """Functions whose module-level globals / free variables are spelled like the wrapper-level names of the
    generated module, read directly, through a nested def, through a lambda, and rebound through `global`:
    the converted function is lexically nested in those wrappers, so its global lookups must not be captured."""
    out = []
    for name in WRAPPER_NAMES:
        for mode in ('direct', 'nested', 'lambda', 'write', 'freevar', 'lambda-entity'):
            if mode == 'lambda-entity' and name == 'ag__f':
                continue
            if mode != 'lambda-entity' and name == 'ag__lam':
                continue
            L = ['G = 41']
            if mode != 'freevar':
                L.append('%s = %r' % (name, 'global:' + name))
            body = {'direct': ['return (p, %s, zeta, G)' % name],
                    'nested': ['def h():', '    def hh():', '        return %s' % name, '    return hh()',
                               'return (p, h(), zeta, G)'],
                    'lambda': ['h = lambda _z=0: (%s, zeta)' % name, 'return (p, h(), G)'],
                    'write': ['global %s' % name, '%s = %s + "!"' % (name, name), 'return (p, %s, zeta)' % name],
                    'freevar': ['nonlocal %s' % name, '%s = %s + 1' % (name, name),
                                'return (p, %s, (lambda _z=0: %s)(), zeta)' % (name, name)]}
            L.append('def mk(base):')
            L.append('    zeta = base + 7')
            cv = ['zeta']
            if mode == 'freevar':
                L.append('    %s = base + 3' % name)
                cv.append(name)
            if mode == 'lambda-entity':
                L.append('    f = lambda p=_d(1, 0): (p, %s, (lambda _z=0: %s)(), zeta)' % (name, name))
            else:
                L.append('    def f(p=_d(1, 0)):')
                L.extend('        ' + b for b in body[mode])
            L.append('    def get_all():')
            L.append('        return {%s}' % ', '.join('%r: %s' % (n, n) for n in cv))
            L.append('    def set_var(_name, _val):')
            L.append('        nonlocal ' + ', '.join(cv))
            for n in cv:
                L.append('        if _name == %r:' % n)
                L.append('            %s = _val' % n)
            L.append('    return f, get_all, set_var')
            out.append(('wrapper-name:%s:%s' % (name, mode), '\n'.join(L) + '\n'))
    return out


def semicolon_lambda_items(r, n):
    """Module-level lambdas sharing ONE source line through `;` (2-3 per line, different signatures, defaults and
    bodies), each converted directly (to_graph) and through a forwarding def (recursive converted_call): the
    source recovered for each must be its own."""
    out = []
    for i in range(n):
        k = r.choice([2, 2, 3])
        pool = list(PARAM_POOL)
        r.shuffle(pool)
        lams = []
        dj = itertools.count(1)
        for j in range(k):
            names = [pool.pop() for _ in range(3)]
            shape = r.choice(['pos-default-kw', 'star', 'posonly', 'kwonly', 'plain']) if j else 'pos-default-kw'
            a, b, c = names
            if shape == 'pos-default-kw':
                plist = '%s, %s=_d(%d, 1), *, %s=_d(%d, 2)' % (a, b, next(dj), c, next(dj))
                body = '(%s, %s, %s, G, %d)' % (a, b, c, j)
            elif shape == 'star':
                plist = '*%s, **%s' % (a, b)
                body = '(%s, %s, G, %d)' % (a, b, j)
            elif shape == 'posonly':
                plist = '%s, /, %s=_d(%d, 3)' % (a, b, next(dj))
                body = '(%s, %s, %d)' % (a, b, j)
            elif shape == 'kwonly':
                plist = '*, %s, %s=_d(%d, 4)' % (a, b, next(dj))
                body = '(%s, %s, G, %d)' % (a, b, j)
            else:
                plist = '%s, %s' % (a, b)
                body = '(%s, %s, %d)' % (a, b, j)
            lams.append('lam%d = lambda %s: %s' % (j, plist, body))
        L = ['G = 41', '; '.join(lams)]
        for j in range(k):
            L.append('def via%d(*a, **k):' % j)
            L.append('    return lam%d(*a, **k)' % j)
            L.append('via%d._c09_calls_like = lam%d' % (j, j))
        order = ['lam%d' % j for j in range(k)] + ['via%d' % j for j in range(k)]
        if i % 2:
            order = ['via%d' % j for j in range(k)] + ['lam%d' % j for j in range(k)]
        L.append('def mk(base):')
        L.append('    return (%s,)[base], None, None' % ', '.join(order))
        out.append(('semicolon-lambdas', '\n'.join(L) + '\n', 2 * k))
    return out


# =========================================================================================
# loading generated modules from real files
# =========================================================================================
class Loaded(object):
    counter = 0

    def __init__(self, tmpdir, src, tag):
        Loaded.counter += 1
        self.src = src
        self.path = os.path.join(tmpdir, 'c09_%s_%d.py' % (tag, Loaded.counter))
        with open(self.path, 'w') as f:
            f.write(src)
        linecache.checkcache(self.path)
        self.support = Support()
        self.name = 'c09_mod_%d' % Loaded.counter
        mod = types.ModuleType(self.name)
        mod.__file__ = self.path
        sys.modules[self.name] = mod
        self.ns = mod.__dict__
        self.ns['_d'] = self.support.d
        self.ns['_deco'] = self.support.deco
        self.ns['_plain'] = self.support.plain
        exec(compile(src, self.path, 'exec'), self.ns)

    def close(self):
        sys.modules.pop(self.name, None)


# =========================================================================================
# observation of one function
# =========================================================================================
def underlying(f):
    return f.__func__ if inspect.ismethod(f) else f


def find_def(src, target):
    """The ast node (FunctionDef / Lambda) of the converted entity in the module source."""
    tree = ast.parse(src)
    fn = underlying(target)
    line = fn.__code__.co_firstlineno
    best = None
    for n in ast.walk(tree):
        if isinstance(n, ast.FunctionDef) and n.name == fn.__code__.co_name:
            first = min([n.lineno] + [d.lineno for d in n.decorator_list])
            if first == line or n.lineno == line:
                best = n
        if isinstance(n, ast.Lambda) and fn.__code__.co_name == '<lambda>' and n.lineno == line and best is None:
            a = n.args
            names = [x.arg for x in a.posonlyargs + a.args + a.kwonlyargs] + \
                [x.arg for x in (a.vararg, a.kwarg) if x is not None]
            c = fn.__code__
            if names == list(c.co_varnames[:len(names)]) and \
                    len(names) == c.co_argcount + c.co_kwonlyargcount + bool(c.co_flags & 4) + bool(c.co_flags & 8):
                best = n
    return best


def dexpr_of(e, user_ids):
    """classify a default expression of a parameter list"""
    if isinstance(e, ast.Constant) and e.value is None:
        return 'DNone'
    if isinstance(e, ast.Constant) or (isinstance(e, ast.Tuple) and not e.elts):
        return 'DConst'
    if isinstance(e, ast.Call) and isinstance(e.func, ast.Name) and e.func.id == '_d' and e.args \
            and isinstance(e.args[0], ast.Constant):
        return 'DUser %d' % e.args[0].value
    return 'DUser 999'


def coq_names(l):
    return '[' + '; '.join(vlib.coq_str(x) for x in l) + ']'


def coq_opt(x, f):
    return 'None' if x is None else '(Some %s)' % f(x)


def fsig_term(args):
    """ast.arguments -> Coq fsig"""
    p = 'mkParams %s %s %s %s %s' % (
        coq_names([a.arg for a in args.posonlyargs]), coq_names([a.arg for a in args.args]),
        coq_opt(args.vararg, lambda a: vlib.coq_str(a.arg)), coq_names([a.arg for a in args.kwonlyargs]),
        coq_opt(args.kwarg, lambda a: vlib.coq_str(a.arg)))
    ds = '[' + '; '.join(dexpr_of(d, None) for d in args.defaults) + ']'
    kds = '[' + '; '.join('None' if d is None else 'Some (%s)' % dexpr_of(d, None) for d in args.kw_defaults) + ']'
    return 'mkSig (%s) %s %s' % (p, ds, kds)


def params_term_of_function(fn):
    c = fn.__code__
    names = list(c.co_varnames)
    npos, nko, nkw = c.co_posonlyargcount, c.co_argcount, c.co_kwonlyargcount
    posonly = names[:npos]
    args = names[npos:nko]
    kwonly = names[nko:nko + nkw]
    i = nko + nkw
    vararg = kwarg = None
    if c.co_flags & inspect.CO_VARARGS:
        vararg = names[i]
        i += 1
    if c.co_flags & inspect.CO_VARKEYWORDS:
        kwarg = names[i]
    return 'mkParams %s %s %s %s %s' % (coq_names(posonly), coq_names(args), coq_opt(vararg, vlib.coq_str),
                                        coq_names(kwonly), coq_opt(kwarg, vlib.coq_str))



# =========================================================================================
# the history of the run: lives of code objects and which factory served every conversion
# =========================================================================================
def code_value(c):
    """What code-object equality compares (CPython code_richcompare: name, parameter counts, flags, first line,
    bytecode, constants by type and value, names, local names, line table, exception table; NOT the file name),
    as plain data that does not keep the code object alive."""
    def const(x):
        if isinstance(x, types.CodeType):
            return ('code', code_value(x))
        if isinstance(x, tuple):
            return ('tuple', tuple(const(y) for y in x))
        if isinstance(x, frozenset):
            return ('frozenset', tuple(sorted(repr(const(y)) for y in x)))
        return (type(x).__name__, repr(x))
    return (c.co_name, c.co_argcount, c.co_posonlyargcount, c.co_kwonlyargcount, c.co_flags, c.co_firstlineno,
            c.co_code, tuple(const(x) for x in c.co_consts), c.co_names, c.co_varnames, c.co_cellvars, c.co_freevars,
            c.co_linetable, c.co_exceptiontable)


class History(object):
    """Every code object that reaches PyToPy.transform_function gets a unique identity; its address, its value
    (class of ==), its death (weak-reference callback, i.e. at the moment CPython deallocates it) and each
    conversion with the factory that served it are appended to `events` in real-time order.  Nothing here holds a
    strong reference to a code object, a function or a factory."""

    def __init__(self, broken):
        self.events = []          # ('new', uid, addr#, val#) | ('die', uid) | ('convert', uid, sub#, src uid | 'TypeError')
        self.live = {}            # id(code) -> (weakref, uid)
        self.addr_ix = {}
        self.val_ix = {}
        self.sub_ix = {}
        self.info = {}            # uid -> {'val': n, 'addr': n, 'what': str, 'alive': bool}
        self.rep = {}             # val# -> weakref of one representative (self-check of code_value)
        self.by_hash = {}         # hash(code) -> set of val#
        self.broken = broken
        self.n = 0

    def uid_of(self, code, what=None):
        ent = self.live.get(id(code))
        if ent is not None and ent[0]() is code:
            return ent[1]
        self.n += 1
        uid = self.n
        addr = self.addr_ix.setdefault(id(code), len(self.addr_ix) + 1)
        val = self.val_ix.setdefault(code_value(code), len(self.val_ix) + 1)
        # self-check of the value abstraction against CPython's own == on live objects
        other = self.rep.get(val)
        other = other() if other is not None else None
        if other is not None and other is not code and not (other == code):
            self.broken.append('code_value() identifies code objects CPython tells apart (%s)' % code.co_name)
        for v in self.by_hash.get(hash(code), ()):
            o2 = self.rep.get(v)
            o2 = o2() if o2 is not None else None
            if v != val and o2 is not None and o2 == code:
                self.broken.append('code_value() tells apart code objects CPython identifies (%s)' % code.co_name)
        self.by_hash.setdefault(hash(code), set()).add(val)
        if other is None:
            self.rep[val] = weakref.ref(code)
        key = id(code)

        def died(_wr, uid=uid, key=key):
            self.events.append(('die', uid))
            self.info[uid]['alive'] = False
            if key in self.live and self.live[key][1] == uid:
                del self.live[key]
        self.live[key] = (weakref.ref(code, died), uid)
        self.info[uid] = {'val': val, 'addr': addr, 'alive': True,
                          'what': what or '%s line %d of %s' % (code.co_name, code.co_firstlineno,
                                                                os.path.basename(code.co_filename))}
        self.events.append(('new', uid, addr, val))
        return uid

    def sub_of(self, subkey):
        return self.sub_ix.setdefault(subkey, len(self.sub_ix))

    def coq_case(self):
        evs, obs = [], []
        for e in self.events:
            if e[0] == 'new':
                evs.append('ENew %d %d %d' % e[1:])
            elif e[0] == 'die':
                evs.append('EDie %d' % e[1])
            else:
                evs.append('EConvert %d %d' % (e[1], e[2]))
                obs.append('(%d, %s)' % (e[1], 'STypeError' if e[3] == 'TypeError' else 'SFactory %d' % e[3]))
        return '{| h_events := [%s]%%N; h_observed := [%s]%%N |}' % ('; '.join(evs), '; '.join(obs))

    def stale_reuse(self):
        """measured non-triviality: conversions of a code object that sits at the address of a DEAD code object
        which was converted under the same options and has another value -- the situation in which a cache keyed
        by anything but the object itself hands out another function's factory"""
        converted_at = {}     # addr -> set of (val, sub) of dead converted objects
        conv = {}             # uid -> set of sub
        n = 0
        for e in self.events:
            if e[0] == 'convert':
                uid, sub = e[1], e[2]
                inf = self.info[uid]
                if sub not in conv.setdefault(uid, set()):
                    if any(v != inf['val'] and sb == sub for v, sb in converted_at.get(inf['addr'], ())):
                        n += 1
                conv[uid].add(sub)
            elif e[0] == 'die':
                inf = self.info[e[1]]
                for sub in conv.get(e[1], ()):
                    converted_at.setdefault(inf['addr'], set()).add((inf['val'], sub))
        return n


class Hooks(object):
    """Monkey-patches that record what the real pipeline did (no hooks in /repo)."""

    def __init__(self):
        from malt.pyct import transpiler
        from malt.impl import api
        from malt.converters import functions
        self.transpiler, self.api, self.functions = transpiler, api, functions
        self.inst = None
        self.by_uid = {}      # identity of the code object (History.uid_of) -> {'sig_after', 'decos_after', 'level'}
        self.cur = None
        self.broken = []
        self.history = History(self.broken)
        self.tf_stack = []
        self.last_served = None   # (uid of the code converted last by to_graph's own request, uid the factory came from)
        hooks = self

        # PyToPy.transform_function: one request to the cache per call
        if 'transform_function' in vars(api.PyToPy):
            self.broken.append('api.PyToPy overrides transform_function')
        self.orig_tf = transpiler.PyToPy.transform_function

        def transform_function(self_, fn, user_context):
            frame = {'factory': None, 'transformed': False}
            u = sub = None
            try:
                u = hooks.history.uid_of(fn.__code__)
                sub = hooks.history.sub_of(self_.get_caching_key(user_context))
            except Exception as e:   # noqa
                hooks.broken.append('transform_function hook: %s: %s' % (type(e).__name__, e))
            hooks.tf_stack.append(frame)
            failed = None
            try:
                return hooks.orig_tf(self_, fn, user_context)
            except BaseException as e:   # noqa
                failed = type(e).__name__
                raise
            finally:
                hooks.tf_stack.pop()
                fac, frame['factory'] = frame['factory'], None
                if u is not None and sub is not None:
                    if fac is not None:
                        src = getattr(fac, '_c09_src', None)
                        if src is None and frame['transformed']:
                            src = u
                            try:
                                fac._c09_src = u
                            except Exception as e:   # noqa
                                hooks.broken.append('cannot tag the factory: %s' % e)
                        if src is None:
                            hooks.broken.append('a factory of unknown origin was instantiated')
                        else:
                            hooks.history.events.append(('convert', u, sub, src))
                            if len(hooks.tf_stack) == 0:
                                hooks.last_served = (u, src)
                    elif failed == 'TypeError' and not frame['transformed']:
                        hooks.history.events.append(('convert', u, sub, 'TypeError'))
                fac = None
        transpiler.PyToPy.transform_function = transform_function

        self.orig_instantiate = transpiler._PythonFnFactory.instantiate

        def instantiate(self_, globals_, closure, defaults=None, kwdefaults=None):
            rec = {'freevars': None, 'ffv': None, 'closure': closure, 'defaults': defaults, 'kwdefaults': kwdefaults,
                   'globals': globals_, 'module': None, 'name': None, 'extra': None, 'error': None}
            try:
                rec['freevars'] = tuple(self_._freevars)
                rec['ffv'] = tuple(self_._unbound_factory.__code__.co_freevars)
                rec['module'] = self_.module
                rec['name'] = self_._name
                rec['extra'] = list(self_._extra_locals.keys())
            except Exception as e:   # noqa
                hooks.broken.append('instantiate hook: %s: %s' % (type(e).__name__, e))
            hooks.inst = rec
            if hooks.tf_stack:
                hooks.tf_stack[-1]['factory'] = self_
            try:
                return hooks.orig_instantiate(self_, globals_, closure, defaults, kwdefaults)
            except Exception as e:   # noqa
                rec['error'] = type(e).__name__
                raise
        transpiler._PythonFnFactory.instantiate = instantiate

        self.orig_transform_ast = api.PyToPy.transform_ast

        def transform_ast(self_, node, ctx):
            rec = {'sig_in': None, 'sig_after': None, 'decos_after': None, 'level': 0}
            hooks.cur = rec
            if hooks.tf_stack:
                hooks.tf_stack[-1]['transformed'] = True
            out = hooks.orig_transform_ast(self_, node, ctx)
            try:
                fn = out
                if isinstance(fn, ast.Lambda) or isinstance(fn, ast.FunctionDef):
                    rec['sig_after'] = fsig_term(fn.args)
                if isinstance(fn, ast.FunctionDef):
                    ids = []
                    for d in fn.decorator_list:
                        if isinstance(d, ast.Call) and isinstance(d.func, ast.Name) and d.func.id == '_deco':
                            ids.append(d.args[0].value)
                        elif isinstance(d, ast.Name) and d.id == '_plain':
                            ids.append(100)
                        elif ast.unparse(d) == 'ag__.autograph_artifact':
                            ids.append(0)
                        else:
                            ids.append(998)
                    rec['decos_after'] = ids
                else:
                    rec['decos_after'] = []
            except Exception as e:   # noqa
                hooks.broken.append('transform_ast hook: %s: %s' % (type(e).__name__, e))
            hooks.last_transform = rec
            hooks.cur = None
            return out
        api.PyToPy.transform_ast = transform_ast

        FT = functions.FunctionTransformer
        self.orig_vfd, self.orig_vl = FT.visit_FunctionDef, FT.visit_Lambda

        def note_level(self_):
            try:
                if hooks.cur is not None and not hooks.cur['level']:
                    hooks.cur['level'] = self_.state[functions._Function].level + 1
            except Exception as e:   # noqa
                hooks.broken.append('level hook: %s: %s' % (type(e).__name__, e))

        def vfd(self_, node):
            note_level(self_)
            return hooks.orig_vfd(self_, node)

        def vl(self_, node):
            note_level(self_)
            return hooks.orig_vl(self_, node)
        FT.visit_FunctionDef, FT.visit_Lambda = vfd, vl
        self.last_transform = None

    def close(self):
        self.transpiler._PythonFnFactory.instantiate = self.orig_instantiate
        self.transpiler.PyToPy.transform_function = self.orig_tf
        self.api.PyToPy.transform_ast = self.orig_transform_ast
        self.functions.FunctionTransformer.visit_FunctionDef = self.orig_vfd
        self.functions.FunctionTransformer.visit_Lambda = self.orig_vl


def module_scopes(module, entity_name):
    """symtable view of the generated module: (outer name, inner name, outer locals, inner locals,
    unbound names of the entity)"""
    path = getattr(module, '__file__', None)
    src = open(path).read()
    top = symtable.symtable(src, path, 'exec')
    outers = [c for c in top.get_children() if c.get_type() == 'function']
    if len(outers) != 1:
        raise ValueError('generated module has %d top-level functions' % len(outers))
    outer = outers[0]
    inners = [c for c in outer.get_children() if c.get_type() == 'function']
    if len(inners) != 1:
        raise ValueError('outer factory has %d nested functions' % len(inners))
    inner = inners[0]
    ents = [c for c in inner.get_children() if c.get_name() in (entity_name, 'lambda', '<lambda>')]
    ent = None
    for c in inner.get_children():
        if c.get_name() == entity_name:
            ent = c
    if ent is None:
        # a lambda assigned to the entity name
        lam = [c for c in inner.get_children() if c.get_name() == 'lambda']
        if len(lam) != 1:
            raise ValueError('entity %s not found in the inner factory' % entity_name)
        ent = lam[0]
    unbound = sorted(s.get_name() for s in ent.get_symbols()
                     if s.is_free() or (s.is_global() and not s.is_declared_global()))
    ol = sorted(s.get_name() for s in outer.get_symbols() if s.is_local())
    il = sorted(s.get_name() for s in inner.get_symbols() if s.is_local())
    return outer.get_name(), inner.get_name(), ol, il, unbound


class Obs(object):
    pass


def convert_and_observe(hooks, loaded, target, src_node):
    """Run to_graph(target) under the hooks -> Obs"""
    from malt.impl import api
    o = Obs()
    fn = underlying(target)
    o.target, o.fn = target, fn
    hooks.inst = None
    hooks.last_transform = None
    hooks.last_served = None
    n0 = len(loaded.support.log)
    o.error = None
    o.cf = None
    try:
        o.cf = api.to_graph(target)
    except Exception as e:   # noqa
        o.error = '%s: %s' % (type(e).__name__, str(e)[:300])
    o.events = loaded.support.log[n0:]
    o.inst = hooks.inst
    # keyed by identity: malt's cache is keyed by code *equality*, so a function of another module with an equal
    # code object (same text at the same line) is served by the factory made from that other source; such a
    # conversion has no transformation of its own to compare with and is left out of the correspondence
    # (code objects are identified through the history: nothing here keeps them alive, an address is no identity)
    uid = hooks.history.uid_of(fn.__code__)
    o.uid = uid
    hooks.history.info[uid].setdefault('module_source', loaded.src)
    o.aliased = hooks.last_transform is None and uid not in hooks.by_uid and o.inst is not None
    if hooks.last_transform is not None:
        hooks.by_uid[uid] = hooks.last_transform
    o.transform = hooks.by_uid.get(uid)
    # which code object the factory that served this conversion was generated from
    o.served_by = hooks.last_served[1] if hooks.last_served and hooks.last_served[0] == uid else None
    o.foreign = o.foreign_src = None
    if o.served_by is not None and o.served_by != uid:
        a, b = hooks.history.info[uid], hooks.history.info[o.served_by]
        if a['val'] != b['val']:
            o.foreign = ('the conversion was served by the factory generated from %s (a different code object, %s)'
                         % (b['what'], 'still alive' if b['alive'] else 'already deallocated'))
            o.foreign_src = b.get('module_source')
    return o


def value_term(obj, ids):
    if id(obj) in ids:
        return 'VObj %d' % ids[id(obj)]
    if obj is None:
        return 'VNone'
    if isinstance(obj, Tag):
        return 'VEval %d' % obj.j
    if isinstance(obj, (int, float, str, bytes, tuple, frozenset, type(Ellipsis))):
        return 'VConst'
    return 'VEval 999'


def build_case(index, loaded, o, src_node, decos):
    """-> Coq term of type case, or None when the observation is incomplete"""
    fn = o.fn
    inst = o.inst
    if inst is None or inst['freevars'] is None or o.transform is None or src_node is None:
        return None
    ids = {}
    for obj in list(fn.__defaults__ or ()) + list((fn.__kwdefaults__ or {}).values()):
        ids.setdefault(id(obj), len(ids) + 1)
    cells = list(fn.__closure__ or ())
    cell_ids = dict((id(c), i + 1) for i, c in enumerate(cells))

    def dflt(t):
        return 'None' if t is None else '(Some [%s])' % '; '.join(value_term(x, ids) for x in t)

    def kwdflt(d):
        return 'None' if d is None else '(Some [%s])' % '; '.join(
            '(%s, %s)' % (vlib.coq_str(k), value_term(v, ids)) for k, v in d.items())
    orig = ('{| o_sig := %s; o_decos := [%s]; o_self := %s; o_freevars := %s; o_closure := [%s]; '
            'o_globals := 7; o_defaults := %s; o_kwdefaults := %s |}') % (
        fsig_term(src_node.args), '; '.join(str(d) for d in decos),
        'Some 1' if inspect.ismethod(o.target) else 'None',
        coq_names(inst['freevars']), '; '.join(str(cell_ids.get(id(c), 900 + i)) for i, c in enumerate(inst['closure'])),
        dflt(fn.__defaults__), kwdflt(fn.__kwdefaults__))
    try:
        outer_name, inner_name, ol, il, unbound = module_scopes(inst['module'], inst['name'])
        scopes = '(Some (%s, %s))' % (coq_names(ol), coq_names(il))
    except Exception as e:   # noqa
        return ('broken', 'symtable of the generated module: %s: %s' % (type(e).__name__, e))
    env = 'mkEnv %s %s %s %s %s %d' % (coq_names(unbound), coq_names(inst['extra']), vlib.coq_str(inst['name']),
                                       vlib.coq_str(inner_name), vlib.coq_str(outer_name), o.transform['level'])
    if o.cf is None:
        kind = {'KeyError': 'KeyError', 'ValueError': 'ValueError'}.get(inst['error'])
        if kind is None:
            return None
        outcome = 'OErr %s' % kind
        efree = '[]'
    else:
        cf = o.cf
        ccells = []
        for n, c in zip(cf.__code__.co_freevars, cf.__closure__ or ()):
            if id(c) in cell_ids:
                ccells.append('(%s, COrig %d)' % (vlib.coq_str(n), cell_ids[id(c)]))
            else:
                ccells.append('(%s, CFresh %s)' % (vlib.coq_str(n), vlib.coq_str(n)))
        evs = []
        for kind, j in o.events:
            evs.append('EvalUser %d' % j if kind == 'eval' else 'ApplyDeco %d' % j)
        outcome = 'OFn (%s) %s %s %d [%s] [%s]' % (
            params_term_of_function(cf), dflt(cf.__defaults__), kwdflt(cf.__kwdefaults__),
            7 if cf.__globals__ is fn.__globals__ else 8, '; '.join(ccells), '; '.join(evs))
        efree = coq_names(cf.__code__.co_freevars)
    return ('{| k_index := %d; k_orig := %s; k_env := %s; k_ffv := %s; k_outer := %s; k_entity_free := %s; '
            'k_sig_after := %s; k_decos_after := [%s]; k_outcome := %s |}') % (
        index, orig, env, coq_names(inst['ffv']), scopes, efree,
        coq_opt(o.transform['sig_after'], lambda s: '(%s)' % s),
        '; '.join(str(d) for d in (o.transform['decos_after'] or [])), outcome)


# =========================================================================================
# property-level oracle
# =========================================================================================
def gen_calls(r, fn, n_random=3):
    """argument bindings exercising every parameter kind, valid and invalid"""
    c = fn.__code__
    names = list(c.co_varnames)
    npos, nko, nkw = c.co_posonlyargcount, c.co_argcount, c.co_kwonlyargcount
    posonly, args, kwonly = names[:npos], names[npos:nko], names[nko:nko + nkw]
    has_var = bool(c.co_flags & inspect.CO_VARARGS)
    has_kw = bool(c.co_flags & inspect.CO_VARKEYWORDS)
    nd = len(fn.__defaults__ or ())
    kwd = fn.__kwdefaults__ or {}
    npositional = len(posonly) + len(args)
    required_pos = npositional - nd
    calls = []
    req_kw = dict((k, 'K_' + k) for k in kwonly if k not in kwd)
    all_kw = dict((k, 'K_' + k) for k in kwonly)
    # minimal
    calls.append((tuple('A%d' % i for i in range(required_pos)), dict(req_kw)))
    # everything positional
    calls.append((tuple('A%d' % i for i in range(npositional)), dict(all_kw)))
    # extra positional / extra keyword
    calls.append((tuple('A%d' % i for i in range(npositional + 2)), dict(all_kw)))
    calls.append((tuple('A%d' % i for i in range(npositional)), dict(all_kw, extra_kw=1, zz_extra=2)))
    # args by keyword
    kw = dict(all_kw)
    for a in args:
        kw[a] = 'KW_' + a
    calls.append((tuple('A%d' % i for i in range(len(posonly))), kw))
    # positional-only by keyword
    if posonly:
        kw2 = dict(req_kw)
        kw2[posonly[0]] = 'bad'
        calls.append((tuple('A%d' % i for i in range(max(required_pos - 1, 0))), kw2))
    # missing one required positional / required keyword-only
    if required_pos:
        calls.append((tuple('A%d' % i for i in range(required_pos - 1)), dict(req_kw)))
    if req_kw:
        kw3 = dict(req_kw)
        kw3.pop(sorted(kw3)[0])
        calls.append((tuple('A%d' % i for i in range(required_pos)), kw3))
    # one fewer than all positional (uses exactly the last default), none of the optional kw
    if nd:
        calls.append((tuple('A%d' % i for i in range(npositional - 1)), dict(req_kw)))
        calls.append((tuple('A%d' % i for i in range(required_pos)), dict(req_kw)))
    # duplicate
    if args:
        calls.append((tuple('A%d' % i for i in range(npositional)), dict(all_kw, **{args[0]: 'dup'})))
    for _ in range(n_random):
        k = r.randint(0, npositional + 1)
        kw = {}
        for name in args[max(k - len(posonly), 0):] + kwonly:
            if r.random() < 0.7:
                kw[name] = 'R_' + name
        if r.random() < 0.2:
            kw['other'] = 0
        calls.append((tuple('A%d' % i for i in range(k)), kw))
    return calls


def run_call(f, a, k):
    try:
        return ('ok', f(*a, **k))
    except Exception as e:   # noqa
        return ('exc', type(e).__name__)


def snapshot(cells):
    out = []
    for c in cells:
        try:
            out.append(('v', c.cell_contents))
        except ValueError:
            out.append(('empty', None))
    return out


def restore(cells, snap):
    for c, (k, v) in zip(cells, snap):
        if k == 'v':
            c.cell_contents = v
        else:
            try:
                del c.cell_contents
            except ValueError:
                pass


def outcomes_equal(a, b):
    if a[0] != b[0]:
        return False
    if a[0] == 'exc':
        return a[1] == b[1]
    try:
        return a[1] == b[1]
    except Exception:   # noqa
        return False


def oracle(r, loaded, o, get_all, set_var, decos, calls_budget=3):
    """Judge the property text on the real objects.  -> list of (kind, message)"""
    fails = []
    target, fn, cf = o.target, o.fn, o.cf
    if cf is None:
        return [('conversion-failed', o.error)]
    # conversion ran no user code
    if o.events:
        fails.append(('user-code-evaluated', 'the conversion evaluated %s' % (o.events[:6],)))
    # a plain function
    if not inspect.isfunction(cf) or inspect.ismethod(cf):
        fails.append(('not-a-function', 'to_graph returned %r' % type(cf)))
        return fails
    # signature: names, kinds, order, defaults (the property text does not speak about annotations: they are
    # re-evaluated by the regenerated def; differences are recorded as an observation only)
    try:
        s0 = inspect.signature(fn, follow_wrapped=False)
        s1 = inspect.signature(cf, follow_wrapped=False)

        def bare(sg):
            return sg.replace(parameters=[q.replace(annotation=inspect.Parameter.empty) for q in sg.parameters.values()],
                              return_annotation=inspect.Signature.empty)
        if bare(s0) != bare(s1):
            fails.append(('signature', 'original %s, converted %s' % (s0, s1)))
        elif s0 != s1:
            o.annotation_difference = 'original %s, converted %s' % (s0, s1)
    except Exception as e:   # noqa
        fails.append(('signature', 'inspect.signature raised %s: %s' % (type(e).__name__, e)))
    # defaults identity
    if fn.__defaults__ is not cf.__defaults__ and not (not fn.__defaults__ and not cf.__defaults__):
        fails.append(('defaults-identity', '__defaults__ original %r converted %r' % (fn.__defaults__, cf.__defaults__)))
    if fn.__kwdefaults__ is not cf.__kwdefaults__ and not (not fn.__kwdefaults__ and not cf.__kwdefaults__):
        fails.append(('kwdefaults-identity', '__kwdefaults__ original %r converted %r' % (fn.__kwdefaults__, cf.__kwdefaults__)))
    # globals
    if cf.__globals__ is not fn.__globals__:
        fails.append(('globals', '__globals__ is not the original module dictionary'))
    # closure by name
    ocells = dict(zip(fn.__code__.co_freevars, fn.__closure__ or ()))
    ccells = dict(zip(cf.__code__.co_freevars, cf.__closure__ or ()))
    for n, c in ocells.items():
        if n not in ccells:
            fails.append(('closure', 'free variable %s of the original is not a free variable of the result' % n))
        elif ccells[n] is not c:
            other = [m for m, d in ocells.items() if d is ccells[n]]
            prior = getattr(o, 'prior_cells', {}).get(id(ccells[n]))
            fails.append(('closure', 'free variable %s is bound to %s' % (
                n, 'the cell of %s' % other[0] if other else
                ('the cell of %s of function object #%d created earlier from the same code object' % (prior[1], prior[0])
                 if prior else 'a cell that is not the original one'))))
    for n, c in ccells.items():
        if n not in ocells and any(c is d for d in ocells.values()):
            fails.append(('closure', 'new free variable %s is bound to an original cell' % n))
    # calls: same outcome for every binding, from the same state of the shared cells
    cells = list(fn.__closure__ or ())
    gkeys = [k for k in ('G', 'H') + tuple(WRAPPER_NAMES) if k in fn.__globals__]
    call = target            # bound method: obj.f(*a) vs cf(obj, *a)
    pre = (target.__self__,) if inspect.ismethod(target) else ()
    ncalls = 0
    shape = getattr(fn, '_c09_calls_like', None)      # a forwarding wrapper: bind like the function it forwards to
    for a, k in gen_calls(r, shape or (fn if not pre else _strip_first(fn)), calls_budget):
        snap = snapshot(cells)
        gsnap = dict((g, fn.__globals__[g]) for g in gkeys)
        r0 = run_call(call, a, k)
        after0 = snapshot(cells)
        g0 = dict((g, fn.__globals__[g]) for g in gkeys)
        restore(cells, snap)
        fn.__globals__.update(gsnap)
        r1 = run_call(cf, pre + a, k)
        after1 = snapshot(cells)
        g1 = dict((g, fn.__globals__[g]) for g in gkeys)
        restore(cells, snap)
        fn.__globals__.update(gsnap)
        ncalls += 1
        if not outcomes_equal(r0, r1):
            fails.append(('call', 'f(*%r, **%r): original %r, converted %r' % (a, k, r0, r1)))
            break
        if [x for x in after0] != [x for x in after1] and ocells == dict((n, ccells.get(n)) for n in ocells):
            fails.append(('call-effect', 'f(*%r, **%r) leaves cells %r, converted leaves %r' % (a, k, after0, after1)))
            break
        if g0 != g1:
            fails.append(('call-effect', 'f(*%r, **%r) leaves globals %r, converted leaves %r' % (a, k, g0, g1)))
            break
    o.ncalls = ncalls
    # rebinding on either side is seen by the other (through the sibling closures)
    if set_var is not None and get_all is not None and cells:
        a, k = gen_calls(r, fn if not pre else _strip_first(fn), 0)[1]
        snap = snapshot(cells)
        gsnap = dict((g, fn.__globals__[g]) for g in gkeys)

        def restore_all(cells_, snap_):
            restore(cells_, snap_)
            fn.__globals__.update(gsnap)
        try:
            for j, n in enumerate(fn.__code__.co_freevars):
                if n == '__class__':
                    continue
                set_var(n, 7000 + j)                    # original side rebinding
            seen = run_call(cf, pre + a, k)
            restore_all(cells, snap)
            for j, n in enumerate(fn.__code__.co_freevars):
                if n == '__class__':
                    continue
                set_var(n, 7000 + j)
            seen0 = run_call(call, a, k)
            if not outcomes_equal(seen, seen0):
                fails.append(('rebinding', 'after rebinding in the defining scope: original %r converted %r' % (seen0, seen)))
            # converted side rebinding (nonlocal writes in the body), observed by the sibling reader
            restore_all(cells, snap)
            run_call(call, a, k)
            want = get_all()
            restore_all(cells, snap)
            run_call(cf, pre + a, k)
            got = get_all()
            if want != got:
                fails.append(('rebinding', 'writes of the converted function are not seen by the sibling closure: '
                              'expected %r got %r' % (want, got)))
        finally:
            restore_all(cells, snap)
    return fails


def _strip_first(fn):
    """view of a function without its first positional parameter (for bound methods)"""
    class V(object):
        pass
    v = V()
    c = fn.__code__

    class C(object):
        pass
    cc = C()
    names = list(c.co_varnames)
    first_is_posonly = c.co_posonlyargcount > 0
    cc.co_varnames = tuple(names[1:])
    cc.co_posonlyargcount = c.co_posonlyargcount - (1 if first_is_posonly else 0)
    cc.co_argcount = c.co_argcount - 1
    cc.co_kwonlyargcount = c.co_kwonlyargcount
    cc.co_flags = c.co_flags
    v.__code__ = cc
    v.__defaults__ = fn.__defaults__
    v.__kwdefaults__ = fn.__kwdefaults__
    return v


def is_cleared_defaults_finding(case):
    """Known finding c09-cleared-defaults: the original's __defaults__ (resp. __kwdefaults__) is empty/None although
    its def statement has default expressions of that kind, and the only differences are the placeholder
    defaults (None) the regenerated def left behind: signature / defaults / binding of calls that omit them."""
    spec, fails, fn, node = case['spec'], case['fails'], case['fn'], case['node']
    if node is None or not fails:
        return False
    a = node.args
    # the def the cached factory was generated from: the function's own, or (equal code object of another
    # module converted earlier) another one
    aliased = bool(case.get('aliased'))
    src_pos = len(a.defaults) > 0 or aliased
    src_kw = any(d is not None for d in a.kw_defaults) or aliased
    cf0 = case['cf']
    cleared_pos = src_pos and not fn.__defaults__ and bool(cf0 is not None and cf0.__defaults__)
    cleared_kw = src_kw and not fn.__kwdefaults__ and bool(cf0 is not None and cf0.__kwdefaults__)
    if not (cleared_pos or cleared_kw):
        return False
    allowed = {'signature', 'call'}
    if cleared_pos:
        allowed.add('defaults-identity')
    if cleared_kw:
        allowed.add('kwdefaults-identity')
    if not all(k in allowed for k, _ in fails):
        return False
    cf = case['cf']
    def placeholder(x):
        return x is None or (isinstance(x, (int, str, bytes, tuple, float)) and not x) or x is Ellipsis
    if cleared_pos and not all(placeholder(x) for x in (cf.__defaults__ or ())):
        return False
    if cleared_kw and not all(placeholder(x) for x in (cf.__kwdefaults__ or {}).values()):
        return False
    if not cleared_pos and fn.__defaults__ is not cf.__defaults__ and (fn.__defaults__ or cf.__defaults__):
        return False
    if not cleared_kw and fn.__kwdefaults__ is not cf.__kwdefaults__ and (fn.__kwdefaults__ or cf.__kwdefaults__):
        return False
    return True



# =========================================================================================
# the stream of short-lived modules (notebook cell re-run, module reloaded, plugin unloaded)
# =========================================================================================
def vary_interface(r, spec):
    """Another calling interface over the same body: the parameter names are dealt again, in a new order, among
    positional-only / positional / keyword-only, with new default patterns; *args / **kwargs, the closure and the
    body (which returns every parameter) stay, so the code object has the same size and CPython is likely to
    allocate it where a dead one of the family was."""
    import copy
    v = copy.deepcopy(spec)
    sig = v['sig']
    names = sig['posonly'] + sig['args'] + sig['kwonly']
    r.shuffle(names)
    lam_two = v['kind'] == 'lambda' and any(m == 'inner' for _, m in v['closure'])
    a = 0 if lam_two else r.randint(0, min(2, len(names)))
    b = r.randint(a, len(names))
    sig['posonly'], sig['args'], sig['kwonly'] = names[:a], names[a:b], names[b:]
    sig['ndefaults'] = r.randint(0, b) if r.random() < 0.7 else 0
    sig['kwdefault'] = [r.random() < 0.5 for _ in sig['kwonly']]
    if sig['vararg'] and sig['kwarg'] and r.random() < 0.3:
        sig['vararg'], sig['kwarg'] = sig['kwarg'], sig['vararg']
    v['order'] = spec['order']
    return v


def lifecycle_episodes(r, n):
    """-> list of episodes; an episode is a list of steps {'spec', 'src', 'decos', 'keep'}: modules loaded,
    converted and judged one after the other; after each step the module, the function and the converted function
    are dropped and garbage is collected, unless `keep` (then they live one step longer)."""
    out = []
    for i in range(n):
        base = gen_spec(r, 0)
        base['kind'] = r.choice(['toplevel', 'toplevel', 'nested', 'nested', 'method', 'lambda'])
        if base['kind'] == 'toplevel':
            base['closure'], base['empty'] = [], []
        if base['kind'] == 'lambda':
            if base['sig']['posonly']:
                base['closure'] = [(n_, 'read') for n_, _ in base['closure']]
            else:
                base['closure'] = [(n_, m if m in ('read', 'inner') else 'read') for n_, m in base['closure']]
        base['empty'] = []
        base['ndeco'] = 0
        base['instances'] = 1
        base['cleared'] = None
        base['sig']['annot'] = False
        steps = []
        prev = None
        for j in range(r.choice([3, 4, 5])):
            how = 'base' if j == 0 else r.choice(['variant', 'variant', 'variant', 'variant', 'same', 'other'])
            if how == 'base':
                spec = base
            elif how == 'variant':
                spec = vary_interface(r, base)
            elif how == 'same':
                spec = prev
            else:
                spec = gen_spec(r, 0)
                spec['ndeco'], spec['instances'], spec['cleared'] = 0, 1, None
                if spec['kind'] == 'decorated':
                    spec['kind'] = 'nested'
            src, dsrc, decos = render(spec)
            steps.append({'spec': spec, 'src': src, 'decos': decos, 'how': how, 'keep': j > 0 and r.random() < 0.15})
            prev = spec
        out.append(steps)
    return out


def life_step(hooks, tmp, r, step, index, calls_budget):
    """One step of an episode.  Returns (plain-data result, objects to keep alive): everything else it touched is
    unreferenced when it returns, except on an oracle failure (the failing objects are kept for the report)."""
    loaded = Loaded(tmp, step['src'], 'life')
    try:
        target, get_all, set_var = loaded.ns['mk'](0)
        fn = underlying(target)
        node = find_def(step['src'], target)
        o = convert_and_observe(hooks, loaded, target, node)
        fails = oracle(r, loaded, o, get_all, set_var, step['decos'], calls_budget)
        term = build_case(index, loaded, o, node, step['decos'])
        res = {'fails': fails, 'term': term, 'ncalls': getattr(o, 'ncalls', 0), 'aliased': o.aliased,
               'foreign': o.foreign, 'error': o.error, 'info': None,
               'nontrivial': bool(fn.__closure__ or fn.__defaults__ or fn.__kwdefaults__)}
        if fails:
            res['info'] = {'spec': step['spec'], 'src': step['src'], 'fails': fails, 'fn': fn, 'cf': o.cf, 'node': node,
                           'instance': 0, 'bases': [0], 'error': o.error, 'aliased': o.aliased and not o.foreign,
                           'alias_of': None, 'foreign': o.foreign, 'foreign_src': o.foreign_src}
        return res, (loaded.ns, target, get_all, set_var, o.cf)
    finally:
        loaded.close()
        hooks.inst = None
        hooks.last_transform = None
        hooks.cur = None


def run_episode(hooks, tmp, r, steps, first_index, calls_budget, on_step):
    """`keep` on a step: the objects of the previous step are still alive while this one is loaded and converted;
    otherwise they are dropped and collected first (so their addresses are free again)."""
    prev = None
    for j, step in enumerate(steps):
        if not step['keep']:
            prev = None
            gc.collect()
        try:
            res, objs = life_step(hooks, tmp, r, step, first_index + j, calls_budget)
        except SyntaxError as e:
            res, objs = {'unloadable': '%s: %s' % (e, step['src'][:200])}, None
        prev = objs
        objs = None
        if on_step(j, step, res) is False:
            break
        res = None
    prev = None
    gc.collect()


# =========================================================================================
# the check
# =========================================================================================
def check(run):
    run.rule = ('seeded generator of function definitions: kinds nested / top-level / lambda / method (bound and plain) / '
                'decorated; 0-2 positional-only, 0-3 positional, *args, 0-3 keyword-only, **kwargs, 0..all defaults, '
                'default expressions of 4 kinds, annotations; 0-5 closure variables in 7 usage modes '
                '(read, write, nonlocal-only, through nested def, conditional write, loop write, emptied cell), shuffled '
                'definition / reference order, 3 function objects sharing one code object in 30% of the closure cases (cell '
                'contents equal / different / mixed at conversion time) + a stream of sibling closures with equal or '
                'unassigned cells converted back to back, '
                'defaults cleared / replaced after definition in a separate stream; + 6 fixed special shapes; + every '
                'wrapper-level name of the generated module (inner_factory, outer_factory, ag__f, ag__lam, ..._1) as a '
                'module global / free variable read directly, through nested defs, through lambdas, rebound; + module-level '
                'lambdas sharing one line through `;` (2-3 per line, different signatures / defaults), converted '
                'directly and through a forwarding def (recursive converted_call); '
                'distinct non-trivial = distinct (kind, parameter-kind shape, default pattern, closure usage modes)')
    tmp = vlib.ensure_dir(os.path.join(vlib.BUILD, 'tmp', 'c09-%d' % os.getpid()))
    old_tmp = os.environ.get('TMPDIR')
    os.environ['TMPDIR'] = tmp
    import tempfile
    tempfile.tempdir = None
    try:
        _check(run, tmp)
    finally:
        if old_tmp is None:
            os.environ.pop('TMPDIR', None)
        else:
            os.environ['TMPDIR'] = old_tmp
        tempfile.tempdir = None
        shutil.rmtree(tmp, ignore_errors=True)


def _check(run, tmp):
    tie_msg = None
    try:
        generate()
    except (c09_iface.Untranslatable, c09_cache.Untranslatable) as e:
        tie_msg = str(e)
        run.note(tie_msg)
    proofs_ok = True
    if tie_msg is None:
        ok, _log = vlib.standard_proof_step(run, ['Iface/FactoryCheck.vo', 'Iface/ServedCheck.vo'])
        proofs_ok = ok
    r = random.Random(run.seed)
    n_specs = 320 if run.tier == 'quick' else 2500
    hooks = Hooks()
    cases = []
    case_info = {}
    failures = []       # dicts
    n_kinds = {}
    out_of_guarantee = []
    annotation_notes = []
    n_aliased = [0]
    try:
        items = []
        for name, src in CORPUS:
            items.append(({'idx': len(items), 'kind': 'corpus:' + name, 'instances': 1, 'cleared': None,
                           'sig': None, 'closure': []}, textwrap.dedent(src).lstrip(), None, []))
        for name, src in wrapper_name_items():
            items.append(({'idx': len(items), 'kind': name, 'instances': 2, 'bases': [0, 0], 'cleared': None,
                           'sig': None, 'closure': []}, src, None, []))
        for name, src, k in semicolon_lambda_items(r, 8 if run.tier == 'quick' else 60):
            items.append(({'idx': len(items), 'kind': name, 'instances': k, 'bases': list(range(k)), 'cleared': None,
                           'sig': None, 'closure': []}, src, None, []))
        for i in range(n_specs):
            spec = gen_spec(r, len(items))
            src, dsrc, decos = render(spec)
            items.append((spec, src, dsrc, decos))
        # the stream with defaults changed after the definition (guard of the known finding)
        n_cleared = 24 if run.tier == 'quick' else 150
        for i in range(n_cleared):
            spec = gen_spec(r, len(items))
            spec['kind'] = r.choice(['nested', 'toplevel', 'method'])
            if spec['kind'] == 'toplevel':
                spec['closure'] = []
                spec['empty'] = []
            spec['ndeco'] = 0
            spec['instances'] = 1
            spec['default_kind'] = ['tag']
            spec['cleared'] = r.choice(['none', 'empty', 'replaced', 'kw-none', 'pos-none'])
            src, dsrc, decos = render(spec)
            items.append((spec, src, dsrc, decos))
        # the stream of pairs with EQUAL code objects in different modules: the same function text at the same
        # line, once with default expressions and once without (malt's cache is keyed by code equality, so the
        # second conversion is served by the factory generated from the first source)
        import copy
        n_alias = 6 if run.tier == 'quick' else 30
        for i in range(n_alias):
            spec = gen_spec(r, len(items))
            spec['kind'] = r.choice(['nested', 'toplevel'])
            if spec['kind'] == 'toplevel':
                spec['closure'] = []
                spec['empty'] = []
            spec['ndeco'] = 0
            spec['instances'] = 1
            spec['sig']['annot'] = False
            npos = len(spec['sig']['posonly']) + len(spec['sig']['args'])
            if npos:
                spec['sig']['ndefaults'] = max(spec['sig']['ndefaults'], 1)
            if spec['sig']['kwonly']:
                spec['sig']['kwdefault'][0] = True
            src, dsrc, decos = render(spec)
            items.append((spec, src, dsrc, decos))
            spec2 = copy.deepcopy(spec)
            spec2['idx'] = len(items)
            spec2['sig']['ndefaults'] = 0
            spec2['sig']['kwdefault'] = [False] * len(spec2['sig']['kwonly'])
            spec2['alias_of'] = src
            src2, dsrc2, decos2 = render(spec2)
            items.append((spec2, src2, dsrc2, decos2))
        # the stream of sibling closures: one code object, distinct cells with EQUAL contents (or all still
        # unassigned) at conversion time, converted one right after the other
        n_sib = 16 if run.tier == 'quick' else 120
        for i in range(n_sib):
            spec = gen_spec(r, len(items))
            spec['kind'] = r.choice(['nested', 'nested', 'method', 'lambda'])
            spec['ndeco'] = 0
            spec['cleared'] = None
            spec['instances'] = r.choice([2, 3])
            spec['bases'] = [0, 0, 0]
            names = r.sample(CLOSURE_POOL, r.choice([1, 2, 3]))
            if spec['kind'] == 'lambda':
                spec['sig']['posonly'] = []
                modes = ['read', 'inner']
            else:
                modes = ['read', 'write', 'write', 'cond_write', 'inner', 'loop_write']
            spec['closure'] = [(n, r.choice(modes)) for n in names]
            spec['empty'] = []
            if i % 4 == 3:        # every cell still unassigned when the functions are converted
                spec['closure'] = [(n, 'read') for n in names]
                spec['empty'] = list(names)
            src, dsrc, decos = render(spec)
            items.append((spec, src, dsrc, decos))
        for spec, src, dsrc, decos in items:
            try:
                loaded = Loaded(tmp, src, 'm')
            except Exception as e:   # noqa
                run.note('generator produced an unloadable module (%s): %s' % (e, src[:200]))
                continue
            bases = spec.get('bases') or [0, 50, 100]
            keep_alive = []
            prior_cells = {}
            for inst_no in range(spec['instances']):
                target, get_all, set_var = loaded.ns['mk'](bases[inst_no % len(bases)])
                keep_alive.append((target, get_all, set_var))
                fn = underlying(target)
                if spec['cleared']:
                    c = spec['cleared']
                    if c in ('none', 'pos-none'):
                        fn.__defaults__ = None
                    if c in ('none', 'kw-none'):
                        fn.__kwdefaults__ = None
                    if c == 'empty':
                        fn.__defaults__ = ()
                        fn.__kwdefaults__ = {}
                    if c == 'replaced':
                        nd = len(fn.__defaults__ or ())
                        fn.__defaults__ = tuple(Tag(900 + j, None) for j in range(nd + (1 if fn.__code__.co_argcount > nd else 0)))
                        if fn.__kwdefaults__:
                            fn.__kwdefaults__ = dict((k, Tag(950, k)) for k in fn.__kwdefaults__)
                node = find_def(src, target)
                o = convert_and_observe(hooks, loaded, target, node)
                run.count()
                idx = len(case_info)
                o.prior_cells = dict(prior_cells)
                for n_, c_ in zip(fn.__code__.co_freevars, fn.__closure__ or ()):
                    prior_cells[id(c_)] = (inst_no, n_)
                fails = oracle(r, loaded, o, get_all, set_var, decos, 3 if run.tier == 'quick' else 6)
                run.count(getattr(o, 'ncalls', 0))
                if getattr(o, 'annotation_difference', None):
                    annotation_notes.append(o.annotation_difference)
                key = (spec['kind'], tuple(sorted(m for _, m in spec['closure'])),
                       None if not spec['sig'] else (len(spec['sig']['posonly']), len(spec['sig']['args']),
                                                     bool(spec['sig']['vararg']), len(spec['sig']['kwonly']),
                                                     bool(spec['sig']['kwarg']), spec['sig']['ndefaults'],
                                                     tuple(spec['sig']['kwdefault'])), spec['cleared'])
                if fn.__closure__ or (spec['sig'] and (spec['sig']['ndefaults'] or any(spec['sig']['kwdefault']))):
                    run.nontriv(key)
                n_kinds[spec['kind'].split(':')[0]] = n_kinds.get(spec['kind'].split(':')[0], 0) + 1
                info = {'spec': spec, 'src': src, 'fails': fails, 'fn': fn, 'cf': o.cf, 'node': node,
                        'instance': inst_no, 'bases': list(bases[:inst_no + 1]), 'error': o.error,
                        'aliased': o.aliased and not o.foreign, 'foreign': o.foreign, 'foreign_src': o.foreign_src,
                        'alias_of': spec.get('alias_of')}
                if o.aliased and not o.foreign:
                    n_aliased[0] += 1
                case_info[idx] = info
                if fails:
                    failures.append(info)
                term = build_case(idx, loaded, o, node, decos)
                if isinstance(term, tuple):
                    hooks.broken.append(term[1])
                elif term is not None:
                    cases.append(term)
                if inst_no == spec['instances'] - 1:
                    loaded.close()
                if idx % 29 == 0:
                    run.sample({'kind': spec['kind'], 'source': src, 'instance': inst_no,
                                'original_freevars': list(fn.__code__.co_freevars),
                                'converted_freevars': list(o.cf.__code__.co_freevars) if o.cf else None,
                                'signature': str(inspect.signature(fn, follow_wrapped=False)),
                                'oracle_failures': [k for k, _ in fails]})
        # the stream of short-lived modules: every function dies before (or, `keep`, right after) the next one of
        # its episode is created and converted.  Everything the main stream keeps alive is frozen meanwhile (left
        # out of the collections, which keeps gc.collect() cheap); none of it can die, so no address of the main
        # stream is handed out again
        spec = src = dsrc = decos = loaded = target = get_all = set_var = fn = node = o = info = term = fails = None
        keep_alive = prior_cells = None
        gc.collect()
        gc.freeze()
        import time as _time
        life_stats = {}
        t_life = _time.time()
        n_epi = 48 if run.tier == 'quick' else 400
        life_stats.update({'steps': 0, 'episodes': n_epi})
        rl = random.Random(run.seed * 7919 + 9)
        for steps in lifecycle_episodes(rl, n_epi):
            first = len(case_info)
            for j, st in enumerate(steps):
                case_info[first + j] = {'spec': st['spec'], 'src': st['src'], 'fails': [], 'lifecycle': True}

            def on_step(j, step, res, steps=steps, first=first):
                if res.get('unloadable'):
                    run.note('generator produced an unloadable module (%s)' % res['unloadable'])
                    return True
                run.count()
                run.count(res['ncalls'])
                life_stats['steps'] += 1
                sg = step['spec']['sig']
                if res['nontrivial']:
                    run.nontriv(('life', step['how'], step['keep'], step['spec']['kind'], len(sg['posonly']), len(sg['args']),
                                 bool(sg['vararg']), len(sg['kwonly']), bool(sg['kwarg'])))
                n_kinds['short-lived'] = n_kinds.get('short-lived', 0) + 1
                if res['aliased'] and not res['foreign']:
                    n_aliased[0] += 1
                if isinstance(res['term'], tuple):
                    hooks.broken.append(res['term'][1])
                elif res['term'] is not None:
                    cases.append(res['term'])
                if res['info'] is not None:
                    info = res['info']
                    seq = [(x['src'], x['keep']) for x in steps[:j + 1]]
                    fsrc = info.get('foreign_src')
                    if fsrc is not None and fsrc not in [x for x, _ in seq]:
                        seq = [(fsrc, False)] + seq
                    if fsrc is not None and len(seq) > 2:
                        # the shortest sequence with the same two functions: confirmed here, kept if it fails too
                        short = [(fsrc, False), (step['src'], False)]
                        hit = try_sequence(hooks, tmp, life_steps_of(short), 40)
                        if hit is not None:
                            seq = short
                            info['lifecycle_confirmed'] = 'the two-module sequence failed again at repetition %d: %s' % (
                                hit[0], [k for k, _ in hit[1]])
                    info['lifecycle'] = [{'module_source': x, 'keep_previous_alive': k} for x, k in seq]
                    case_info[first + j]['fails'] = info['fails']
                    failures.append(info)
                    return False     # the objects of a failure stay alive: the episode ends here
                return True
            run_episode(hooks, tmp, rl, steps, first, 3 if run.tier == 'quick' else 6, on_step)
            if len([f for f in failures if f.get('lifecycle')]) >= 3:
                break
    except BaseException:
        hooks.close()
        raise
    finally:
        gc.unfreeze()
    try:
        life_stats['seconds'] = round(_time.time() - t_life, 1)
        run.extra['short_lived_modules'] = life_stats
        # out-of-guarantee stream: must raise rather than mis-bind
        for name, src in OUT_OF_GUARANTEE:
            loaded = Loaded(tmp, textwrap.dedent(src).lstrip(), 'x')
            target, get_all, set_var = loaded.ns['mk'](0)
            node = find_def(loaded.src, target)
            o = convert_and_observe(hooks, loaded, target, node)
            loaded.close()
            run.count()
            term = build_case(len(case_info) + len(out_of_guarantee), loaded, o, node, [])
            if isinstance(term, str):
                cases.append(term)
                case_info[len(case_info) + len(out_of_guarantee)] = {
                    'spec': {'kind': 'out-of-guarantee:' + name, 'cleared': None}, 'src': loaded.src}
            if o.cf is None:
                out_of_guarantee.append('%s: %s' % (name, (o.error or '')[:120]))
            else:
                fails = [f for f in oracle(r, loaded, o, get_all, set_var, [], 2)]
                out_of_guarantee.append('%s: converted, oracle failures %s' % (name, [k for k, _ in fails]))
                if any(k == 'closure' for k, _ in fails):
                    failures.append({'spec': {'kind': 'out-of-guarantee:' + name, 'cleared': None}, 'src': src,
                                     'fails': fails, 'fn': o.fn, 'cf': o.cf, 'node': None, 'instance': 0, 'error': None})
    finally:
        hooks.close()
    run.extra['kinds'] = n_kinds
    run.extra['out_of_guarantee_observations'] = out_of_guarantee
    run.extra['functions_converted'] = len(case_info)
    run.extra['conversions_served_by_the_factory_of_an_equal_code_object'] = n_aliased[0]
    if annotation_notes:
        run.extra['annotation_differences_observed'] = annotation_notes[:5]

    # ---- model vs implementation, evaluated inside Coq
    corr_bad = None
    if hooks.broken:
        corr_bad = 'observation hooks no longer fit the implementation: %s' % sorted(set(hooks.broken))[:3]
    if tie_msg is None and proofs_ok and cases:
        bad = []
        shards = [cases[i:i + 300] for i in range(0, len(cases), 300)]
        from concurrent.futures import ThreadPoolExecutor

        def ev(arg):
            k, shard = arg
            body = ['From Coq Require Import List String.', 'Import ListNotations.',
                    'Require Import MV.Iface.IfaceSyntax MV.Generated.C09_gen MV.Iface.Factory MV.Iface.FactoryCheck.',
                    'Local Open Scope string_scope.',
                    'Definition cases : list case := [', ';\n'.join(shard), '].',
                    'Eval vm_compute in failing cases.']
            return vlib.coq_eval('C09', 'cases_%d' % k, '\n'.join(body), timeout=600)
        with ThreadPoolExecutor(max_workers=8) as ex:
            results = list(ex.map(ev, enumerate(shards)))
        for rc, out in results:
            lst = vlib.parse_coq_list_of_nat(out) if rc == 0 else None
            if lst is None:
                corr_bad = 'model evaluation failed: ' + out[-600:]
                break
            bad.extend(lst)
        run.extra['traces_validated_against_impl'] = len(cases)
        if bad and corr_bad is None:
            # a disagreement on a function whose only oracle failure is the known finding is still a
            # disagreement: the model follows the code (it predicts the placeholder defaults)
            i0 = bad[0]
            corr_bad = 'model and implementation disagree on %d function(s), first: #%d kind=%s\n%s' % (
                len(bad), i0, case_info[i0]['spec']['kind'], case_info[i0]['src'])
            run.extra['correspondence_disagreements'] = bad[:20]
    elif tie_msg is None and not cases:
        corr_bad = 'no case could be observed'
    # ---- the history of the run (lives of code objects, which factory served each conversion) replayed on
    #      MV.Iface.Served over the cache configuration generated from malt/pyct/cache.py
    hist = hooks.history
    n_conv = sum(1 for e in hist.events if e[0] == 'convert')
    run.extra['history'] = {'code_objects': hist.n, 'deaths_observed': sum(1 for e in hist.events if e[0] == 'die'),
                            'conversions': n_conv, 'option_sets': len(hist.sub_ix),
                            'conversions_at_the_address_of_a_dead_converted_function_with_another_value':
                                hist.stale_reuse()}
    if run.extra['history']['conversions_at_the_address_of_a_dead_converted_function_with_another_value'] == 0:
        run.note('the stream of short-lived modules never produced a code object at the address of a dead, converted, '
                 'different one: the address-reuse situation was not exercised in this run')
    if tie_msg is None and proofs_ok and corr_bad is None:
        body = ['From Coq Require Import List NArith.', 'Import ListNotations.',
                'Require Import MV.Iface.IfaceSyntax MV.Generated.C09_cache_gen MV.Iface.Served MV.Iface.ServedCheck.',
                'Definition hist : hcase := %s.' % hist.coq_case(),
                'Eval vm_compute in hist_mismatches hist.']
        rc, out = vlib.coq_eval('C09', 'history', '\n'.join(body), timeout=600)
        lst = vlib.parse_coq_list_of_nat(out) if rc == 0 else None
        if lst is None:
            corr_bad = 'evaluation of the history on the model failed: ' + out[-600:]
        elif lst:
            convs = [e for e in hist.events if e[0] == 'convert']
            if lst[0] == 0:
                corr_bad = 'the recorded history of code objects is not well formed (identity / address bookkeeping broken)'
            else:
                e = convs[lst[0] - 1] if lst[0] - 1 < len(convs) else None
                corr_bad = ('the cache model (MV.Iface.Served over C09_cache_gen) and the implementation disagree on %d '
                            'conversion(s); first: conversion #%d of %s was served by the factory of %s' % (
                                len(lst), lst[0], hist.info[e[1]]['what'] if e else '?',
                                (hist.info[e[3]]['what'] if e and e[3] != 'TypeError' else 'TypeError')))
        else:
            run.extra['history_validated_against_model'] = n_conv

    if corr_bad:
        run.extra['correspondence_broken'] = corr_bad[:600]
    # ---- verdict
    reported = set()
    kf_counts = {'alias': 0, 'cleared': 0}
    run.extra['known_finding_instances'] = kf_counts
    real = 0
    for info in failures:
        kinds = tuple(sorted(set(k for k, _ in info['fails'])))
        classify = KF_CLEARED if is_cleared_defaults_finding(info) else None
        if classify:
            kf_counts['alias' if info.get('aliased') else 'cleared'] += 1
        sig = (classify, kinds, bool(info.get('lifecycle')))
        if classify is None:
            real += 1
        if sig in reported:
            continue
        reported.add(sig)
        how = {'none': 'f.__defaults__ = None; f.__kwdefaults__ = None', 'pos-none': 'f.__defaults__ = None',
               'kw-none': 'f.__kwdefaults__ = None', 'empty': 'f.__defaults__ = (); f.__kwdefaults__ = {}',
               'replaced': 'f.__defaults__ / f.__kwdefaults__ replaced by new objects'}.get(info['spec'].get('cleared'))
        if info.get('aliased'):
            how = ('(none) -- but an equal code object was converted first: load `converted_first_module_source` '
                   'and convert its mk(0)[0] before this one')
        rep = {'what': [m for _, m in info['fails']][:6], 'failure_kinds': list(kinds),
               'converted_first_module_source': info.get('alias_of') if info.get('aliased') else None,
               'kind': info['spec']['kind'], 'module_source': info['src'],
               'instance': info['instance'], 'bases': info.get('bases') or [info['instance'] * 50],
               'after_definition': how,
               'conversion_error': info['error'],
               'replay': 'bin/check C09 --replay <this file>  (loads module_source with the support globals _d/_deco, '
                         'calls mk(b) for every b in bases -- function objects sharing one code object -- and converts '
                         'each in that order with malt.impl.api.to_graph, applies after_definition to the last one '
                         'before converting it, and re-judges the last one)'}
        title = '%s: %s' % (', '.join(kinds), info['fails'][0][1][:160])
        if info.get('foreign'):
            rep['served_by'] = info['foreign']
            title = 'converted function has the interface of ANOTHER function (%s): %s' % (
                'whose code object was deallocated before' if 'already deallocated' in info['foreign'] else 'still alive', title)
        if info.get('foreign_src') and not info.get('lifecycle'):
            info['lifecycle'] = [{'module_source': info['foreign_src'], 'keep_previous_alive': False},
                                 {'module_source': info['src'], 'keep_previous_alive': False}]
        if info.get('lifecycle'):
            rep['lifecycle'] = info['lifecycle']
            if info.get('lifecycle_confirmed'):
                rep['lifecycle_confirmed'] = info['lifecycle_confirmed']
            rep['replay'] = ('bin/check C09 --replay <this file>  (for every entry of `lifecycle`, in order: load module_source '
                             'with the support globals _d/_deco, convert mk(0)[0] with malt.impl.api.to_graph, then drop the '
                             'module, the function and the converted function and run gc.collect() -- unless the NEXT entry '
                             'says keep_previous_alive; the LAST entry is judged.  Whether a new code object lands on the '
                             'address of a dead one is up to the allocator: the sequence is repeated up to 200 times)')
        run.violation(title, rep, classify=classify)
    if real == 0:
        if tie_msg is not None:
            run.violation('translator no longer recognises the source: ' + tie_msg,
                          {'broken_tie': tie_msg,
                           'searched': 'property-level oracle over %d generated functions found no failing input' % len(case_info)},
                          found_input=False)
        elif corr_bad:
            run.violation('correspondence model/implementation broken',
                          {'broken_correspondence': corr_bad,
                           'searched': 'property-level oracle over %d generated functions found no failing input' % len(case_info)},
                          found_input=False)
    run.assumptions += [
        'CPython resolves free names of the generated module as MV.Iface.Factory.model_ffv/entity_free say (compared with symtable and co_freevars on every case)',
        'types.FunctionType(code, globals, closure=...) binds closure[i] to code.co_freevars[i] and a def executed by it inherits globals (observed through __globals__/__closure__ identity on every case)',
        'no converter pass other than FunctionTransformer edits the parameter list or decorator list of the converted function (parameter list compared before/after transform_ast on every case)',
        'a bound method forwards __code__/__globals__/__closure__/__defaults__/__kwdefaults__ of its __func__']


OUT_OF_GUARANTEE = [
    ('freevar-named-ag__', '''
        def mk(base):
            ag__ = 3
            zeta = 4
            def f(p=1):
                return (p, ag__, zeta)
            return f, None, None
        '''),
    ('annotation-names-enclosing-local', '''
        def mk(base):
            T = int
            zeta = 4
            def f(p: T = 1):
                return (p, zeta)
            return f, None, None
        '''),
    ('global-named-inner_factory', '''
        def mk(base):
            zeta = 4
            def f(p=1):
                return (p, zeta, inner_factory)
            return f, None, None
        '''),
]


def life_steps_of(sources):
    return [{'spec': None, 'src': src, 'decos': [], 'how': 'replay', 'keep': bool(keep)} for src, keep in sources]


def try_sequence(hooks, tmp, steps, attempts):
    """Run the sequence of short-lived modules up to `attempts` times; -> (repetition, failures of the last step,
    who served it) of the first repetition in which the last step fails, or None."""
    found = []
    for attempt in range(attempts):
        def on_step(j, step, res):
            if res.get('unloadable'):
                return False
            if j == len(steps) - 1 and res['fails']:
                found.append((attempt + 1, [(k, m) for k, m in res['fails']], res['foreign']))
            res['info'] = None
            return True
        run_episode(hooks, tmp, random.Random(0), steps, 0, 6, on_step)
        if found:
            return found[0]
    return None


def replay_lifecycle(rep):
    tmp = vlib.ensure_dir(os.path.join(vlib.BUILD, 'tmp', 'c09-replay-%d' % os.getpid()))
    os.environ['TMPDIR'] = tmp
    steps = life_steps_of([(e['module_source'], e.get('keep_previous_alive')) for e in rep['lifecycle']])
    hooks = Hooks()
    try:
        found = try_sequence(hooks, tmp, steps, 200)
    finally:
        hooks.close()
        shutil.rmtree(tmp, ignore_errors=True)
    if found:
        print('re-judged on %s: repetition %d of the sequence: %s%s' % (
            vlib.REPO, found[0], found[1], ('\n' + found[2]) if found[2] else ''))
        return 1
    print('re-judged on %s: no failure in 200 repetitions of the sequence' % vlib.REPO)
    return 0


def replay(path):
    doc = json.load(open(path))
    print(json.dumps(doc, indent=1)[:4000])
    rep = doc.get('replay', doc)
    src = rep.get('module_source')
    if not src:
        return 0
    if rep.get('lifecycle'):
        return replay_lifecycle(rep)
    tmp = vlib.ensure_dir(os.path.join(vlib.BUILD, 'tmp', 'c09-replay-%d' % os.getpid()))
    os.environ['TMPDIR'] = tmp
    try:
        loaded = Loaded(tmp, textwrap.dedent(src).lstrip(), 'r')
        bases = rep.get('bases') or [rep.get('instance', 0) * 50]
        how = rep.get('after_definition')
        hooks = Hooks()
        keep_alive = []
        fails = []
        try:
            for i, b in enumerate(bases):
                target, get_all, set_var = loaded.ns['mk'](b)
                keep_alive.append((target, get_all, set_var))
                fn = underlying(target)
                if i == len(bases) - 1 and how and 'replaced' not in how and not how.startswith('(none)'):
                    exec(how, {'f': fn})
                o = convert_and_observe(hooks, loaded, target, None)
                if i == len(bases) - 1:
                    fails = oracle(random.Random(0), loaded, o, get_all, set_var, [], 6)
        finally:
            hooks.close()
        print('re-judged on %s: %s' % (vlib.REPO, fails if fails else 'no failure'))
        return 1 if fails else 0
    finally:
        shutil.rmtree(tmp, ignore_errors=True)
