"""C19 -- static type inference over-approximates the types that occur at run time (DESIGN.md 4/C19).

Model (coq/Types/Infer.v): tags, type maps, StmtInferrer as `infer` / `new_symbols`, Analyzer.visit_node
as `transfer`, _TypeMap.__or__ as `join`, GraphVisitor._visit_internal as the fuelled `worklist`; a value
semantics in which every value has a tag; resolver and operator semantics are Section variables.
Theorems (coq/Properties/C19): types_sound / expr_types_sound (any in_/out maps closed under the
dataflow inclusions are sound along every execution, for variables all of whose bindings are typed),
certificate_sound (the boolean check of those inclusions), unknown_reports_nothing, two refuted
witnesses of the known finding (no representation of 'unknown'), fndefs_reach_call_sites and
closure_types_reach_callee_entry (coq/Types/Closure.v: the types at a call site of a local function are
in its final CLOSURE_TYPES and, for call sites analysed before the callee, in the callee's entry state).

Ties, on every run, on generated functions analysed by the REAL malt.pyct pipeline with a scripted,
truthful resolver whose answers are logged:
   * correspondence: the model worklist run on the exported CFG with the logged answers reproduces the
     implementation's in_/out maps at every node;
   * certificate: `sol_ok` evaluated in Coq on the implementation's own in_/out maps holds, i.e. the
     hypotheses of types_sound hold for that function (for its clean variables);
   * closure certificate: `clos_ok` evaluated in Coq on, per local function, the CLOSURE_TYPES annotation at
     the start of its analysis, the final annotation and in_ of its entry node, and the out map of every
     call site (translate/c19_export.closure_case).
Property-level oracle (CPython): an instrumented twin of each function is run on its argument vectors;
every evaluation of an annotated expression, every binding of an annotated target / parameter and the
captured variables at every entry of a local function are compared with anno.Static.TYPES /
CLOSURE_TYPES.  Known findings are classified per failing observation (translate/c19_lab.judge).
"""
import ast
import json
import os
import random
import re
from concurrent.futures import ThreadPoolExecutor

from lib import vlib
from translate import c19_lab as L
from translate import c19_export as X

UNTYPED = L.UNTYPED
SIDE = L.SIDE
ALIAS = L.ALIAS
STAR = L.STAR
NLJOIN = L.NLJOIN
LATE = L.LATE
FWD = L.FWD
DIVERGE = 'c19-analysis-diverges-on-growing-tuple-types'
OSC = 'c19-walk-oscillates-after-non-monotone-step'


def generate():
    """No generated Coq file: what is read from the source is read reflectively by the exporter
    (which StmtInferrer visitors exist) and the tables of each case are the logged resolver answers."""
    return None


def grows_tuples_in_loop(src):
    """classifier of DIVERGE: a loop body assigns a name from an expression that builds a tuple
    (display, mkpair, +) around a local variable"""
    tree = ast.parse(src)
    fn = tree.body[0]
    local = set(n.id for n in ast.walk(fn) if isinstance(n, ast.Name) and isinstance(n.ctx, ast.Store))
    for loop in ast.walk(fn):
        if not isinstance(loop, (ast.While, ast.For)):
            continue
        for st in ast.walk(loop):
            if isinstance(st, ast.Assign):
                for e in ast.walk(st.value):
                    builds = isinstance(e, ast.Tuple) or (isinstance(e, ast.BinOp) and isinstance(e.op, ast.Add)) or \
                        (isinstance(e, ast.Call) and isinstance(e.func, ast.Name) and e.func.id == 'mkpair')
                    if builds and any(isinstance(x, ast.Name) and x.id in local for x in ast.walk(e)):
                        return True
    return False


def corpus():
    out = []
    d = os.path.join(vlib.ROOT, 'corpus', 'C19')
    if os.path.isdir(d):
        for fn in sorted(os.listdir(d)):
            if fn.endswith('.py'):
                text = open(os.path.join(d, fn)).read()
                first, rest = text.split('\n', 1)
                out.append((fn, rest, ast.literal_eval(first.split(':', 1)[1].strip())))
    return out


def one_program(src, vecs, decline=None, local_args_unknown=False):
    """-> dict(prog, runs, an | None, diverged, fails, log)"""
    prog = L.Prog(src)
    runs = L.instrument_and_run(prog, vecs)
    log = []
    res = L.make_resolver(prog, runs, decline=decline, log=log, local_args_unknown=local_args_unknown)
    try:
        an = L.analyze(prog, res)
    except L.Diverged as e:
        return {'prog': prog, 'runs': runs, 'an': None, 'diverged': True, 'fails': [], 'log': log,
                'div': {'kind': e.kind, 'shrunk': e.shrunk, 'visits': e.visits}}
    fails = L.judge(prog, an, runs) + L.path_failures(prog, an, runs)
    return {'prog': prog, 'runs': runs, 'an': an, 'diverged': False, 'fails': fails, 'log': log}


def decliner(rnd):
    """a resolver that does not know some kinds of answers at all (constant per program: the worklist
    needs a deterministic resolver)"""
    kinds = [k for k in ('call', 'binop', 'compare', 'unop', 'slice', 'arg', 'name') if rnd.random() < 0.25]
    return (lambda kind: kind in kinds), kinds


def coq_cases(cases, run):
    if not cases:
        return [], []
    shards = [cases[i:i + 120] for i in range(0, len(cases), 120)]

    def one(a):
        i, sh = a
        body = ['From Coq Require Import List Arith Bool.', 'Import ListNotations.',
                'Require Import MV.Types.Infer MV.Types.InferCheck.',
                'Definition cases : list case := [', ';\n'.join(sh), '].',
                'Eval vm_compute in failing cases.']
        return vlib.coq_eval('C19', 'cases_%d' % i, '\n'.join(body), timeout=300)

    with ThreadPoolExecutor(max_workers=8) as ex:
        results = list(ex.map(one, enumerate(shards)))
    corr, cert = [], []
    for rc, out in results:
        m = re.search(r'=\s*\((\[[^\]]*\]|nil)\s*,\s*(\[[^\]]*\]|nil)\)', out)
        if rc != 0 or not m:
            run.note('coq evaluation of C19 cases failed: ' + out[-500:])
            return None, None
        corr += [int(x) for x in re.findall(r'\d+', m.group(1))]
        cert += [int(x) for x in re.findall(r'\d+', m.group(2))]
    return corr, cert


def coq_fn_cases(cases, run):
    """reaching-fndefs certificate (coq/Types/FnDefs.v) on every analysed program -> failing ids | None"""
    if not cases:
        return []
    shards = [cases[i:i + 300] for i in range(0, len(cases), 300)]

    def one(a):
        i, sh = a
        body = ['From Coq Require Import List Arith Bool.', 'Import ListNotations.', 'Require Import MV.Types.FnDefs.',
                'Definition cases : list fcase := [', ';\n'.join(sh), '].', 'Eval vm_compute in ffailing cases.']
        return vlib.coq_eval('C19', 'fncases_%d' % i, '\n'.join(body), timeout=300)

    with ThreadPoolExecutor(max_workers=8) as ex:
        results = list(ex.map(one, enumerate(shards)))
    bad = []
    for rc, out in results:
        r = vlib.parse_coq_list_of_nat(out) if rc == 0 else None
        if r is None:
            run.note('coq evaluation of C19 fndefs cases failed: ' + out[-400:])
            return None
        bad += r
    return bad


def coq_closure_cases(cases, run):
    """closure certificate (coq/Types/Closure.v) on every analysed program with a local function -> failing ids | None"""
    if not cases:
        return []
    shards = [cases[i:i + 60] for i in range(0, len(cases), 60)]

    def one(a):
        i, sh = a
        body = ['From Coq Require Import List Arith Bool.', 'Import ListNotations.',
                'Require Import MV.Types.Infer MV.Types.Closure.',
                'Definition cases : list ccase := [', ';\n'.join(sh), '].', 'Eval vm_compute in cfailing cases.']
        return vlib.coq_eval('C19', 'closcases_%d' % i, '\n'.join(body), timeout=300)

    with ThreadPoolExecutor(max_workers=8) as ex:
        results = list(ex.map(one, enumerate(shards)))
    bad = []
    for rc, out in results:
        r = vlib.parse_coq_list_of_nat(out) if rc == 0 else None
        if r is None:
            run.note('coq evaluation of C19 closure cases failed: ' + out[-400:])
            return None
        bad += r
    return bad


def describe(f):
    if f['kind'] == 'path':
        return ('executed transition line %s -> line %s (`%s`) is not a path of the CFG the type inference walked' % (
            f.get('from_line'), f['line'], f['text']))
    return '%s `%s` (line %s): reported %s, run-time value has type %s' % (
        {'name': 'name', 'expression': 'expression', 'closure': 'closure types'}[f['kind']], f['text'], f['line'],
        '{' + ', '.join(f['reported']) + '}', f['runtime'])


def check(run):
    quick = run.tier == 'quick'
    nprog = 260 if quick else 3000
    nsib = 40 if quick else 450          # additional programs of the sibling-call stream
    tmp = vlib.ensure_dir(os.path.join(vlib.BUILD, 'tmp', str(os.getpid())))
    os.environ['TMPDIR'] = tmp
    run.rule = ('seeded random functions def f(a, b, c) over int/float/bool/str/list/tuple values (translate/c19_lab.Gen: '
                'assignments, tuple/list unpacking, if/else, while, for, external typed calls, operators, subscripts, nested '
                'functions reading/rebinding captured variables, calls through aliases, local functions calling other local '
                'functions of the same scope directly and from nested functions, before and after the callee\'s def; 40% with constructs the inferrer '
                'cannot type and a resolver that declines some kinds of questions) x 1-3 argument vectors; '
                'non-trivial = function with a branch, loop or nested function; distinct by source text')
    try:
        generate()
    except Exception as e:   # noqa
        run.note('generate failed: %s' % e)
    vlib.standard_proof_step(run, ['Types/InferCheck.vo', 'Types/InferCertProofs.vo', 'Types/FnDefs.vo', 'Types/Closure.vo'])
    rnd = random.Random(run.seed * 104729 + 19)
    items = [(name, src, vecs, None, 'corpus') for name, src, vecs in corpus()]
    # the order in which Analyzer.visit_node folds the predecessors is the iteration order of a WeakSet (memory
    # addresses): programs of the loop-join stream are analysed several times, each on a fresh parse
    reps_loop = 8 if quick else 12
    lau_rnd = random.Random(run.seed + 4242)
    for i in range(nprog):
        c = rnd.random()
        if c < 0.08:
            opts, stream, dec = L.GOpts(untyped=False, nested=False, loopmut=True, max_stmts=6), 'loop-join', None
        elif c < 0.16:
            opts, stream, dec = L.GOpts(untyped=False, nested=False, loopelse=True, max_stmts=6), 'loop-else', None
        elif c < 0.21:
            opts, stream, dec = L.GOpts(shift=True), 'shift', None
        elif c < 0.45:
            opts, stream, dec = L.GOpts(untyped=False, nested=False), 'typed', None
        elif c < 0.65:
            opts, stream, dec = L.GOpts(untyped=False, nested=True), 'typed-nested', None
        else:
            opts, stream = L.GOpts(untyped=True, nested=rnd.random() < 0.5), 'untyped'
            dec = decliner(rnd)
        src, vecs = L.gen_case(rnd, opts)
        items.append(('gen%d' % i, src, vecs, dec, stream))
    # local functions that call other local functions of the same scope (own random stream: the programs above
    # do not depend on how many of these there are)
    sibrnd = random.Random(run.seed * 7919 + 1919)
    for i in range(nsib):
        src, vecs = L.gen_case(sibrnd, L.GOpts(untyped=False, nested=True, sibling=True, max_stmts=sibrnd.choice([3, 6, 10])))
        items.append(('sib%d' % i, src, vecs, None, 'sibling'))

    cases = []
    fn_cases = []
    fn_meta = {}
    clos_cases = []
    clos_meta = {}
    meta = {}
    unexplained = []
    known = {UNTYPED: 0, SIDE: 0, ALIAS: 0, STAR: 0, NLJOIN: 0, LATE: 0, FWD: 0, DIVERGE: 0, OSC: 0}
    hist = {}
    seen_src = set()
    stats = {'programs': 0, 'runs': 0, 'runs_raising': 0, 'annotated_nodes': 0, 'events_checked': 0,
             'exported': 0, 'not_exported': 0, 'clean_names': 0, 'local_names': 0, 'diverged': 0}
    for name, src, vecs, dec, stream in items:
        if src in seen_src:
            continue
        seen_src.add(src)
        # a truthful resolver usually cannot know the parameters of a LOCAL function: unknown in the corpus and
        # in half of the generated programs, observed types in the other half
        lau = stream == 'corpus' or lau_rnd.random() < 0.65
        try:
            r = one_program(src, vecs, decline=dec[0] if dec else None, local_args_unknown=lau)
        except Exception as e:   # noqa
            unexplained.append(('the analysis raised %s: %s' % (type(e).__name__, str(e)[:200]), src, vecs, None))
            continue
        stats['programs'] += 1
        hist[stream] = hist.get(stream, 0) + 1
        stats['runs'] += len(r['runs'])
        stats['runs_raising'] += sum(1 for _, res in r['runs'] if res[0] == 'raise')
        stats['events_checked'] += sum(len(rec.events) for rec, _ in r['runs'])
        run.count(len(r['runs']))
        if re.search(r'\b(if|while|for|def g)', src):
            run.nontriv(src)
        if r['diverged']:
            stats['diverged'] += 1
            dv = r['div']
            if grows_tuples_in_loop(src) and dv['kind'] in ('growth', 'budget'):
                known[DIVERGE] += 1
                run.violation('analysis does not reach a fixed point', {}, classify=DIVERGE)
            elif dv['kind'] == 'periodic' and dv['shrunk']:
                # the states cycle exactly, and a node lost a type between two visits (the non-monotone step)
                known[OSC] += 1
                run.violation('analysis oscillates', {}, classify=OSC)
            else:
                unexplained.append(('type inference did not reach a fixed point (%s after %d node visits)' % (dv['kind'], dv['visits']),
                                    src, vecs, None))
            continue
        stats['annotated_nodes'] += len(r['an'].types)
        fails = list(r['fails'])
        if stream == 'loop-join' or name.startswith('ok_loop'):
            fails = [dict(f, repetitions=2 * reps_loop) for f in fails]
            for _ in range(reps_loop - 1):
                try:
                    r2 = one_program(src, vecs, decline=dec[0] if dec else None, local_args_unknown=lau)
                except Exception:   # noqa
                    continue
                stats['repeated_analyses'] = stats.get('repeated_analyses', 0) + 1
                run.count(len(r2['runs']))
                fails += [dict(f, repetitions=2 * reps_loop) for f in r2['fails']]
        for f in fails:
            if f['cause'] in (UNTYPED, SIDE, ALIAS, STAR, NLJOIN, LATE, FWD):
                known[f['cause']] += 1
                if known[f['cause']] == 1:
                    run.violation(describe(f), {'program': src, 'argument_vectors': repr(vecs),
                                                'failure': dict(f, resolver_declines=dec[1] if dec else [], local_args_unknown=lau),
                                                'replay': 'bin/check C19 --replay <this file>'}, classify=f['cause'])
            else:
                unexplained.append((describe(f), src, vecs, dict(f, resolver_declines=dec[1] if dec else [], local_args_unknown=lau)))
        if stats['programs'] % 37 == 1:
            run.sample({'program': src, 'argument_vectors': vecs, 'stream': stream,
                        'resolver_declines': dec[1] if dec else [],
                        'reported': {ast.unparse(r['prog'].nodes[k])[:30] + '@%d' % r['prog'].nodes[k].lineno: L.tset(v)
                                     for k, v in list(r['an'].types.items())[:6]},
                        'outcomes': [res[0] for _, res in r['runs']]})
        # certificate of the reaching function definitions the inference consumed
        fn_meta[len(fn_cases)] = (src, vecs)
        fn_cases.append(X.fn_case(r['prog'], r['an'], len(fn_cases)))
        # closure certificate: call-site types arrive in the callee's closure types and entry state
        if max([len(v) for v in r['an'].types.values()] or [0]) <= 64:
            cc = X.closure_case(r['prog'], r['an'], len(clos_cases))
            if cc is not None:
                clos_meta[len(clos_cases)] = (src, vecs)
                clos_cases.append(cc)
        # case for the model
        try:
            if max([len(v) for v in r['an'].types.values()] or [0]) > 64:
                # (products of tuple tags: evaluating the model on sets of hundreds of tuple tags takes minutes in Coq)
                raise X.Unsupported('type sets too large for the quick model evaluation')
            ex = X.Exporter(r['prog'], r['an'], r['log'])
            idx = len(meta)
            cases.append(ex.case(idx))
            meta[idx] = (src, vecs)
            stats['exported'] += 1
            stats['clean_names'] += ex.nclean
            stats['local_names'] += len(ex.locals)
        except X.Unsupported:
            stats['not_exported'] += 1
    run.extra.update(stats)
    run.extra['streams'] = hist
    run.extra['known_finding_observations'] = known
    run.extra['traces_validated_against_impl'] = stats['runs']

    corr_bad, cert_bad = coq_cases(cases, run)
    fn_bad = coq_fn_cases(fn_cases, run)
    clos_bad = coq_closure_cases(clos_cases, run)
    run.extra['model_cases'] = len(cases)
    run.extra['fndefs_certificates'] = len(fn_cases)
    run.extra['closure_certificates'] = len(clos_cases)

    seen = set()
    for what, src, vecs, f in unexplained:
        key = f['kind'] if f else what[:40]
        if key in seen:
            continue
        seen.add(key)
        run.violation(what, {'program': src, 'argument_vectors': repr(vecs), 'failure': f,
                             'replay': 'bin/check C19 --replay <this file>'})
    broken = []
    if corr_bad is None:
        broken.append('model evaluation failed')
    else:
        if corr_bad:
            broken.append('model worklist and implementation disagree on the in_/out maps of %d function(s), e.g.\n%s' % (
                len(corr_bad), meta[corr_bad[0]][0]))
        if cert_bad:
            broken.append('the implementation\'s in_/out maps do not satisfy the hypotheses of types_sound (sol_ok false) for '
                          '%d function(s), e.g.\n%s' % (len(cert_bad), meta[cert_bad[0]][0]))
        if fn_bad is None:
            broken.append('fndefs certificate evaluation failed')
        elif fn_bad:
            broken.append('DEFINED_FNS_IN does not satisfy the reaching-definition inequations (fn_ok false, theorem '
                          'fndefs_reach_call_sites no longer applies) for %d function(s), e.g.\n%s' % (len(fn_bad), fn_meta[fn_bad[0]][0]))
        if clos_bad is None:
            broken.append('closure certificate evaluation failed')
        elif clos_bad:
            broken.append('the CLOSURE_TYPES / entry maps of local functions do not satisfy the inclusions of '
                          'closure_types_reach_callee_entry (clos_ok false: a call site\'s types are missing from the callee\'s '
                          'closure types or entry state) for %d function(s), e.g.\n%s' % (len(clos_bad), clos_meta[clos_bad[0]][0]))
        if stats['exported'] < 0.2 * max(1, stats['programs']):
            broken.append('the exporter recognises only %d of %d functions (StmtInferrer grew visitors the model does not know?)'
                          % (stats['exported'], stats['programs']))
    if broken and not unexplained:
        # search: the functions on which the tie broke, with more argument vectors and a fully answering resolver
        found = None
        todo = [meta[i] for i in sorted(set((corr_bad or []) + (cert_bad or [])))] + [fn_meta[i] for i in (fn_bad or [])] + \
            [clos_meta[i] for i in (clos_bad or [])]
        srnd = random.Random(run.seed + 7)
        for src, vecs in todo[:60]:
            more = [[srnd.choice(L.ARG_POOL) for _ in L.PARAMS] for _ in range(6)]
            bad = []
            for k in range(8):      # fresh parse each time: the fold order of the predecessors depends on addresses
                try:
                    r = one_program(src, vecs + (more if k % 2 else []), local_args_unknown=True)
                except Exception:   # noqa
                    continue
                bad = [f for f in r['fails'] if not f['cause']]
                if bad:
                    more = more if k % 2 else []
                    break
            if bad:
                found = (describe(bad[0]), {'program': src, 'argument_vectors': repr(vecs + more),
                                            'failure': dict(bad[0], local_args_unknown=True, repetitions=16),
                                            'replay': 'bin/check C19 --replay <this file>'})
                break
        if found:
            run.violation(found[0], found[1])
        else:
            run.violation('tie between the Coq model and type_inference.py broke: ' + '; '.join(broken),
                          {'broken': broken, 'searched': 'the disagreeing functions re-run with 6 more argument vectors each: '
                           'no reported set missed a run-time type'}, found_input=False)
    run.assumptions += [
        'the scripted resolver is truthful: literals/external names by type(), arguments and external call results from '
        'the observed runs plus type-level evaluation on sample values, operators by evaluation on sample values',
        'tuple tags are structural (the tuple of the element tags), typing.Any covers every value, a typing Callable covers callables',
        'types_sound covers one function graph without local functions; for local functions the closure certificate '
        '(closure_types_reach_callee_entry) ties call-site maps to the callee\'s closure types and entry state, the types '
        'inside local functions and at their calls are checked by the run-time oracle',
        'that the worklist terminates with maps closed under the inclusions is validated per generated function '
        '(certificate evaluated in Coq), not proved']
    try:
        os.rmdir(tmp)
    except OSError:
        pass


def replay(path):
    doc = json.load(open(path))
    rp = doc.get('replay', {})
    src = rp.get('program')
    if not src:
        print(json.dumps(doc, indent=1))
        return 0
    vecs = rp.get('argument_vectors') or '[[1, 1, 2]]'
    fl = rp.get('failure') or {}
    kinds = fl.get('resolver_declines') or []
    print(src)
    bad = 0
    nrep = int(fl.get('repetitions') or 1)     # order-dependent results: analysed on several fresh parses
    for k in range(nrep):
        try:
            r = one_program(src, ast.literal_eval(vecs) if isinstance(vecs, str) else vecs,
                            decline=(lambda kind: kind in kinds) if kinds else None,
                            local_args_unknown=bool(fl.get('local_args_unknown')))
        except Exception as e:   # noqa
            print('FAIL the analysis raised %s: %s' % (type(e).__name__, str(e)[:200]))
            return 1
        if r['diverged']:
            dv = r['div']
            known_div = (grows_tuples_in_loop(src) and dv['kind'] in ('growth', 'budget')) or (dv['kind'] == 'periodic' and dv['shrunk'])
            print('%stype inference did not reach a fixed point: %s' % ('KNOWN ' if known_div else 'FAIL ', dv))
            return 0 if known_div else 1
        for f in r['fails']:
            print(('KNOWN [%s] ' % f['cause'] if f['cause'] else 'FAIL ') + describe(f) + (' (analysis %d of %d)' % (k + 1, nrep) if nrep > 1 else ''))
            bad += 0 if f['cause'] else 1
        if bad:
            break
    if not bad:
        print('every reported set covers the run-time types' + (' in %d analyses' % nrep if nrep > 1 else ''))
    return 1 if bad else 0
