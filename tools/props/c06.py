"""C06 -- reaching definitions and defined-on-entry sets are sound (DESIGN.md 4/C06).

Coq: coq/Flow/MayAnalysis.v (generic gen/kill theory composed with C05's exec_fn_is_path), SetExpr.v (+Proofs: the
transfer equations GENERATED from reaching_definitions.Analyzer.visit_node are of gen/kill form), Dataflow.v
(+Proofs), obligations in coq/Properties/C06.  Ties checked on every run: translator (fail closed) + re-proved side
conditions; per program: reported in/out are the fixed point of the generated equations on the implementation's
graph, satisfy the soundness inclusions for Python-side binds / deletes, DEFINITIONS and DEFINED_VARS_IN are what
the node solution implies.  Oracle: CPython variable events: at every read the last writer must be among the
attached definitions; at every entry of an if/for/while/try every bound local must be in DEFINED_VARS_IN.
Shared machinery: tools/export/flow.py."""
import os

from lib import vlib
from export import flow
from translate import c06_transfer


def generate():
    vlib.write_if_changed(os.path.join(vlib.COQ, 'Generated', 'C06_gen.v'), c06_transfer.translate_reachdef(vlib.REPO))


def check(run):
    flow.check_property(run, 'rd', generate)


def replay(path):
    return flow.replay_property(path, 'rd')
