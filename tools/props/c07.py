"""C07 -- liveness is sound: anything read later is reported live (DESIGN.md 4/C07).

Coq: coq/Flow/MayAnalysis.v (generic gen/kill theory composed with C05's exec_fn_is_path), SetExpr.v (+Proofs: the
transfer equations GENERATED from liveness.Analyzer.visit_node are of gen/kill form), Dataflow.v (+Proofs: the
boolean checks evaluated on exported programs establish the hypotheses of the theory), obligations in
coq/Properties/C07.  Ties checked on every run: translator (fail closed) + re-proved side conditions; per program:
the reported in/out sets are the fixed point of the generated equations on the implementation's graph, they satisfy
the soundness inclusions for Python-side reads / binds, annotations are what the node solution implies.
Oracle: CPython variable events (pyrt.run_var_events): every variable whose value is read later before being
overwritten must be in in_/out and LIVE_VARS_IN/OUT at every statement-instance boundary -- of the top function and,
activation by activation, of every nested function against its own graph (reads later in the same activation by the
function, by functions nested in it, or by local functions of the enclosing functions whose definition reaches its
definition: flow.nested_activation_views; the Coq rows of a nested function carry those functions' free reads in
n_cread, so lv_sound demands them at every node that performs a call).
Shared machinery: tools/export/flow.py."""
import os

from lib import vlib
from export import flow
from translate import c07_transfer


def generate():
    vlib.write_if_changed(os.path.join(vlib.COQ, 'Generated', 'C07_gen.v'), c07_transfer.translate_liveness(vlib.REPO))


def closure_rule_full():
    """is the full closure rule (nonlocal reads included) provable for the generated table?  -> True/False/None"""
    body = ('Require Import MV.Properties.C07.liveness_closure_rule_partial.\n'
            'Eval vm_compute in (if closure_rule_full then [1] else [0]).\n')
    body = 'From Coq Require Import List. Import ListNotations.\n' + body
    rc, out = vlib.coq_eval('C07', 'closure_rule', body, timeout=600)
    r = vlib.parse_coq_list_of_nat(out) if rc == 0 else None
    return None if not r else bool(r[0])


def check(run):
    flow.check_property(run, 'lv', generate)
    full = closure_rule_full()
    run.extra['closure_rule_covers_nonlocal_reads'] = full
    if full is False:
        run.violation('closure rule of liveness.Analyzer.visit_node drops variables the local function declares nonlocal',
                      {}, classify='liveness-nonlocal-closure-read')


def replay(path):
    return flow.replay_property(path, 'lv')
